package main

import (
	"bytes"
	"context"
	"encoding/base64"
	"encoding/binary"
	"errors"
	"fmt"
	"os"
	"strings"

	"github.com/tetratelabs/wazero"
	"github.com/tetratelabs/wazero/api"
	"github.com/tetratelabs/wazero/experimental"
	"github.com/tetratelabs/wazero/internal/wasmruntime"
	"github.com/tetratelabs/wazero/sys"
	"github.com/tetratelabs/wazero/verif/wb"
)

const features = api.CoreFeaturesV2 | experimental.CoreFeaturesThreads | experimental.CoreFeaturesTailCall

var engineNames = [2]string{"compiler", "interpreter"}

var bg = context.Background()

// zeroReader is a deterministic random source (also avoids seeding a PRNG per instantiation).
type zeroReader struct{}

func (zeroReader) Read(p []byte) (int, error) {
	for i := range p {
		p[i] = 0
	}
	return len(p), nil
}

var modCfg = wazero.NewModuleConfig().WithName("").WithRandSource(zeroReader{})

var debugTol = os.Getenv("C01_DEBUG_TOL") != ""

// debugf appends to the file named by C01_DEBUG_TOL (development aid only).
func debugf(format string, a ...any) {
	f, err := os.OpenFile(os.Getenv("C01_DEBUG_TOL"), os.O_APPEND|os.O_CREATE|os.O_WRONLY, 0o644)
	if err != nil {
		return
	}
	fmt.Fprintf(f, format, a...)
	f.Close()
}

func newRuntime(e int) wazero.Runtime {
	var cfg wazero.RuntimeConfig
	if e == 0 {
		cfg = wazero.NewRuntimeConfigCompiler()
	} else {
		cfg = wazero.NewRuntimeConfigInterpreter()
	}
	return wazero.NewRuntimeWithConfig(bg, cfg.WithCoreFeatures(features).WithMemoryLimitPages(64))
}

// chunkRes is what a child reports for one chunk (one line of JSON).
type chunkRes struct {
	Progs    int64            `json:"p"`
	Calls    int64            `json:"c"`
	Hists    int64            `json:"h,omitempty"`
	Nontriv  int64            `json:"n"`
	Hashes   string           `json:"x,omitempty"` // base64 of the 8-byte hashes of non-trivial programs
	Outcomes map[string]int64 `json:"o"`
	Mis      []mismatch       `json:"m,omitempty"`
	Samples  []any            `json:"s,omitempty"`
	Err      string           `json:"e,omitempty"` // harness error
	Skipped  bool             `json:"k,omitempty"` // not executed (budget used up, or the worker already saw several failing chunks)
	hashes   []byte
	// allClassified: every mismatch so far carries a precise input-class signature (candidate known finding)
	allClassified bool
	sawMismatch   bool
}

type mismatch struct {
	Sig    string `json:"sig"`
	What   string `json:"what"`
	Replay replay `json:"replay"`
}

type replay struct {
	Tier   string         `json:"tier"`
	Family string         `json:"family"`
	Chunk  int            `json:"chunk"`
	Prog   int            `json:"prog"`           // index within the chunk
	Args   []uint64       `json:"args,omitempty"` // argument vector (stateless families)
	Hist   int            `json:"hist,omitempty"` // history index within the chunk (stateful families)
	Info   map[string]any `json:"info,omitempty"`
}

func (r *chunkRes) inc(k string) {
	if r.Outcomes == nil {
		r.Outcomes = map[string]int64{}
	}
	r.Outcomes[k]++
}

func (r *chunkRes) addN(k string, n int64) {
	if r.Outcomes == nil {
		r.Outcomes = map[string]int64{}
	}
	r.Outcomes[k] += n
}

func (r *chunkRes) nontrivial(h uint64) {
	r.Nontriv++
	r.hashes = binary.LittleEndian.AppendUint64(r.hashes, h)
}

func (r *chunkRes) finish() {
	r.Hashes = base64.RawStdEncoding.EncodeToString(r.hashes)
}

func (r *chunkRes) mismatch(m mismatch) {
	if len(r.Mis) < 8 {
		r.Mis = append(r.Mis, m)
	}
	if !r.sawMismatch {
		r.sawMismatch, r.allClassified = true, true
	}
	if !classifiedSigs[m.Sig] {
		r.allClassified = false
	}
	r.inc("divergence(reported-or-known-finding)")
}

// classifiedSigs are the signatures of precisely classified input classes (see findings.json); chunks that only show
// these do not count towards a worker's "stop collecting" threshold.
var classifiedSigs = map[string]bool{
	"atomic:misaligned-and-out-of-bounds:trap-kind":       true,
	"reexport:exported-host-import:compiler-panics":       true,
	"tailcall:7-int-params:last-param-clobbered:compiler": true,
}

// trapClass maps a Call error to a canonical class. Error texts are never compared.
var sentinels = []struct {
	err  *wasmruntime.Error
	name string
}{
	{wasmruntime.ErrRuntimeStackOverflow, "stack-overflow"},
	{wasmruntime.ErrRuntimeInvalidConversionToInteger, "invalid-conversion"},
	{wasmruntime.ErrRuntimeIntegerOverflow, "integer-overflow"},
	{wasmruntime.ErrRuntimeIntegerDivideByZero, "divide-by-zero"},
	{wasmruntime.ErrRuntimeUnreachable, "unreachable"},
	{wasmruntime.ErrRuntimeOutOfBoundsMemoryAccess, "oob-memory"},
	{wasmruntime.ErrRuntimeInvalidTableAccess, "invalid-table-access"},
	{wasmruntime.ErrRuntimeIndirectCallTypeMismatch, "indirect-type-mismatch"},
	{wasmruntime.ErrRuntimeUnalignedAtomic, "unaligned-atomic"},
	{wasmruntime.ErrRuntimeExpectedSharedMemory, "expected-shared-memory"},
	{wasmruntime.ErrRuntimeTooManyWaiters, "too-many-waiters"},
}

const stackOverflow = "trap:stack-overflow"

func trapClass(err error) string {
	if err == nil {
		return "ok"
	}
	var ee *sys.ExitError
	if errors.As(err, &ee) {
		return fmt.Sprintf("exit:%d", ee.ExitCode())
	}
	for _, s := range sentinels {
		if errors.Is(err, s.err) {
			return "trap:" + s.name
		}
	}
	msg := err.Error()
	if i := strings.IndexByte(msg, '\n'); i >= 0 {
		msg = msg[:i]
	}
	if len(msg) > 120 {
		msg = msg[:120]
	}
	return "other:" + msg
}

// safeCall calls fn and converts a Go panic that escapes Call into an outcome class.
func safeCall(fn api.Function, stack []uint64) (cls string) {
	defer func() {
		if r := recover(); r != nil {
			s := fmt.Sprint(r)
			if len(s) > 160 {
				s = s[:160]
			}
			cls = "panic:" + s
		}
	}()
	return trapClass(fn.CallWithStack(bg, stack))
}

// valuesAgree compares result values under the taints; returns "" when they agree, else a reason.
// tolerated reports that a difference was accepted because the specification leaves it open.
func valuesAgree(ts []byte, taints []taint, a, b []uint64) (reason string, tolerated bool) {
	k := 0
	for i, t := range ts {
		tt := clean
		if i < len(taints) {
			tt = taints[i]
		}
		n := slots(t)
		same := true
		for j := 0; j < n; j++ {
			av, bv := a[k+j], b[k+j]
			if t == wb.I32 || t == wb.F32 {
				av, bv = uint64(uint32(av)), uint64(uint32(bv))
			}
			if av != bv {
				same = false
			}
		}
		if !same {
			ok := false
			switch {
			case tt == wild:
				ok = true
			case tt == nanopen && t == wb.F32:
				ok = isNaN32(a[k]) && isNaN32(b[k]) && isQuiet32(a[k]) && isQuiet32(b[k])
			case tt == nanopen && t == wb.F64:
				ok = isNaN64(a[k]) && isNaN64(b[k]) && isQuiet64(a[k]) && isQuiet64(b[k])
			case tt == nanF32x4 && t == wb.V128:
				ok = true
				for j := 0; j < 2; j++ {
					for sh := uint(0); sh < 64; sh += 32 {
						x, y := (a[k+j]>>sh)&0xffffffff, (b[k+j]>>sh)&0xffffffff
						if x != y && !(isNaN32(x) && isNaN32(y) && isQuiet32(x) && isQuiet32(y)) {
							ok = false
						}
					}
				}
			case tt == nanF64x2 && t == wb.V128:
				ok = true
				for j := 0; j < 2; j++ {
					x, y := a[k+j], b[k+j]
					if x != y && !(isNaN64(x) && isNaN64(y) && isQuiet64(x) && isQuiet64(y)) {
						ok = false
					}
				}
			}
			if !ok {
				return fmt.Sprintf("result %d (%s) differs", i, tname(t)), false
			}
			tolerated = true
		}
		k += n
	}
	return "", tolerated
}

// Note: 32-bit results are compared on their low 32 bits only; the upper half of the 64-bit slot is not part of
// the value (api.DecodeU32 and friends drop it).

func sanitizeSig(s string) string {
	s = strings.ReplaceAll(s, " ", "_")
	if len(s) > 120 {
		s = s[:120]
	}
	return s
}

// compiled is a module compiled and instantiated on both engines.
type twin struct {
	rt   [2]wazero.Runtime
	code [2]wazero.CompiledModule
	mod  [2]api.Module
	// initial is the state of a fresh instance (stateful families)
	initial *snapshot
}

func (t *twin) close() {
	for e := 0; e < 2; e++ {
		if t.mod[e] != nil {
			t.mod[e].Close(bg)
		}
		if t.code[e] != nil {
			t.code[e].Close(bg)
		}
	}
}

// compileBoth compiles bin on both engines. ok=false means a verdict or a harness error was recorded.
func compileBoth(rts [2]wazero.Runtime, bin []byte) (t *twin, cls [2]string) {
	t = &twin{rt: rts}
	for e := 0; e < 2; e++ {
		func() {
			defer func() {
				if r := recover(); r != nil {
					s := fmt.Sprint(r)
					if len(s) > 200 {
						s = s[:200]
					}
					cls[e] = "panic:" + s
				}
			}()
			c, err := rts[e].CompileModule(bg, bin)
			if err != nil {
				msg := err.Error()
				if len(msg) > 200 {
					msg = msg[:200]
				}
				cls[e] = "error:" + msg
				return
			}
			t.code[e] = c
			cls[e] = "ok"
		}()
	}
	return
}

// runStateless builds one module out of progs, instantiates it once per engine and calls every export with
// every argument vector. Stateless programs have no memory, globals, tables or imports, so calls are independent.
type slOpts struct {
	fam, tier  string
	chunk      int
	pre        func(m *wb.Module)
	memCompare bool // compare the linear memory of the two instances after each program
}

func runStateless(o slOpts, rts [2]wazero.Runtime, progs []*Prog, only int, onlyArgs []uint64, res *chunkRes, verbose bool) {
	fam, tier, chunk, pre := o.fam, o.tier, o.chunk, o.pre
	m := &wb.Module{}
	if pre != nil {
		pre(m)
	}
	for i, p := range progs {
		idx := m.AddFunc(p.Params, p.Results, p.Locals, p.Body)
		m.ExportFunc(fmt.Sprintf("f%d", i), idx)
	}
	bin := m.Encode()
	tw, cls := compileBoth(rts, bin)
	defer tw.close()
	if cls[0] != "ok" || cls[1] != "ok" {
		if cls[0] != "ok" && cls[1] != "ok" && strings.HasPrefix(cls[0], "error:") && strings.HasPrefix(cls[1], "error:") {
			res.Err = fmt.Sprintf("%s chunk %d: generated module rejected by both engines: %s", fam, chunk, cls[0])
			return
		}
		// locate the offending function by compiling one-function modules
		culprit := -1
		var ccls [2]string
		for i, p := range progs {
			sm := &wb.Module{}
			if pre != nil {
				pre(sm)
			}
			sm.ExportFunc("f", sm.AddFunc(p.Params, p.Results, p.Locals, p.Body))
			st, scls := compileBoth(rts, sm.Encode())
			st.close()
			if scls[0] != scls[1] {
				culprit, ccls = i, scls
				break
			}
		}
		what := fmt.Sprintf("compilation outcome differs for a valid module: compiler=%s interpreter=%s", cls[0], cls[1])
		sig := fam + ":compile-differs"
		info := map[string]any{}
		if culprit >= 0 {
			p := progs[culprit]
			what = fmt.Sprintf("compilation outcome differs for valid function %s {%s}: compiler=%s interpreter=%s", p.typeString(), p.Desc, ccls[0], ccls[1])
			sig = fam + ":" + sanitizeSig(p.SigOps) + ":compile-differs"
			info = p.describe()
		}
		res.mismatch(mismatch{Sig: sig, What: what, Replay: replay{Tier: tier, Family: fam, Chunk: chunk, Prog: culprit, Info: info}})
		return
	}
	for e := 0; e < 2; e++ {
		mod, err := rts[e].InstantiateModule(bg, tw.code[e], modCfg)
		if err != nil {
			res.Err = fmt.Sprintf("%s chunk %d: instantiate on %s: %v", fam, chunk, engineNames[e], err)
			return
		}
		tw.mod[e] = mod
	}
	var sa, sb []uint64
	for i, p := range progs {
		if only >= 0 && i != only {
			continue
		}
		name := fmt.Sprintf("f%d", i)
		fa, fb := tw.mod[0].ExportedFunction(name), tw.mod[1].ExportedFunction(name)
		vecs, reduced := p.argVectors(4096)
		if onlyArgs != nil {
			vecs = [][]uint64{onlyArgs}
		}
		if reduced {
			res.inc("args:two-deviation-set")
		}
		np, nr := nslots(p.Params), nslots(p.Results)
		n := np
		if nr > n {
			n = nr
		}
		if cap(sa) < n {
			sa, sb = make([]uint64, n), make([]uint64, n)
		}
		sa, sb = sa[:n], sb[:n]
		res.Progs++
		if verbose {
			fmt.Printf("program %s: %s\n  {%s}\n  body %x\n", name, p.typeString(), p.Desc, p.Body)
		}
		var first string
		nontriv := false
		for vi, v := range vecs {
			copy(sa, v)
			copy(sb, v)
			ca := safeCall(fa, sa)
			cb := safeCall(fb, sb)
			res.Calls++
			var out string
			bad := ""
			switch {
			case ca != cb:
				if ca == stackOverflow || cb == stackOverflow {
					res.inc("tolerated:stack-overflow")
				} else if p.Wild {
					res.inc("tolerated:nan-dependent-trap")
				} else {
					bad = fmt.Sprintf("outcome differs: compiler=%s interpreter=%s", ca, cb)
				}
				out = ca
			case ca != "ok":
				out = ca
				if strings.HasPrefix(ca, "panic:") || strings.HasPrefix(ca, "other:") {
					bad = "both engines fail with a non-trap error: " + ca
				}
			default:
				why, tol := valuesAgree(p.Results, p.ResTaint, sa[:nr], sb[:nr])
				if why != "" {
					bad = fmt.Sprintf("%s: compiler=%s interpreter=%s", why, fmtVals(p.Results, sa[:nr]), fmtVals(p.Results, sb[:nr]))
					if p.Expect != nil {
						bad += " reference=" + fmtVals(p.Results, p.Expect(v, sb[:nr]))
					}
				} else if p.Expect != nil {
					want := p.Expect(v, sa[:nr])
					if w2, _ := valuesAgree(p.Results, p.ResTaint, sa[:nr], want); w2 != "" {
						bad = fmt.Sprintf("both engines deviate from the generator's reference (%s): engines=%s reference=%s", w2, fmtVals(p.Results, sa[:nr]), fmtVals(p.Results, want))
					}
				}
				if tol {
					res.inc("tolerated:nan-payload")
					if debugTol {
						debugf("TOL %s {%s} args=%s compiler=%s interpreter=%s\n", p.typeString(), p.Desc, fmtVals(p.Params, v), fmtVals(p.Results, sa[:nr]), fmtVals(p.Results, sb[:nr]))
					}
				}
				out = "ok"
				if verbose {
					out = "ok " + fmtVals(p.Results, sa[:nr])
				}
			}
			if verbose {
				fmt.Printf("  %s args=%s: compiler=%s interpreter=%s", name, fmtVals(p.Params, v), ca, cb)
				if ca == "ok" && cb == "ok" {
					fmt.Printf(" results compiler=%s interpreter=%s", fmtVals(p.Results, sa[:nr]), fmtVals(p.Results, sb[:nr]))
				}
				fmt.Println()
			}
			if bad != "" {
				kind := "result"
				if ca != cb {
					kind = "trap"
					if strings.HasPrefix(ca, "panic:") || strings.HasPrefix(cb, "panic:") {
						kind = "panic"
					}
				}
				sig := fam + ":" + sanitizeSig(p.SigOps) + ":" + kind
				classified := false
				if p.Classify != nil {
					if s := p.Classify(v, ca, cb); s != "" {
						sig, classified = s, true
					}
				}
				res.mismatch(mismatch{
					Sig:    sig,
					What:   fmt.Sprintf("%s %s {%s} args=%s: %s", fam, p.typeString(), p.Desc, fmtVals(p.Params, v), bad),
					Replay: replay{Tier: tier, Family: fam, Chunk: chunk, Prog: i, Args: v, Info: p.describe()},
				})
				if !classified {
					break // one report per program
				}
				continue // a divergence of a precisely classified input class: keep checking the other vectors
			}
			// non-triviality: the outcome depends on the input
			cur := out
			if ca == "ok" && cb == "ok" {
				cur = fmt.Sprint(sa[:nr])
			}
			if vi == 0 {
				first = cur
			} else if cur != first {
				nontriv = true
			}
			switch {
			case ca == "ok":
				res.inc("ok")
			default:
				res.inc(ca)
			}
		}
		if nontriv {
			res.nontrivial(p.hash())
		}
		if o.memCompare {
			ma, mb := tw.mod[0].Memory(), tw.mod[1].Memory()
			ba, _ := ma.Read(0, ma.Size())
			bb, _ := mb.Read(0, mb.Size())
			if !bytes.Equal(ba, bb) {
				at := -1
				for j := 0; j < len(ba) && j < len(bb); j++ {
					if ba[j] != bb[j] {
						at = j
						break
					}
				}
				what := fmt.Sprintf("memory size differs: compiler=%d interpreter=%d", len(ba), len(bb))
				if at >= 0 {
					what = fmt.Sprintf("memory differs at byte %d: compiler=0x%02x interpreter=0x%02x", at, ba[at], bb[at])
				}
				res.mismatch(mismatch{
					Sig:    fam + ":" + sanitizeSig(p.SigOps) + ":memory",
					What:   fmt.Sprintf("%s %s {%s}: after all argument vectors, %s", fam, p.typeString(), p.Desc, what),
					Replay: replay{Tier: tier, Family: fam, Chunk: chunk, Prog: i, Info: p.describe()},
				})
				return // the instances have diverged: stop this chunk
			}
		}
	}
}
