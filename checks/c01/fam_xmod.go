package main

import (
	"context"
	"fmt"
	"strings"

	"github.com/tetratelabs/wazero"
	"github.com/tetratelabs/wazero/api"
	"github.com/tetratelabs/wazero/verif/wb"
)

// xmod: cross-module call chains into host functions. Modules m1 -> m2 -> m3 (chains of depth 1, 2 and 3), each with
// its OWN memory holding a distinct marker and its own table; the deepest module imports a host function and every
// other module imports the next module's export f. Every link is made in each of five ways: call, call_indirect through
// the module's own table (the imported function placed there by an element segment), return_call, return_call_indirect,
// and ref.func + table.set followed by call_indirect. The host function h(ptr) records api.Module.Name() of the module
// it is handed as caller, reads mem[ptr] of THAT module's memory, writes a marker back to it, and (variant hcb) calls
// back into that module's export cb, which increments a byte of its own memory. Oracle: the two engines agree on the
// result, the host-call log and the final memories of all modules AND both agree with an absolute reference: the
// caller seen by the host function is the module whose code contains the call instruction (the deepest one), and the
// bytes read and written are that module's.

var xmWays = []string{"call", "call_indirect", "return_call", "return_call_indirect", "ref.func+table.set+call_indirect"}
var xmHosts = []string{"h", "hcb"}
var xmMarkers = []byte{0xa1, 0xb2, 0xc3}

const xmEnv = "c01x_env"

func xmName(level int) string { return fmt.Sprintf("c01x_m%d", level+1) }

type xmScenario struct {
	ways []int // one per level, entry first
	host int
}

type xmLog struct{ entries []string }

type xmodFamily struct {
	tier  string
	scens []xmScenario
	seqs  []xsScenario // call sequences within one body (fam_xseq.go); replay index = len(scens) + i
}

func newXmodFamily(tier string) *xmodFamily {
	f := &xmodFamily{tier: tier, seqs: xsScenarios()}
	for depth := 1; depth <= 3; depth++ {
		idx := make([]int, depth)
		for {
			for h := range xmHosts {
				f.scens = append(f.scens, xmScenario{ways: append([]int{}, idx...), host: h})
			}
			k := depth - 1
			for ; k >= 0; k-- {
				idx[k]++
				if idx[k] < len(xmWays) {
					break
				}
				idx[k] = 0
			}
			if k < 0 {
				break
			}
		}
	}
	return f
}

func (f *xmodFamily) Name() string { return "xmod" }
func (f *xmodFamily) Chunks() int  { return 1 }
func (f *xmodFamily) Bounds() map[string]any {
	return map[string]any{"depths": []int{1, 2, 3}, "link_ways": xmWays, "host_functions": xmHosts, "scenarios": len(f.scens),
		"sequences": map[string]any{"m1_memory_shapes": xsShapes, "bodies": []string{"F;H", "H;F;H", "F;F;H", "H;H"}, "separation": xsSeps, "m2_f_does": xsM2Kinds,
			"m2_memory_shapes": xsM2Shapes, "host_functions": xsHosts, "scenarios": len(f.seqs)}}
}

// xmModule builds the link module of one level.
func xmModule(level int, targetMod, targetName string, way int) []byte {
	m := &wb.Module{}
	t := m.ImportFunc(targetMod, targetName, []byte{i32}, []byte{i32})
	ty := m.Type([]byte{i32}, []byte{i32})
	m.Mem = &wb.Limits{Min: 1, Max: 1, HasMax: true}
	m.Datas = []wb.Data{{Offset: wb.CI32(16), Bytes: []byte{xmMarkers[level]}}}
	m.Tables = []wb.Table{{Elem: funcref, Lim: wb.Limits{Min: 2}}}
	m.Elems = []wb.Elem{{Mode: 0, Offset: wb.CI32(0), Funcs: []uint32{t}}}
	a := &wb.Asm{}
	tail := false
	switch xmWays[way] {
	case "call":
		a.LocalGet(0).Call(t)
	case "call_indirect":
		a.LocalGet(0).I32Const(0).CallIndirect(ty, 0)
	case "return_call":
		a.LocalGet(0).ReturnCall(t)
		tail = true
	case "return_call_indirect":
		a.LocalGet(0).I32Const(0).ReturnCallIndirect(ty, 0)
		tail = true
	default:
		a.I32Const(1).RefFunc(t).TableSet(0).LocalGet(0).I32Const(1).CallIndirect(ty, 0)
	}
	if !tail {
		a.I32Const(16).Mem(0x2d, 0, 0).I32Const(8).Op(0x74).Op(0x73) // result ^= own marker << 8
	}
	m.ExportFunc("f", m.AddFunc([]byte{i32}, []byte{i32}, nil, a.B))
	cb := (&wb.Asm{}).I32Const(24).I32Const(24).Mem(0x2d, 0, 0).I32Const(1).Op(0x6a).Mem(0x3a, 0, 0).I32Const(24).Mem(0x2d, 0, 0)
	m.ExportFunc("cb", m.AddFunc(nil, []byte{i32}, nil, cb.B))
	return m.Encode()
}

func xmTail(way int) bool { return strings.HasPrefix(xmWays[way], "return_call") }

var xmLogs = map[wazero.Runtime]*xmLog{}

func xmHostFor(rt wazero.Runtime) *xmLog {
	if l, ok := xmLogs[rt]; ok {
		return l
	}
	for k := range xmLogs {
		if len(xmLogs) > 4 {
			delete(xmLogs, k) // closed runtimes
		}
	}
	l := &xmLog{}
	xmLogs[rt] = l
	mk := func(callback bool) api.GoModuleFunc {
		return func(ctx context.Context, mod api.Module, stack []uint64) {
			ptr := uint32(stack[0])
			entry := "caller=" + mod.Name()
			v := uint32(0xfff)
			if mem := memoryOf(mod); mem != nil {
				if b, ok := mem.ReadByte(ptr); ok {
					v = uint32(b)
				}
				mem.WriteByte(ptr+4, 0x77)
			} else {
				entry += " (no memory)"
			}
			entry += fmt.Sprintf(" read=0x%x", v)
			if callback {
				if cb := mod.ExportedFunction("cb"); cb != nil {
					r, err := cb.Call(ctx)
					if err != nil || len(r) != 1 {
						entry += " cb=error"
					} else {
						entry += fmt.Sprintf(" cb=%d", uint32(r[0]))
					}
				} else {
					entry += " cb=missing"
				}
			}
			l.entries = append(l.entries, entry)
			stack[0] = uint64(v)
		}
	}
	b := rt.NewHostModuleBuilder(xmEnv)
	b.NewFunctionBuilder().WithGoModuleFunction(mk(false), []api.ValueType{api.ValueTypeI32}, []api.ValueType{api.ValueTypeI32}).Export("h")
	b.NewFunctionBuilder().WithGoModuleFunction(mk(true), []api.ValueType{api.ValueTypeI32}, []api.ValueType{api.ValueTypeI32}).Export("hcb")
	// hn only records who it is told the caller is (usable by callers without a memory)
	b.NewFunctionBuilder().WithGoModuleFunction(api.GoModuleFunc(func(ctx context.Context, mod api.Module, stack []uint64) {
		l.entries = append(l.entries, "hn caller="+mod.Name())
		stack[0] = xsHnTag
	}), nil, []api.ValueType{api.ValueTypeI32}).Export("hn")
	if _, err := b.Instantiate(bg); err != nil {
		panic(fmt.Sprintf("xmod host module: %v", err))
	}
	return l
}

type xmObs struct {
	outcome string
	result  uint32
	log     string
	mems    []string // per level: "m[20]=.. m[24]=.. marker=.."
}

func (o xmObs) String() string {
	return fmt.Sprintf("%s result=0x%x log=[%s] memories=%v", o.outcome, o.result, o.log, o.mems)
}

func (f *xmodFamily) describe(s xmScenario) string {
	var parts []string
	for l, w := range s.ways {
		parts = append(parts, fmt.Sprintf("m%d:%s", l+1, xmWays[w]))
	}
	return strings.Join(parts, " -> ") + " -> host " + xmHosts[s.host]
}

func (f *xmodFamily) reference(s xmScenario) xmObs {
	d := len(s.ways)
	last := d - 1
	r := uint32(xmMarkers[last])
	for l := last; l >= 0; l-- {
		if !xmTail(s.ways[l]) {
			r ^= uint32(xmMarkers[l]) << 8
		}
	}
	o := xmObs{outcome: "ok", result: r}
	o.log = fmt.Sprintf("caller=%s read=0x%x", xmName(last), xmMarkers[last])
	if xmHosts[s.host] == "hcb" {
		o.log += " cb=1"
	}
	for l := 0; l < d; l++ {
		w, c := 0, 0
		if l == last {
			w = 0x77
			if xmHosts[s.host] == "hcb" {
				c = 1
			}
		}
		o.mems = append(o.mems, fmt.Sprintf("marker=0x%x m[20]=0x%x m[24]=%d", xmMarkers[l], w, c))
	}
	return o
}

func (f *xmodFamily) Run(rts [2]wazero.Runtime, c int, sel *replay, res *chunkRes, verbose bool) {
	type key struct {
		level, way int
		target     string
	}
	var codes [2]map[key]wazero.CompiledModule
	for e := 0; e < 2; e++ {
		codes[e] = map[key]wazero.CompiledModule{}
		defer func(e int) {
			for _, cm := range codes[e] {
				cm.Close(bg)
			}
		}(e)
	}
	logs := [2]*xmLog{xmHostFor(rts[0]), xmHostFor(rts[1])}
	run := func(e int, s xmScenario) (o xmObs) {
		defer func() {
			if r := recover(); r != nil {
				o.outcome = "panic:" + fmt.Sprint(r)
			}
		}()
		d := len(s.ways)
		mods := make([]api.Module, d)
		defer func() {
			for _, m := range mods {
				if m != nil {
					m.Close(bg)
				}
			}
		}()
		logs[e].entries = logs[e].entries[:0]
		for l := d - 1; l >= 0; l-- {
			tm, tn := xmName(l+1), "f"
			if l == d-1 {
				tm, tn = xmEnv, xmHosts[s.host]
			}
			k := key{l, s.ways[l], tm + "." + tn}
			cm := codes[e][k]
			if cm == nil {
				var err error
				cm, err = rts[e].CompileModule(bg, xmModule(l, tm, tn, s.ways[l]))
				if err != nil {
					o.outcome = "compile-error:" + err.Error()
					return
				}
				codes[e][k] = cm
			}
			m, err := rts[e].InstantiateModule(bg, cm, wazero.NewModuleConfig().WithName(xmName(l)).WithRandSource(zeroReader{}))
			if err != nil {
				o.outcome = "instantiate-error:" + err.Error()
				return
			}
			mods[l] = m
		}
		stack := []uint64{16}
		o.outcome = trapClass(mods[0].ExportedFunction("f").CallWithStack(bg, stack))
		o.result = uint32(stack[0])
		if o.outcome != "ok" {
			o.result = 0
		}
		o.log = strings.Join(logs[e].entries, "; ")
		for l, m := range mods {
			mem := m.Memory()
			b16, _ := mem.ReadByte(16)
			b20, _ := mem.ReadByte(20)
			b24, _ := mem.ReadByte(24)
			o.mems = append(o.mems, fmt.Sprintf("marker=0x%x m[20]=0x%x m[24]=%d", b16, b20, b24))
			_ = l
		}
		return
	}
	for si, s := range f.scens {
		if sel != nil && sel.Prog >= 0 && sel.Prog != si {
			continue
		}
		res.Progs++
		res.Hists++
		res.Calls++
		oc, oi := run(0, s), run(1, s)
		want := f.reference(s)
		if verbose {
			fmt.Printf("scenario %s\n  compiler:    %s\n  interpreter: %s\n  reference:   %s\n", f.describe(s), oc, oi, want)
		}
		res.inc(oi.outcome)
		sigWays := strings.ReplaceAll(f.describe(s), " ", "")
		report := func(kind, what string) {
			res.mismatch(mismatch{Sig: "xmod:" + sanitizeSig(sigWays) + ":" + kind, What: fmt.Sprintf("xmod %s: %s", f.describe(s), what),
				Replay: replay{Tier: f.tier, Family: "xmod", Chunk: 0, Prog: si}})
		}
		cs, is, ws := oc.String(), oi.String(), want.String()
		switch {
		case cs != is:
			who := "engines-differ"
			if cs == ws {
				who = "interpreter-deviates-from-reference"
			} else if is == ws {
				who = "compiler-deviates-from-reference"
			}
			report(who, fmt.Sprintf("compiler {%s} interpreter {%s} reference {%s}", cs, is, ws))
		case cs != ws:
			report("both-deviate-from-reference", fmt.Sprintf("both engines {%s} reference {%s}", cs, ws))
		default:
			res.nontrivial(v0([]uint64{uint64(si), 0x786d6f64}))
		}
	}
	var xsCache [2]map[string]wazero.CompiledModule
	for e := 0; e < 2; e++ {
		xsCache[e] = map[string]wazero.CompiledModule{}
		defer func(e int) {
			for _, cm := range xsCache[e] {
				cm.Close(bg)
			}
		}(e)
	}
	for qi, s := range f.seqs {
		idx := len(f.scens) + qi
		if sel != nil && sel.Prog >= 0 && sel.Prog != idx {
			continue
		}
		res.Progs++
		res.Hists++
		res.Calls++
		oc, oi := xsRun(rts[0], logs[0], xsCache[0], s), xsRun(rts[1], logs[1], xsCache[1], s)
		want := xsReference(s)
		if verbose {
			fmt.Printf("scenario %s\n  compiler:    %s\n  interpreter: %s\n  reference:   %s\n", s.describe(), oc, oi, want)
		}
		res.inc(oi.outcome)
		cs, is, ws := oc.String(), oi.String(), want.String()
		kind := ""
		switch {
		case cs != is && cs == ws:
			kind = "interpreter-deviates-from-reference"
		case cs != is && is == ws:
			kind = "compiler-deviates-from-reference"
		case cs != is:
			kind = "engines-differ"
		case cs != ws:
			kind = "both-deviate-from-reference"
		}
		if kind == "" {
			res.nontrivial(v0([]uint64{uint64(idx), 0x78736571}))
			continue
		}
		sig := fmt.Sprintf("xmod:seq:m1=%s:[%s]:%s:%s:m2=%s/%s:%s", xsShapes[s.shape], xsSeqs[s.seq], xsSeps[s.sep], xsHosts[s.host], xsM2Shapes[s.m2shape], xsM2Kinds[s.m2kind], kind)
		res.mismatch(mismatch{Sig: sanitizeSig(sig), What: fmt.Sprintf("xmod sequence %s: compiler {%s} interpreter {%s} reference {%s}", s.describe(), cs, is, ws),
			Replay: replay{Tier: f.tier, Family: "xmod", Chunk: 0, Prog: idx}})
	}
	if sel == nil {
		res.Samples = append(res.Samples, map[string]any{"family": "xmod", "sequence": f.seqs[len(f.seqs)/2].describe(), "reference": xsReference(f.seqs[len(f.seqs)/2]).String()})
		res.Samples = append(res.Samples, map[string]any{"family": "xmod", "scenario": f.describe(f.scens[len(f.scens)/2]), "reference": f.reference(f.scens[len(f.scens)/2]).String()})
	}
}
