package main

import (
	"fmt"
	"math"

	"github.com/tetratelabs/wazero"
	"github.com/tetratelabs/wazero/verif/wb"
)

// condfuse ("fused conditions"): a condition producer (integer / float comparison, eqz, and, bit test, vector
// any_true / all_true, a loaded word, a plain local) feeding a condition CONSUMER (select, select with the condition
// computed early into a local, select whose condition is used a second time, br_if carrying a value out of a block,
// if/else producing a value) whose OTHER operands — the two arms — have to be materialised between the comparison
// and the conditional move / jump: constants of every encoding class (0, 1, -1, wide immediates; +0.0 / 1.0; v128
// zero / all-ones / pool constant), a local, a value computed by an ALU instruction, a value loaded from memory.
// The backends fuse the comparison into the consumer (CMP+CMOVcc / Jcc, subs+csel), so anything emitted between
// the two must leave the condition flags alone. Full product consumer x value type x true-arm kind x false-arm kind
// x condition; every program is called with 25 operand pairs covering <, ==, > signed and unsigned and NaN /
// signed-zero float pairs. The engines must agree AND equal the generator's own Go model (Prog.Expect).

const (
	cfA32, cfB32 = 0, 1
	cfA64, cfB64 = 2, 3
	cfAF, cfBF   = 4, 5
	cfAD, cfBD   = 6, 7
	cfXS, cfYS   = 8, 9 // i64 seeds of the two arms
	cfLX, cfLY   = 10, 11
	cfLC         = 12 // i32: condition kept in a local
	cfLV         = 13 // v128: operand of any_true / all_true
)

var cfParams = []byte{i32, i32, i64, i64, f32, f32, f64, f64, i64, i64}

var cfPattern = func() []byte {
	pat := make([]byte, 8192)
	for i := range pat {
		pat[i] = byte(i*53 + 17)
	}
	return pat
}()

func cfPre(m *wb.Module) {
	m.Mem = &wb.Limits{Min: 1, Max: 1, HasMax: true}
	m.Datas = []wb.Data{{Offset: wb.CI32(0), Bytes: cfPattern}}
}

func cfMemU64(addr int) uint64 {
	var v uint64
	for k := 0; k < 8; k++ {
		v |= uint64(cfPattern[addr+k]) << (8 * k)
	}
	return v
}

// ---- conditions

type cfCond struct {
	name string
	emit func(a *wb.Asm)
	eval func(args []uint64) bool
}

func cfIcmp(k int, bits int, x, y uint64) bool {
	var sx, sy int64
	if bits == 32 {
		x, y = uint64(uint32(x)), uint64(uint32(y))
		sx, sy = int64(int32(x)), int64(int32(y))
	} else {
		sx, sy = int64(x), int64(y)
	}
	switch k {
	case 0:
		return x == y
	case 1:
		return x != y
	case 2:
		return sx < sy
	case 3:
		return x < y
	case 4:
		return sx > sy
	case 5:
		return x > y
	case 6:
		return sx <= sy
	case 7:
		return x <= y
	case 8:
		return sx >= sy
	}
	return x >= y
}

func cfFcmp(k int, x, y float64) bool {
	switch k {
	case 0:
		return x == y
	case 1:
		return x != y
	case 2:
		return x < y
	case 3:
		return x > y
	case 4:
		return x <= y
	}
	return x >= y
}

var cfIcmpNames = []string{"eq", "ne", "lt_s", "lt_u", "gt_s", "gt_u", "le_s", "le_u", "ge_s", "ge_u"}
var cfFcmpNames = []string{"eq", "ne", "lt", "gt", "le", "ge"}

// cfConds lists the condition producers. shapes: operand shapes of the integer comparisons
// ("ll" local,local; "l0" local,const 0; "lk" local,const 1; "0l" const 0,local).
func cfConds(thorough bool) []cfCond {
	var cs []cfCond
	shapes := []string{"ll", "l0"}
	if thorough {
		shapes = []string{"ll", "l0", "lk", "0l"}
	}
	for _, bits := range []int{32, 64} {
		bits := bits
		pa, pb := uint32(cfA32), uint32(cfB32)
		base, tn := byte(0x46), "i32"
		if bits == 64 {
			pa, pb, base, tn = cfA64, cfB64, 0x51, "i64"
		}
		konst := func(a *wb.Asm, v int64) {
			if bits == 64 {
				a.I64Const(v)
			} else {
				a.I32Const(int32(v))
			}
		}
		for k, n := range cfIcmpNames {
			k := k
			for _, sh := range shapes {
				sh := sh
				cs = append(cs, cfCond{
					name: fmt.Sprintf("%s.%s(%s)", tn, n, sh),
					emit: func(a *wb.Asm) {
						switch sh {
						case "ll":
							a.LocalGet(pa).LocalGet(pb)
						case "l0":
							a.LocalGet(pa)
							konst(a, 0)
						case "lk":
							a.LocalGet(pa)
							konst(a, 1)
						case "0l":
							konst(a, 0)
							a.LocalGet(pb)
						}
						a.Op(base + byte(k))
					},
					eval: func(args []uint64) bool {
						switch sh {
						case "l0":
							return cfIcmp(k, bits, args[pa], 0)
						case "lk":
							return cfIcmp(k, bits, args[pa], 1)
						case "0l":
							return cfIcmp(k, bits, 0, args[pb])
						}
						return cfIcmp(k, bits, args[pa], args[pb])
					},
				})
			}
		}
		eqz := byte(0x45)
		if bits == 64 {
			eqz = 0x50
		}
		cs = append(cs, cfCond{name: tn + ".eqz(l)", emit: func(a *wb.Asm) { a.LocalGet(pa).Op(eqz) },
			eval: func(args []uint64) bool { return cfIcmp(0, bits, args[pa], 0) }})
	}
	for k, n := range cfFcmpNames {
		k := k
		cs = append(cs, cfCond{name: "f32." + n + "(ll)", emit: func(a *wb.Asm) { a.LocalGet(cfAF).LocalGet(cfBF).Op(0x5b + byte(k)) },
			eval: func(args []uint64) bool {
				return cfFcmp(k, float64(math.Float32frombits(uint32(args[cfAF]))), float64(math.Float32frombits(uint32(args[cfBF]))))
			}})
		cs = append(cs, cfCond{name: "f64." + n + "(ll)", emit: func(a *wb.Asm) { a.LocalGet(cfAD).LocalGet(cfBD).Op(0x61 + byte(k)) },
			eval: func(args []uint64) bool {
				return cfFcmp(k, math.Float64frombits(args[cfAD]), math.Float64frombits(args[cfBD]))
			}})
	}
	cs = append(cs, cfCond{name: "local", emit: func(a *wb.Asm) { a.LocalGet(cfA32) },
		eval: func(args []uint64) bool { return uint32(args[cfA32]) != 0 }})
	cs = append(cs, cfCond{name: "i32.and(ll)", emit: func(a *wb.Asm) { a.LocalGet(cfA32).LocalGet(cfB32).Op(0x71) },
		eval: func(args []uint64) bool { return uint32(args[cfA32])&uint32(args[cfB32]) != 0 }})
	cs = append(cs, cfCond{name: "i32.and(ll);i32.eqz", emit: func(a *wb.Asm) { a.LocalGet(cfA32).LocalGet(cfB32).Op(0x71).Op(0x45) },
		eval: func(args []uint64) bool { return uint32(args[cfA32])&uint32(args[cfB32]) == 0 }})
	cs = append(cs, cfCond{name: "i32.lt_s(ll);i32.eqz", emit: func(a *wb.Asm) { a.LocalGet(cfA32).LocalGet(cfB32).Op(0x48).Op(0x45) },
		eval: func(args []uint64) bool { return !cfIcmp(2, 32, args[cfA32], args[cfB32]) }})
	cs = append(cs, cfCond{name: "i64.sub(ll);i32.wrap", emit: func(a *wb.Asm) { a.LocalGet(cfA64).LocalGet(cfB64).Op(0x7d).Op(0xa7) },
		eval: func(args []uint64) bool { return uint32(args[cfA64]-args[cfB64]) != 0 }})
	cs = append(cs, cfCond{name: "v128.any_true", emit: func(a *wb.Asm) { a.LocalGet(cfLV).Simd(83) },
		eval: func(args []uint64) bool { return args[cfA64] != 0 || args[cfB64] != 0 }})
	cs = append(cs, cfCond{name: "i64x2.all_true", emit: func(a *wb.Asm) { a.LocalGet(cfLV).Simd(195) },
		eval: func(args []uint64) bool { return args[cfA64] != 0 && args[cfB64] != 0 }})
	// a loaded word: address 128 (pattern, non-zero) for even a32, 16384+128 (zero) for odd a32
	cs = append(cs, cfCond{name: "i32.load", emit: func(a *wb.Asm) { a.LocalGet(cfA32).I32Const(1).Op(0x71).I32Const(14).Op(0x74).Mem(0x28, 2, 128) },
		eval: func(args []uint64) bool { return args[cfA32]&1 == 0 && uint32(cfMemU64(128)) != 0 }})
	return cs
}

// ---- arms

type cfArm struct {
	name string
	emit func(a *wb.Asm, t byte, second bool)
	eval func(t byte, second bool, args []uint64) []uint64
}

func cfSeed(args []uint64, second bool) uint64 {
	if second {
		return args[cfYS]
	}
	return args[cfXS]
}

func cfLocalVal(t byte, second bool, args []uint64) []uint64 {
	return orDeriveGo(orOperand{t, rVal}, cfSeed(args, second))
}

func cfConstArm(name string, iv int64, f32b uint32, f64b uint64, vlo, vhi uint64) cfArm {
	return cfArm{name: name,
		emit: func(a *wb.Asm, t byte, second bool) {
			switch t {
			case i32:
				a.I32Const(int32(iv))
			case i64:
				a.I64Const(iv)
			case f32:
				a.F32Const(f32b)
			case f64:
				a.F64Const(f64b)
			case v128:
				a.V128Const(vlo, vhi)
			}
		},
		eval: func(t byte, second bool, args []uint64) []uint64 {
			switch t {
			case i32:
				return []uint64{uint64(uint32(iv))}
			case i64:
				return []uint64{uint64(iv)}
			case f32:
				return []uint64{uint64(f32b)}
			case f64:
				return []uint64{f64b}
			}
			return []uint64{vlo, vhi}
		}}
}

func cfArmAddr(second bool) int {
	if second {
		return 96
	}
	return 64
}

// cfArms returns the arm kinds usable for value type t.
func cfArms(t byte) []cfArm {
	c0 := cfConstArm("c0", 0, 0, 0, 0, 0)
	c1 := cfConstArm("c1", 1, 0x3f800000, 0x3ff0000000000000, ^uint64(0), ^uint64(0))
	cm1 := cfConstArm("cm1", -1, 0, 0, 0, 0)
	cbig := cfConstArm("cbig", 0x123456789abcdef0, 0xbfc00000, 0xbff8000000000000, 0x0123456789abcdef, 0xfedcba9876543210)
	local := cfArm{name: "local",
		emit: func(a *wb.Asm, t byte, second bool) {
			if second {
				a.LocalGet(cfLY)
			} else {
				a.LocalGet(cfLX)
			}
		},
		eval: cfLocalVal}
	alu := cfArm{name: "alu",
		emit: func(a *wb.Asm, t byte, second bool) {
			l := uint32(cfLX)
			if second {
				l = cfLY
			}
			a.LocalGet(l)
			switch t {
			case i32:
				a.I32Const(7).Op(0x6a)
			case i64:
				a.I64Const(7).Op(0x7c)
			case f32:
				a.F32Const(0x3f800000).Op(0x92)
			case f64:
				a.F64Const(0x3ff0000000000000).Op(0xa0)
			case v128:
				a.Simd(77) // v128.not
			}
		},
		eval: func(t byte, second bool, args []uint64) []uint64 {
			v := cfLocalVal(t, second, args)
			switch t {
			case i32:
				return []uint64{uint64(uint32(v[0]) + 7)}
			case i64:
				return []uint64{v[0] + 7}
			case f32:
				return []uint64{uint64(math.Float32bits(math.Float32frombits(uint32(v[0])) + 1))}
			case f64:
				return []uint64{math.Float64bits(math.Float64frombits(v[0]) + 1)}
			}
			return []uint64{^v[0], ^v[1]}
		}}
	load := cfArm{name: "load",
		emit: func(a *wb.Asm, t byte, second bool) {
			a.I32Const(int32(cfArmAddr(second)))
			switch t {
			case i32:
				a.Mem(0x28, 2, 0)
			case i64:
				a.Mem(0x29, 3, 0)
			case f32:
				a.Mem(0x2a, 2, 0)
			case f64:
				a.Mem(0x2b, 3, 0)
			case v128:
				a.SimdMem(0, 4, 0)
			}
		},
		eval: func(t byte, second bool, args []uint64) []uint64 {
			ad := cfArmAddr(second)
			switch t {
			case i32, f32:
				return []uint64{uint64(uint32(cfMemU64(ad)))}
			case i64, f64:
				return []uint64{cfMemU64(ad)}
			}
			return []uint64{cfMemU64(ad), cfMemU64(ad + 8)}
		}}
	switch t {
	case i32, i64:
		return []cfArm{c0, c1, cm1, cbig, local, alu, load}
	case f32, f64:
		return []cfArm{c0, c1, local, alu, load}
	}
	return []cfArm{c0, c1, cbig, local, alu, load}
}

// ---- consumers

// the thorough tier adds the typed select and an if on the negated condition (arms swapped)
var cfConsumers = []string{"select", "select-condlocal", "select+cond", "br_if", "if", "select-typed", "if-eqz"}

func cfNumConsumers(tier string) int {
	if tier == "thorough" {
		return len(cfConsumers)
	}
	return 5
}

var cfTypes = []byte{i32, i64, f32, f64, v128}

type cfDesc struct {
	cons   int
	t      byte
	ax, ay int
	cond   int
}

var cfI32Vals = []uint64{0, 1, 0xffffffff, 0x80000000, 0x7fffffff}
var cfI64Vals = []uint64{0, 1, 0xffffffffffffffff, 0x8000000000000000, 0x7fffffffffffffff}
var cfF32Vals = []uint64{0, 0x80000000, 0x3f800000, 0xbfc00000, 0x7fc00000}
var cfF64Vals = []uint64{0, 0x8000000000000000, 0x3ff0000000000000, 0xbff8000000000000, 0x7ff8000000000000}

var cfArgVecs = func() [][]uint64 {
	var vs [][]uint64
	for x := 0; x < 5; x++ {
		for y := 0; y < 5; y++ {
			k := uint64(x*5 + y)
			vs = append(vs, []uint64{cfI32Vals[x], cfI32Vals[y], cfI64Vals[x], cfI64Vals[y], cfF32Vals[x], cfF32Vals[y], cfF64Vals[x], cfF64Vals[y],
				0x1111111111111111*(k%7+1) + k, 0x0fedcba987654321 ^ (k << 40)})
		}
	}
	return vs
}()

type condfuseFamily struct {
	tier  string
	conds []cfCond
	descs []cfDesc
	per   int
}

func newCondfuseFamily(tier string) *condfuseFamily {
	f := &condfuseFamily{tier: tier, conds: cfConds(tier == "thorough"), per: 512}
	for ci := 0; ci < cfNumConsumers(tier); ci++ {
		for _, t := range cfTypes {
			n := len(cfArms(t))
			for ax := 0; ax < n; ax++ {
				for ay := 0; ay < n; ay++ {
					for c := range f.conds {
						f.descs = append(f.descs, cfDesc{ci, t, ax, ay, c})
					}
				}
			}
		}
	}
	return f
}

func (f *condfuseFamily) build(d cfDesc) *Prog {
	t := d.t
	arms := cfArms(t)
	X, Y := arms[d.ax], arms[d.ay]
	cond := f.conds[d.cond]
	cons := cfConsumers[d.cons]
	a := &wb.Asm{}
	// prologue: the two arm locals and the vector the v128 conditions test
	orDerive(a, orOperand{t, rVal}, cfXS)
	a.LocalSet(cfLX)
	orDerive(a, orOperand{t, rVal}, cfYS)
	a.LocalSet(cfLY)
	a.LocalGet(cfA64).Simd(18).LocalGet(cfB64).Simd(30).Raw(1).LocalSet(cfLV)
	results := []byte{t}
	switch cons {
	case "select":
		X.emit(a, t, false)
		Y.emit(a, t, true)
		cond.emit(a)
		a.Select()
	case "select-typed":
		X.emit(a, t, false)
		Y.emit(a, t, true)
		cond.emit(a)
		a.Raw(0x1c, 1, t)
	case "if-eqz": // condition negated in front of the if, arms swapped
		cond.emit(a)
		a.Op(0x45).If(t)
		Y.emit(a, t, true)
		a.Else()
		X.emit(a, t, false)
		a.End()
	case "select-condlocal":
		cond.emit(a)
		a.LocalSet(cfLC)
		X.emit(a, t, false)
		Y.emit(a, t, true)
		a.LocalGet(cfLC).Select()
	case "select+cond":
		X.emit(a, t, false)
		Y.emit(a, t, true)
		cond.emit(a)
		a.LocalTee(cfLC).Select().LocalGet(cfLC)
		results = []byte{t, i32}
	case "br_if":
		a.Block(t)
		X.emit(a, t, false)
		cond.emit(a)
		a.BrIf(0).Drop()
		Y.emit(a, t, true)
		a.End()
	case "if":
		cond.emit(a)
		a.If(t)
		X.emit(a, t, false)
		a.Else()
		Y.emit(a, t, true)
		a.End()
	}
	taints := make([]taint, len(results))
	p := &Prog{Params: cfParams, Results: results, Locals: []byte{t, t, i32, v128}, Body: a.B, ResTaint: taints, ArgVecs: cfArgVecs}
	p.SigOps = fmt.Sprintf("%s/%s/x=%s,y=%s/%s", cons, tname(t), X.name, Y.name, cond.name)
	p.Desc = fmt.Sprintf("%s of type %s: true arm %s, false arm %s, condition %s", cons, tname(t), X.name, Y.name, cond.name)
	withCond := cons == "select+cond"
	p.Expect = func(args, got []uint64) []uint64 {
		c := cond.eval(args)
		var want []uint64
		if c {
			want = X.eval(t, false, args)
		} else {
			want = Y.eval(t, true, args)
		}
		if withCond {
			// the i32 condition itself: any non-zero value is "true" for the producers that are not comparisons
			if len(got) > 0 && c == (uint32(got[len(got)-1]) != 0) {
				want = append(want, got[len(got)-1])
			} else if c {
				want = append(want, 1)
			} else {
				want = append(want, 0)
			}
		}
		return want
	}
	return p
}

func (f *condfuseFamily) Name() string { return "condfuse" }
func (f *condfuseFamily) Chunks() int  { return (len(f.descs) + f.per - 1) / f.per }
func (f *condfuseFamily) Bounds() map[string]any {
	var cn []string
	for _, c := range f.conds {
		cn = append(cn, c.name)
	}
	arms := map[string][]string{}
	for _, t := range cfTypes {
		for _, a := range cfArms(t) {
			arms[tname(t)] = append(arms[tname(t)], a.name)
		}
	}
	return map[string]any{"consumers": cfConsumers[:cfNumConsumers(f.tier)], "conditions": cn, "arm_kinds": arms, "programs": len(f.descs), "argument_vectors": len(cfArgVecs)}
}

func (f *condfuseFamily) Run(rts [2]wazero.Runtime, c int, sel *replay, res *chunkRes, verbose bool) {
	lo, hi := c*f.per, (c+1)*f.per
	if hi > len(f.descs) {
		hi = len(f.descs)
	}
	progs := make([]*Prog, 0, hi-lo)
	for _, d := range f.descs[lo:hi] {
		progs = append(progs, f.build(d))
	}
	only := -1
	var args []uint64
	if sel != nil {
		only, args = sel.Prog, sel.Args
	}
	if sel == nil && c == 0 {
		res.Samples = append(res.Samples, map[string]any{"family": "condfuse", "program": progs[len(progs)/2].describe()})
	}
	runStateless(slOpts{fam: "condfuse", tier: f.tier, chunk: c, pre: cfPre}, rts, progs, only, args, res, verbose)
}
