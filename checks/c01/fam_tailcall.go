package main

import (
	"fmt"

	"github.com/tetratelabs/wazero"
	"github.com/tetratelabs/wazero/verif/wb"
)

// tailcall: caller(p1..pn) tail-calls callee(p1..pn) for n = 5..10 integer parameters (all i64, all i32, alternating,
// and n integers followed by an f32 and an f64), through return_call to a function of the same module, return_call to
// an imported guest function, and return_call_indirect; the arguments are passed straight from the parameters or
// computed; the callee returns a position-weighted checksum of its parameters, the last parameter alone, or every
// parameter. The argument registers of the amd64 ABI run out at exactly 7 integer parameters, which is where the last
// argument register and the scratch registers of the tail-call sequence meet.

var tcPatterns = []string{"i64", "i32", "alt", "i64+floats"}
var tcVias = []string{"return_call", "return_call-import", "return_call_indirect"}
var tcRets = []string{"checksum", "last", "all"}
var tcSrcs = []string{"params", "computed"}

type tcDesc struct {
	n, pat, via, ret, src int
}

type tailcallFamily struct {
	tier  string
	descs []tcDesc
}

func newTailcallFamily(tier string) *tailcallFamily {
	f := &tailcallFamily{tier: tier}
	for n := 5; n <= 10; n++ {
		for p := range tcPatterns {
			for v := range tcVias {
				for r := range tcRets {
					for s := range tcSrcs {
						f.descs = append(f.descs, tcDesc{n, p, v, r, s})
					}
				}
			}
		}
	}
	return f
}

func tcTypes(d tcDesc) []byte {
	var ts []byte
	for j := 0; j < d.n; j++ {
		switch tcPatterns[d.pat] {
		case "i32":
			ts = append(ts, i32)
		case "alt":
			if j%2 == 0 {
				ts = append(ts, i32)
			} else {
				ts = append(ts, i64)
			}
		default:
			ts = append(ts, i64)
		}
	}
	if tcPatterns[d.pat] == "i64+floats" {
		ts = append(ts, f32, f64)
	}
	return ts
}

func tcResults(d tcDesc, ts []byte) []byte {
	switch tcRets[d.ret] {
	case "checksum":
		return []byte{i64}
	case "last":
		return []byte{ts[d.n-1]} // the last INTEGER parameter
	}
	return ts
}

// callee body
func tcCallee(d tcDesc, ts []byte) []byte {
	a := &wb.Asm{}
	switch tcRets[d.ret] {
	case "checksum":
		a.I64Const(0)
		for j, t := range ts {
			a.LocalGet(uint32(j))
			switch t {
			case i32:
				a.Op(0xad)
			case f32:
				a.Op(0xbc).Op(0xad)
			case f64:
				a.Op(0xbd)
			}
			a.I64Const(int64(2*j + 3)).Op(0x7e).Op(0x7c)
		}
	case "last":
		a.LocalGet(uint32(d.n - 1))
	case "all":
		for j := range ts {
			a.LocalGet(uint32(j))
		}
	}
	return a.B
}

func (f *tailcallFamily) Name() string { return "tailcall" }
func (f *tailcallFamily) Chunks() int  { return 1 }
func (f *tailcallFamily) Bounds() map[string]any {
	return map[string]any{"integer_params": []int{5, 6, 7, 8, 9, 10}, "type_patterns": tcPatterns, "via": tcVias, "callee_returns": tcRets, "argument_source": tcSrcs, "programs": len(f.descs)}
}

const tcLibName = "c01_tclib"

func (f *tailcallFamily) Run(rts [2]wazero.Runtime, c int, sel *replay, res *chunkRes, verbose bool) {
	// library module exporting one callee per descriptor (for the imported variant)
	lib := &wb.Module{}
	for i, d := range f.descs {
		ts := tcTypes(d)
		lib.ExportFunc(fmt.Sprintf("c%d", i), lib.AddFunc(ts, tcResults(d, ts), nil, tcCallee(d, ts)))
	}
	libBin := lib.Encode()
	for e := 0; e < 2; e++ {
		m, err := rts[e].InstantiateWithConfig(bg, libBin, wazero.NewModuleConfig().WithName(tcLibName))
		if err != nil {
			res.Err = fmt.Sprintf("tailcall: library module on %s: %v", engineNames[e], err)
			return
		}
		defer m.Close(bg)
	}
	var progs []*Prog
	build := func(m *wb.Module) {
		progs = progs[:0]
		imp := map[int]uint32{}
		for i, d := range f.descs {
			if tcVias[d.via] == "return_call-import" {
				ts := tcTypes(d)
				imp[i] = m.ImportFunc(tcLibName, fmt.Sprintf("c%d", i), ts, tcResults(d, ts))
			}
		}
		local := map[int]uint32{}
		var tableFuncs []uint32
		slot := map[int]uint32{}
		for i, d := range f.descs {
			if tcVias[d.via] == "return_call-import" {
				continue
			}
			ts := tcTypes(d)
			local[i] = m.AddFunc(ts, tcResults(d, ts), nil, tcCallee(d, ts))
			if tcVias[d.via] == "return_call_indirect" {
				slot[i] = uint32(len(tableFuncs))
				tableFuncs = append(tableFuncs, local[i])
			}
		}
		m.Tables = []wb.Table{{Elem: funcref, Lim: wb.Limits{Min: uint32(len(tableFuncs))}}}
		m.Elems = []wb.Elem{{Mode: 0, Offset: wb.CI32(0), Funcs: tableFuncs}}
		for i, d := range f.descs {
			ts := tcTypes(d)
			rs := tcResults(d, ts)
			a := &wb.Asm{}
			for j, t := range ts {
				a.LocalGet(uint32(j))
				if tcSrcs[d.src] == "computed" {
					switch t {
					case i32:
						a.I32Const(int32(j + 1)).Op(0x6a)
					case i64:
						a.I64Const(int64(j+1) << 33).Op(0x85)
					case f32:
						a.Op(0x8c)
					case f64:
						a.Op(0x9a)
					}
				}
			}
			switch tcVias[d.via] {
			case "return_call":
				a.ReturnCall(local[i])
			case "return_call-import":
				a.ReturnCall(imp[i])
			case "return_call_indirect":
				a.I32Const(int32(slot[i])).ReturnCallIndirect(m.Type(ts, rs), 0)
			}
			p := &Prog{Params: ts, Results: rs, Body: a.B, ResTaint: make([]taint, len(rs))}
			p.Desc = fmt.Sprintf("tailcall n=%d types=%s via=%s callee-returns=%s args=%s", d.n, tcPatterns[d.pat], tcVias[d.via], tcRets[d.ret], tcSrcs[d.src])
			p.SigOps = fmt.Sprintf("n%d/%s/%s/%s/%s", d.n, tcPatterns[d.pat], tcVias[d.via], tcRets[d.ret], tcSrcs[d.src])
			// sentinels: every position gets a distinct recognisable value; then rotations of the boundary alphabets
			var v []uint64
			for j, t := range ts {
				s := uint64(0x1111111111111111) * uint64(j+1)
				if t == i32 || t == f32 {
					s &= 0xffffffff
				}
				v = append(v, s)
			}
			p.ArgVecs = append(p.ArgVecs, v)
			for s := 0; s < 4; s++ {
				var w []uint64
				for j, t := range ts {
					al := alphaOf(t)
					w = append(w, al[(j+3*s+1)%len(al)])
				}
				p.ArgVecs = append(p.ArgVecs, w)
			}
			d := d
			if d.n == 7 && tcVias[d.via] != "return_call" {
				// classifier for the one precisely understood input class (see findings.json): exactly 7 integer parameters,
				// everything in registers, jump target in a register — and only a wrong RESULT belongs to it
				p.Classify = func(args []uint64, ca, cb string) string {
					if ca == "ok" && cb == "ok" {
						return "tailcall:7-int-params:last-param-clobbered:compiler"
					}
					return ""
				}
			}
			progs = append(progs, p)
		}
	}
	scratch := &wb.Module{}
	build(scratch)
	built := append([]*Prog{}, progs...)
	only := -1
	var args []uint64
	if sel != nil {
		only, args = sel.Prog, sel.Args
	}
	if sel == nil {
		res.Samples = append(res.Samples, map[string]any{"family": "tailcall", "chunk": c, "program": built[len(built)/2].Desc})
	}
	runStateless(slOpts{fam: "tailcall", tier: f.tier, chunk: c, pre: build}, rts, built, only, args, res, verbose)
}
