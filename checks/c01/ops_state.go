package main

import (
	"fmt"

	"github.com/tetratelabs/wazero/verif/wb"
)

// sop is one effectful operation of a stateful family: a closed snippet that takes nothing from the operand
// stack and leaves `push` on it. Operands are constants or the parameters p0 (i32, local 0) / p1 (i64, local 1)
// of the enclosing exported function.
type sop struct {
	name   string
	emit   func(a *wb.Asm, w *world)
	push   []byte
	p0, p1 bool
	tail   bool // a tail call: only valid as the last operation; the function's results are the callee's
	core   bool // member of the reduced alphabet used for the longest sequences in the quick tier
}

type loadDef struct {
	name string
	op   byte
	w    int
	t    byte
}
type storeDef struct {
	name string
	op   byte
	w    int
	t    byte
}

var loadDefs = []loadDef{
	{"i32.load", 0x28, 4, i32}, {"i64.load", 0x29, 8, i64}, {"f32.load", 0x2a, 4, f32}, {"f64.load", 0x2b, 8, f64},
	{"i32.load8_s", 0x2c, 1, i32}, {"i32.load8_u", 0x2d, 1, i32}, {"i32.load16_s", 0x2e, 2, i32}, {"i32.load16_u", 0x2f, 2, i32},
	{"i64.load8_s", 0x30, 1, i64}, {"i64.load8_u", 0x31, 1, i64}, {"i64.load16_s", 0x32, 2, i64}, {"i64.load16_u", 0x33, 2, i64},
	{"i64.load32_s", 0x34, 4, i64}, {"i64.load32_u", 0x35, 4, i64},
}

var storeDefs = []storeDef{
	{"i32.store", 0x36, 4, i32}, {"i64.store", 0x37, 8, i64}, {"f32.store", 0x38, 4, f32}, {"f64.store", 0x39, 8, f64},
	{"i32.store8", 0x3a, 1, i32}, {"i32.store16", 0x3b, 2, i32}, {"i64.store8", 0x3c, 1, i64}, {"i64.store16", 0x3d, 2, i64}, {"i64.store32", 0x3e, 4, i64},
}

func constVal(a *wb.Asm, t byte) {
	switch t {
	case i32:
		a.I32Const(int32(-0x7b7c7d7f)) // 0x84838281
	case i64:
		a.I64Const(-0x0718293a4b5c6d7f) // 0xf8e7d6c5b4a39281
	case f32:
		a.F32Const(0x7fa00001) // signalling NaN with payload: must be stored bit for bit
	case f64:
		a.F64Const(0xfff4000000000001)
	}
}

func p1Val(a *wb.Asm, t byte) {
	a.LocalGet(1)
	switch t {
	case i32:
		a.Op(0xa7)
	case f32:
		a.Op(0xa7).Op(0xbe)
	case f64:
		a.Op(0xbf)
	}
}

func memOps() []sop {
	var ops []sop
	coreL := map[string]bool{"i32.load": true, "i64.load": true, "i32.load8_s": true}
	coreS := map[string]bool{"i64.store": true, "i32.store8": true}
	for _, l := range loadDefs {
		l := l
		ops = append(ops, sop{name: l.name + "@edge", push: []byte{l.t}, emit: func(a *wb.Asm, w *world) {
			a.I32Const(8).Mem(l.op, 0, uint64(pageSize-l.w-8))
		}})
		ops = append(ops, sop{name: l.name + "@p0", push: []byte{l.t}, p0: true, core: coreL[l.name], emit: func(a *wb.Asm, w *world) {
			a.LocalGet(0).Mem(l.op, 0, 0)
		}})
	}
	ops = append(ops, sop{name: "i64.load@p0+0xfffffff8", push: []byte{i64}, p0: true, emit: func(a *wb.Asm, w *world) {
		a.LocalGet(0).Mem(0x29, 0, 0xfffffff8)
	}})
	for _, s := range storeDefs {
		s := s
		ops = append(ops, sop{name: s.name + "@edge", emit: func(a *wb.Asm, w *world) {
			a.I32Const(8)
			constVal(a, s.t)
			a.Mem(s.op, 0, uint64(pageSize-s.w-8))
		}})
		ops = append(ops, sop{name: s.name + "@p0", p0: true, p1: true, core: coreS[s.name], emit: func(a *wb.Asm, w *world) {
			a.LocalGet(0)
			p1Val(a, s.t)
			a.Mem(s.op, 0, 0)
		}})
	}
	ops = append(ops, sop{name: "i32.store@p0+4", p0: true, emit: func(a *wb.Asm, w *world) {
		a.LocalGet(0)
		constVal(a, i32)
		a.Mem(0x36, 0, 4)
	}})
	ops = append(ops, sop{name: "memory.size", push: []byte{i32}, core: true, emit: func(a *wb.Asm, w *world) { a.MemorySize() }})
	ops = append(ops, sop{name: "memory.grow(1)", push: []byte{i32}, core: true, emit: func(a *wb.Asm, w *world) { a.I32Const(1).MemoryGrow() }})
	ops = append(ops, sop{name: "memory.grow(3)", push: []byte{i32}, emit: func(a *wb.Asm, w *world) { a.I32Const(3).MemoryGrow() }})
	ops = append(ops, sop{name: "memory.grow(p0)", push: []byte{i32}, p0: true, emit: func(a *wb.Asm, w *world) { a.LocalGet(0).MemoryGrow() }})
	return ops
}

func globOps() []sop {
	var ops []sop
	get := func(name string, g func(w *world) uint32, t byte, core bool) {
		ops = append(ops, sop{name: "global.get " + name, push: []byte{t}, core: core, emit: func(a *wb.Asm, w *world) { a.GlobalGet(g(w)) }})
	}
	get("i32", func(w *world) uint32 { return w.gI32 }, i32, true)
	get("i64", func(w *world) uint32 { return w.gI64 }, i64, true)
	get("f32", func(w *world) uint32 { return w.gF32 }, f32, false)
	get("f64", func(w *world) uint32 { return w.gF64 }, f64, true)
	get("v128", func(w *world) uint32 { return w.gV128 }, v128, true)
	get("const", func(w *world) uint32 { return w.gConst }, i32, false)
	ops = append(ops, sop{name: "global.get funcref;is_null", push: []byte{i32}, emit: func(a *wb.Asm, w *world) { a.GlobalGet(w.gFunc).RefIsNull() }})
	ops = append(ops, sop{name: "global.get externref;is_null", push: []byte{i32}, emit: func(a *wb.Asm, w *world) { a.GlobalGet(w.gExt).RefIsNull() }})
	ops = append(ops, sop{name: "global.set i32=p0", p0: true, core: true, emit: func(a *wb.Asm, w *world) { a.LocalGet(0).GlobalSet(w.gI32) }})
	ops = append(ops, sop{name: "global.set i32=0x80000000", emit: func(a *wb.Asm, w *world) { a.I32Const(-0x80000000).GlobalSet(w.gI32) }})
	ops = append(ops, sop{name: "global.set i64=p1", p1: true, core: true, emit: func(a *wb.Asm, w *world) { a.LocalGet(1).GlobalSet(w.gI64) }})
	ops = append(ops, sop{name: "global.set f32=snan", emit: func(a *wb.Asm, w *world) { a.F32Const(0x7fa00001).GlobalSet(w.gF32) }})
	ops = append(ops, sop{name: "global.set f32=bits(p1)", p1: true, emit: func(a *wb.Asm, w *world) { p1Val(a, f32); a.GlobalSet(w.gF32) }})
	ops = append(ops, sop{name: "global.set f64=bits(p1)", p1: true, core: true, emit: func(a *wb.Asm, w *world) { p1Val(a, f64); a.GlobalSet(w.gF64) }})
	ops = append(ops, sop{name: "global.set v128=splat(p1)", p1: true, core: true, emit: func(a *wb.Asm, w *world) { a.LocalGet(1).Simd(18).GlobalSet(w.gV128) }})
	ops = append(ops, sop{name: "global.set funcref=ref.func", emit: func(a *wb.Asm, w *world) { a.RefFunc(w.cId).GlobalSet(w.gFunc) }})
	ops = append(ops, sop{name: "global.set funcref=null", emit: func(a *wb.Asm, w *world) { a.RefNull(funcref).GlobalSet(w.gFunc) }})
	ops = append(ops, sop{name: "global.set externref=null", emit: func(a *wb.Asm, w *world) { a.RefNull(extref).GlobalSet(w.gExt) }})
	ops = append(ops, sop{name: "call c_setg", push: []byte{i32}, core: true, emit: func(a *wb.Asm, w *world) { a.Call(w.cSetg) }})
	ops = append(ops, sop{name: "call_indirect c_setg", push: []byte{i32}, emit: func(a *wb.Asm, w *world) { a.I32Const(3).CallIndirect(w.tVoidI32, 0) }})
	return ops
}

func tabOps() []sop {
	var ops []sop
	add := func(name string, push []byte, p0, core bool, emit func(a *wb.Asm, w *world)) {
		ops = append(ops, sop{name: name, push: push, p0: p0, core: core, emit: emit})
	}
	r := []byte{i32}
	for _, k := range []int32{0, 4, 6} {
		k := k
		add(fmt.Sprintf("table.get t0[%d];is_null", k), r, false, k == 4, func(a *wb.Asm, w *world) { a.I32Const(k).TableGet(0).RefIsNull() })
	}
	add("table.get t0[p0];is_null", r, true, true, func(a *wb.Asm, w *world) { a.LocalGet(0).TableGet(0).RefIsNull() })
	add("table.set t0[5]=c_size", nil, false, true, func(a *wb.Asm, w *world) { a.I32Const(5).RefFunc(w.cSize).TableSet(0) })
	add("table.set t0[0]=null", nil, false, false, func(a *wb.Asm, w *world) { a.I32Const(0).RefNull(funcref).TableSet(0) })
	add("table.set t0[6]=null", nil, false, false, func(a *wb.Asm, w *world) { a.I32Const(6).RefNull(funcref).TableSet(0) })
	add("table.set t0[p0]=c_id", nil, true, true, func(a *wb.Asm, w *world) { a.LocalGet(0).RefFunc(w.cId).TableSet(0) })
	add("table.size t0", r, false, true, func(a *wb.Asm, w *world) { a.TableSize(0) })
	add("table.size t1", r, false, false, func(a *wb.Asm, w *world) { a.TableSize(1) })
	add("table.grow t0 null 1", r, false, true, func(a *wb.Asm, w *world) { a.RefNull(funcref).I32Const(1).TableGrow(0) })
	add("table.grow t0 c_trap 1", r, false, false, func(a *wb.Asm, w *world) { a.RefFunc(w.cTrap).I32Const(1).TableGrow(0) })
	add("table.grow t0 null 3", r, false, false, func(a *wb.Asm, w *world) { a.RefNull(funcref).I32Const(3).TableGrow(0) })
	add("table.grow t1 null p0", r, true, false, func(a *wb.Asm, w *world) { a.RefNull(funcref).LocalGet(0).TableGrow(1) })
	fill := func(name string, i int32, f int, n int32) {
		add(name, nil, false, false, func(a *wb.Asm, w *world) {
			a.I32Const(i)
			if f < 0 {
				a.RefNull(funcref)
			} else {
				a.RefFunc(w.cId)
			}
			a.I32Const(n).TableFill(0)
		})
	}
	fill("table.fill t0(4,c_id,2)", 4, 1, 2)
	fill("table.fill t0(5,null,2)", 5, -1, 2)
	fill("table.fill t0(6,null,0)", 6, -1, 0)
	fill("table.fill t0(7,null,0)", 7, -1, 0)
	add("table.fill t0(p0,c_grow,1)", nil, true, false, func(a *wb.Asm, w *world) { a.LocalGet(0).RefFunc(w.cGrow).I32Const(1).TableFill(0) })
	cp := func(name string, dt, st uint32, d, s, n int32, core bool) {
		add(name, nil, false, core, func(a *wb.Asm, w *world) { a.I32Const(d).I32Const(s).I32Const(n).TableCopy(dt, st) })
	}
	cp("table.copy t0<-t0(1,0,3)", 0, 0, 1, 0, 3, true)
	cp("table.copy t0<-t0(0,1,3)", 0, 0, 0, 1, 3, false)
	cp("table.copy t1<-t0(0,2,2)", 1, 0, 0, 2, 2, false)
	cp("table.copy t0<-t1(4,0,2)", 0, 1, 4, 0, 2, false)
	cp("table.copy t1<-t0(0,0,3)", 1, 0, 0, 0, 3, false)
	ini := func(name string, t uint32, d, s, n int32, core bool) {
		add(name, nil, false, core, func(a *wb.Asm, w *world) { a.I32Const(d).I32Const(s).I32Const(n).TableInit(w.elemPassive, t) })
	}
	ini("table.init t0(2,0,3)", 0, 2, 0, 3, true)
	ini("table.init t0(0,1,3)", 0, 0, 1, 3, false)
	ini("table.init t0(6,0,0)", 0, 6, 0, 0, false)
	ini("table.init t1(0,0,2)", 1, 0, 0, 2, false)
	add("elem.drop", nil, false, true, func(a *wb.Asm, w *world) { a.ElemDrop(w.elemPassive) })
	add("ref.func;is_null", r, false, false, func(a *wb.Asm, w *world) { a.RefFunc(w.cId).RefIsNull() })
	add("ref.null;is_null", r, false, false, func(a *wb.Asm, w *world) { a.RefNull(funcref).RefIsNull() })
	add("call_indirect t0[p0]", r, true, true, func(a *wb.Asm, w *world) { a.LocalGet(0).CallIndirect(w.tVoidI32, 0) })
	add("call_indirect t0[2]", r, false, false, func(a *wb.Asm, w *world) { a.I32Const(2).CallIndirect(w.tVoidI32, 0) })
	add("call_indirect t1[0]", r, false, false, func(a *wb.Asm, w *world) { a.I32Const(0).CallIndirect(w.tVoidI32, 1) })
	add("table.get t2[0];is_null", r, false, false, func(a *wb.Asm, w *world) { a.I32Const(0).TableGet(2).RefIsNull() })
	add("table.set t2[1]=null", nil, false, false, func(a *wb.Asm, w *world) { a.I32Const(1).RefNull(extref).TableSet(2) })
	add("table.grow t2 null 1", r, false, false, func(a *wb.Asm, w *world) { a.RefNull(extref).I32Const(1).TableGrow(2) })
	return ops
}

func bulkOps() []sop {
	var ops []sop
	add := func(name string, push []byte, p0, core bool, emit func(a *wb.Asm, w *world)) {
		ops = append(ops, sop{name: name, push: push, p0: p0, core: core, emit: emit})
	}
	fill := func(d, v, n int32, core bool) {
		add(fmt.Sprintf("memory.fill(%d,0x%x,%d)", d, v, n), nil, false, core, func(a *wb.Asm, w *world) { a.I32Const(d).I32Const(v).I32Const(n).MemoryFill() })
	}
	fill(0, 0xaa, 16, true)
	fill(pageSize-4, 1, 4, false)
	fill(pageSize-4, 1, 5, false)
	fill(pageSize, 0, 0, false)
	fill(pageSize+1, 0, 0, false)
	fill(12, 0x1ff, 1, false)
	add("memory.fill(p0,0x55,8)", nil, true, true, func(a *wb.Asm, w *world) { a.LocalGet(0).I32Const(0x55).I32Const(8).MemoryFill() })
	add("memory.fill(0,0x66,p0)", nil, true, false, func(a *wb.Asm, w *world) { a.I32Const(0).I32Const(0x66).LocalGet(0).MemoryFill() })
	cp := func(d, s, n int32, core bool) {
		add(fmt.Sprintf("memory.copy(%d,%d,%d)", d, s, n), nil, false, core, func(a *wb.Asm, w *world) { a.I32Const(d).I32Const(s).I32Const(n).MemoryCopy() })
	}
	cp(8, 0, 16, true)
	cp(0, 8, 16, false)
	cp(pageSize-8, 0, 8, false)
	cp(0, pageSize-8, 9, false)
	cp(pageSize, pageSize, 0, false)
	cp(pageSize+1, 0, 0, false)
	add("memory.copy(p0,0,8)", nil, true, true, func(a *wb.Asm, w *world) { a.LocalGet(0).I32Const(0).I32Const(8).MemoryCopy() })
	add("memory.copy(16,p0,8)", nil, true, false, func(a *wb.Asm, w *world) { a.I32Const(16).LocalGet(0).I32Const(8).MemoryCopy() })
	ini := func(d, s, n int32, core bool) {
		add(fmt.Sprintf("memory.init(%d,%d,%d)", d, s, n), nil, false, core, func(a *wb.Asm, w *world) { a.I32Const(d).I32Const(s).I32Const(n).MemoryInit(w.dataPassive) })
	}
	ini(32, 0, 16, true)
	ini(0, 8, 9, false)
	ini(pageSize-4, 0, 4, false)
	ini(0, 16, 0, false)
	ini(0, 17, 0, false)
	add("memory.init(p0,4,4)", nil, true, false, func(a *wb.Asm, w *world) { a.LocalGet(0).I32Const(4).I32Const(4).MemoryInit(w.dataPassive) })
	add("data.drop passive", nil, false, true, func(a *wb.Asm, w *world) { a.DataDrop(w.dataPassive) })
	add("data.drop active", nil, false, false, func(a *wb.Asm, w *world) { a.DataDrop(0) })
	add("memory.grow(1)", []byte{i32}, false, true, func(a *wb.Asm, w *world) { a.I32Const(1).MemoryGrow() })
	add("i64.load(0)", []byte{i64}, false, false, func(a *wb.Asm, w *world) { a.I32Const(0).Mem(0x29, 0, 0) })
	add("i64.load(32)", []byte{i64}, false, true, func(a *wb.Asm, w *world) { a.I32Const(32).Mem(0x29, 0, 0) })
	add("i64.load(p0)", []byte{i64}, true, false, func(a *wb.Asm, w *world) { a.LocalGet(0).Mem(0x29, 0, 0) })
	return ops
}

func callOps() []sop {
	var ops []sop
	add := func(name string, push []byte, p0, p1, core bool, emit func(a *wb.Asm, w *world)) {
		ops = append(ops, sop{name: name, push: push, p0: p0, p1: p1, core: core, emit: emit})
	}
	r := []byte{i32}
	add("call c_id(p0)", r, true, false, false, func(a *wb.Asm, w *world) { a.LocalGet(0).Call(w.cId) })
	add("call c_grow", r, false, false, true, func(a *wb.Asm, w *world) { a.Call(w.cGrow) })
	add("call c_size", r, false, false, false, func(a *wb.Asm, w *world) { a.Call(w.cSize) })
	add("call c_setg", r, false, false, true, func(a *wb.Asm, w *world) { a.Call(w.cSetg) })
	add("call c_trap", r, false, false, false, func(a *wb.Asm, w *world) { a.Call(w.cTrap) })
	add("call c_tset", r, false, false, false, func(a *wb.Asm, w *world) { a.Call(w.cTset) })
	add("call c_tgrow", r, false, false, false, func(a *wb.Asm, w *world) { a.Call(w.cTgrow) })
	add("call c_mv(p0,p1)", []byte{i64, i32}, true, true, false, func(a *wb.Asm, w *world) { a.LocalGet(0).LocalGet(1).Call(w.cMv) })
	add("call c_rec(50)", r, false, false, false, func(a *wb.Asm, w *world) { a.I32Const(50).Call(w.cRec) })
	add("call c_host", r, false, false, false, func(a *wb.Asm, w *world) { a.Call(w.cHost) })
	add("call h_log(p0)", r, true, false, true, func(a *wb.Asm, w *world) { a.LocalGet(0).Call(w.hLog) })
	add("call h_mix(p0,p1,f32,f64)", []byte{i64}, true, true, false, func(a *wb.Asm, w *world) {
		a.LocalGet(0).LocalGet(1).F32Const(0x7fa00001).F64Const(0xfff4000000000001).Call(w.hMix)
	})
	add("call h_grow", r, false, false, true, func(a *wb.Asm, w *world) { a.Call(w.hGrow) })
	add("call h_poke(65536)", r, false, false, false, func(a *wb.Asm, w *world) { a.I32Const(pageSize).Call(w.hPoke) })
	add("call h_poke(p0)", r, true, false, false, func(a *wb.Asm, w *world) { a.LocalGet(0).Call(w.hPoke) })
	add("call h_mv(p1)", []byte{i64, i32}, false, true, false, func(a *wb.Asm, w *world) { a.LocalGet(1).Call(w.hMv) })
	for _, k := range []struct {
		i    int32
		what string
		core bool
	}{{1, "c_grow", true}, {2, "c_size", false}, {0, "type-mismatch", false}, {4, "null", false}, {9, "out-of-range", false}} {
		k := k
		add(fmt.Sprintf("call_indirect t0[%d]=%s", k.i, k.what), r, false, false, k.core, func(a *wb.Asm, w *world) { a.I32Const(k.i).CallIndirect(w.tVoidI32, 0) })
	}
	add("call_indirect t0[p0]", r, true, false, false, func(a *wb.Asm, w *world) { a.LocalGet(0).CallIndirect(w.tVoidI32, 0) })
	tail := func(name string, push []byte, p0 bool, emit func(a *wb.Asm, w *world)) {
		ops = append(ops, sop{name: name, push: push, p0: p0, tail: true, emit: emit})
	}
	tail("return_call c_id(p0)", r, true, func(a *wb.Asm, w *world) { a.LocalGet(0).ReturnCall(w.cId) })
	tail("return_call c_grow", r, false, func(a *wb.Asm, w *world) { a.ReturnCall(w.cGrow) })
	tail("return_call c_rec(50)", r, false, func(a *wb.Asm, w *world) { a.I32Const(50).ReturnCall(w.cRec) })
	tail("return_call h_log(p0)", r, true, func(a *wb.Asm, w *world) { a.LocalGet(0).ReturnCall(w.hLog) })
	tail("return_call_indirect t0[1]=c_grow", r, false, func(a *wb.Asm, w *world) { a.I32Const(1).ReturnCallIndirect(w.tVoidI32, 0) })
	tail("return_call_indirect t0[p0]", r, true, func(a *wb.Asm, w *world) { a.LocalGet(0).ReturnCallIndirect(w.tVoidI32, 0) })
	// observers of state that calls may change behind the caller's back
	add("memory.size", r, false, false, true, func(a *wb.Asm, w *world) { a.MemorySize() })
	add("i32.load8_u(65536)", r, false, false, true, func(a *wb.Asm, w *world) { a.I32Const(pageSize).Mem(0x2d, 0, 0) })
	add("i32.store8(65536)", nil, false, false, true, func(a *wb.Asm, w *world) { a.I32Const(pageSize).I32Const(0x5a).Mem(0x3a, 0, 0) })
	add("global.get i32", r, false, false, false, func(a *wb.Asm, w *world) { a.GlobalGet(w.gI32) })
	add("table.get t0[4];is_null", r, false, false, false, func(a *wb.Asm, w *world) { a.I32Const(4).TableGet(0).RefIsNull() })
	add("table.size t0", r, false, false, false, func(a *wb.Asm, w *world) { a.TableSize(0) })
	return ops
}

var (
	p0Mem  = []uint64{0, 1, 65528, 65532, 65535, 65536, 131064, 0xfffffff8, 0xffffffff}
	p0Tab  = []uint64{0, 1, 4, 5, 6, 7, 8, 0xffffffff}
	p0Glob = []uint64{0, 0xffffffff}
	p1Vals = []uint64{0xf8e7d6c5b4a39281, 0x000000007fa00001}
)
