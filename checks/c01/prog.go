package main

import (
	"encoding/hex"
	"fmt"
	"hash/fnv"
)

// taint describes how far the WebAssembly specification determines a value.
type taint uint8

const (
	clean   taint = iota // fully determined: engines must agree bit for bit
	nanopen              // float produced by an arithmetic operator: equal bits, or NaN on both sides (payload/sign open)
	wild                 // derived from the payload/sign of an open NaN (reinterpret, copysign source): not compared
)

func maxTaint(a, b taint) taint {
	if a > b {
		return a
	}
	return b
}

// Prog is one generated function together with everything needed to drive and judge it.
type Prog struct {
	Params, Results, Locals []byte
	Body                    []byte
	ResTaint                []taint
	Wild                    bool   // trap behaviour may depend on an open NaN payload: divergence tolerated
	Desc                    string // readable instruction listing
	SigOps                  string // classifier: the non-trivial operators, in order, deduplicated
	Uses                    []bool // which parameters the body reads
	ArgVecs                 [][]uint64
	// Classify may give a divergence a more specific signature (input class) than the default one.
	Classify func(args []uint64, compiler, interpreter string) string
	// Expect, when set, is the generator's own model of the program: the result slots both engines must produce.
	// got holds the result slots an engine produced; a partial model copies the slots it does not predict from it.
	Expect func(args, got []uint64) []uint64
}

func (p *Prog) hash() uint64 {
	h := fnv.New64a()
	h.Write(p.Params)
	h.Write([]byte{0xff})
	h.Write(p.Results)
	h.Write([]byte{0xff})
	h.Write(p.Locals)
	h.Write([]byte{0xff})
	h.Write(p.Body)
	return h.Sum64()
}

func (p *Prog) typeString() string { return tnames(p.Params) + "->" + tnames(p.Results) }

func (p *Prog) describe() map[string]any {
	return map[string]any{"type": p.typeString(), "locals": tnames(p.Locals), "code": p.Desc, "body_hex": hex.EncodeToString(p.Body)}
}

// argVectors enumerates the argument vectors for a program: the full product of the boundary
// alphabets over the parameters the body reads (unread parameters stay at the alphabet's first
// value). If the product exceeds cap, all vectors with at most two deviations from the default
// vector are used instead (reported by the second result).
func (p *Prog) argVectors(cap int) (vecs [][]uint64, reduced bool) {
	if p.ArgVecs != nil {
		return p.ArgVecs, false
	}
	n := len(p.Params)
	def := make([]uint64, n)
	var used []int
	prod := 1
	for i, t := range p.Params {
		def[i] = alphaOf(t)[0]
		if i < len(p.Uses) && p.Uses[i] {
			used = append(used, i)
			if prod <= cap {
				prod *= len(alphaOf(t))
			}
		}
	}
	if prod <= cap {
		vecs = make([][]uint64, 0, prod)
		idx := make([]int, len(used))
		for {
			v := append([]uint64{}, def...)
			for k, pi := range used {
				v[pi] = alphaOf(p.Params[pi])[idx[k]]
			}
			vecs = append(vecs, v)
			k := len(used) - 1
			for ; k >= 0; k-- {
				idx[k]++
				if idx[k] < len(alphaOf(p.Params[used[k]])) {
					break
				}
				idx[k] = 0
			}
			if k < 0 {
				break
			}
		}
		return vecs, false
	}
	vecs = append(vecs, append([]uint64{}, def...))
	for a, pa := range used {
		for _, va := range alphaOf(p.Params[pa])[1:] {
			v := append([]uint64{}, def...)
			v[pa] = va
			vecs = append(vecs, v)
			for _, pb := range used[a+1:] {
				for _, vb := range alphaOf(p.Params[pb])[1:] {
					w := append([]uint64{}, v...)
					w[pb] = vb
					vecs = append(vecs, w)
				}
			}
		}
	}
	return vecs, true
}

func fmtVals(ts []byte, vs []uint64) string {
	s := "["
	k := 0
	for i, t := range ts {
		if i > 0 {
			s += " "
		}
		if k >= len(vs) {
			s += "?"
			continue
		}
		switch slots(t) {
		case 2:
			s += fmt.Sprintf("v128:%016x_%016x", vs[k+1], vs[k])
			k += 2
		default:
			if t == 0x7f || t == 0x7d {
				s += fmt.Sprintf("%s:0x%08x", tname(t), uint32(vs[k]))
			} else {
				s += fmt.Sprintf("%s:0x%016x", tname(t), vs[k])
			}
			k++
		}
	}
	return s + "]"
}
