package main

import (
	"encoding/binary"
	"fmt"

	"github.com/tetratelabs/wazero"
	"github.com/tetratelabs/wazero/verif/wb"
)

// simd: every SIMD instruction as a single-instruction body over v128/scalar parameters, and every non-memory
// instruction paired with a neighbouring v128.load (as either operand) and a neighbouring v128.store (of the
// result), which is where load folding and alignment assumptions live.

type simdShape int

const (
	sUn        simdShape = iota // v -> v
	sBin                        // v v -> v
	sTern                       // v v v -> v
	sShift                      // v i32 -> v
	sTest                       // v -> i32
	sSplat                      // x -> v
	sExtract                    // v -> x (lane immediate)
	sReplace                    // v x -> v (lane immediate)
	sShuffle                    // v v -> v (16 lane immediates)
	sLoad                       // addr -> v
	sStore                      // addr v -> ()
	sLoadLane                   // addr v -> v (lane immediate)
	sStoreLane                  // addr v -> () (lane immediate)
)

type simdOp struct {
	name  string
	op    uint32
	shape simdShape
	x     byte   // scalar type for splat/extract/replace
	lanes int    // number of lanes (lane immediates)
	width int    // access width in bytes for memory ops
	nan   taint  // nanF32x4 / nanF64x2 when float arithmetic leaves NaN lanes open
	imm   []byte // extra immediate bytes (shuffle)
}

const (
	nanF32x4 taint = 3
	nanF64x2 taint = 4
)

func simdOps() []simdOp {
	var o []simdOp
	add := func(name string, op uint32, sh simdShape) { o = append(o, simdOp{name: name, op: op, shape: sh}) }
	addN := func(name string, op uint32, sh simdShape, n taint) {
		o = append(o, simdOp{name: name, op: op, shape: sh, nan: n})
	}
	// memory
	for _, l := range []struct {
		n string
		c uint32
		w int
	}{{"v128.load", 0, 16}, {"v128.load8x8_s", 1, 8}, {"v128.load8x8_u", 2, 8}, {"v128.load16x4_s", 3, 8}, {"v128.load16x4_u", 4, 8},
		{"v128.load32x2_s", 5, 8}, {"v128.load32x2_u", 6, 8}, {"v128.load8_splat", 7, 1}, {"v128.load16_splat", 8, 2}, {"v128.load32_splat", 9, 4},
		{"v128.load64_splat", 10, 8}, {"v128.load32_zero", 92, 4}, {"v128.load64_zero", 93, 8}} {
		o = append(o, simdOp{name: l.n, op: l.c, shape: sLoad, width: l.w})
	}
	o = append(o, simdOp{name: "v128.store", op: 11, shape: sStore, width: 16})
	for i, w := range []int{1, 2, 4, 8} {
		o = append(o, simdOp{name: fmt.Sprintf("v128.load%d_lane", w*8), op: uint32(84 + i), shape: sLoadLane, width: w, lanes: 16 / w})
		o = append(o, simdOp{name: fmt.Sprintf("v128.store%d_lane", w*8), op: uint32(88 + i), shape: sStoreLane, width: w, lanes: 16 / w})
	}
	o = append(o, simdOp{name: "i8x16.shuffle", op: 13, shape: sShuffle, imm: []byte{0, 17, 2, 19, 4, 21, 6, 23, 31, 8, 30, 9, 16, 15, 1, 14}})
	o = append(o, simdOp{name: "i8x16.shuffle/rev", op: 13, shape: sShuffle, imm: []byte{15, 14, 13, 12, 11, 10, 9, 8, 7, 6, 5, 4, 3, 2, 1, 0}})
	add("i8x16.swizzle", 14, sBin)
	for i, s := range []struct {
		n string
		t byte
	}{{"i8x16", i32}, {"i16x8", i32}, {"i32x4", i32}, {"i64x2", i64}, {"f32x4", f32}, {"f64x2", f64}} {
		o = append(o, simdOp{name: s.n + ".splat", op: uint32(15 + i), shape: sSplat, x: s.t})
	}
	for _, e := range []struct {
		n     string
		c     uint32
		sh    simdShape
		t     byte
		lanes int
	}{{"i8x16.extract_lane_s", 21, sExtract, i32, 16}, {"i8x16.extract_lane_u", 22, sExtract, i32, 16}, {"i8x16.replace_lane", 23, sReplace, i32, 16},
		{"i16x8.extract_lane_s", 24, sExtract, i32, 8}, {"i16x8.extract_lane_u", 25, sExtract, i32, 8}, {"i16x8.replace_lane", 26, sReplace, i32, 8},
		{"i32x4.extract_lane", 27, sExtract, i32, 4}, {"i32x4.replace_lane", 28, sReplace, i32, 4},
		{"i64x2.extract_lane", 29, sExtract, i64, 2}, {"i64x2.replace_lane", 30, sReplace, i64, 2},
		{"f32x4.extract_lane", 31, sExtract, f32, 4}, {"f32x4.replace_lane", 32, sReplace, f32, 4},
		{"f64x2.extract_lane", 33, sExtract, f64, 2}, {"f64x2.replace_lane", 34, sReplace, f64, 2}} {
		o = append(o, simdOp{name: e.n, op: e.c, shape: e.sh, x: e.t, lanes: e.lanes})
	}
	cmpI := []string{"eq", "ne", "lt_s", "lt_u", "gt_s", "gt_u", "le_s", "le_u", "ge_s", "ge_u"}
	for k, sh := range []string{"i8x16", "i16x8", "i32x4"} {
		for i, c := range cmpI {
			add(sh+"."+c, uint32(35+10*k+i), sBin)
		}
	}
	cmpF := []string{"eq", "ne", "lt", "gt", "le", "ge"}
	for i, c := range cmpF {
		add("f32x4."+c, uint32(65+i), sBin)
		add("f64x2."+c, uint32(71+i), sBin)
	}
	add("v128.not", 77, sUn)
	add("v128.and", 78, sBin)
	add("v128.andnot", 79, sBin)
	add("v128.or", 80, sBin)
	add("v128.xor", 81, sBin)
	add("v128.bitselect", 82, sTern)
	add("v128.any_true", 83, sTest)
	addN("f32x4.demote_f64x2_zero", 94, sUn, nanF32x4)
	addN("f64x2.promote_low_f32x4", 95, sUn, nanF64x2)
	add("i8x16.abs", 96, sUn)
	add("i8x16.neg", 97, sUn)
	add("i8x16.popcnt", 98, sUn)
	add("i8x16.all_true", 99, sTest)
	add("i8x16.bitmask", 100, sTest)
	add("i8x16.narrow_i16x8_s", 101, sBin)
	add("i8x16.narrow_i16x8_u", 102, sBin)
	addN("f32x4.ceil", 103, sUn, nanF32x4)
	addN("f32x4.floor", 104, sUn, nanF32x4)
	addN("f32x4.trunc", 105, sUn, nanF32x4)
	addN("f32x4.nearest", 106, sUn, nanF32x4)
	add("i8x16.shl", 107, sShift)
	add("i8x16.shr_s", 108, sShift)
	add("i8x16.shr_u", 109, sShift)
	for i, n := range []string{"add", "add_sat_s", "add_sat_u", "sub", "sub_sat_s", "sub_sat_u"} {
		add("i8x16."+n, uint32(110+i), sBin)
		add("i16x8."+n, uint32(142+i), sBin)
	}
	addN("f64x2.ceil", 116, sUn, nanF64x2)
	addN("f64x2.floor", 117, sUn, nanF64x2)
	for i, n := range []string{"min_s", "min_u", "max_s", "max_u"} {
		add("i8x16."+n, uint32(118+i), sBin)
		add("i16x8."+n, uint32(150+i), sBin)
		add("i32x4."+n, uint32(182+i), sBin)
	}
	addN("f64x2.trunc", 122, sUn, nanF64x2)
	add("i8x16.avgr_u", 123, sBin)
	add("i16x8.extadd_pairwise_i8x16_s", 124, sUn)
	add("i16x8.extadd_pairwise_i8x16_u", 125, sUn)
	add("i32x4.extadd_pairwise_i16x8_s", 126, sUn)
	add("i32x4.extadd_pairwise_i16x8_u", 127, sUn)
	add("i16x8.abs", 128, sUn)
	add("i16x8.neg", 129, sUn)
	add("i16x8.q15mulr_sat_s", 130, sBin)
	add("i16x8.all_true", 131, sTest)
	add("i16x8.bitmask", 132, sTest)
	add("i16x8.narrow_i32x4_s", 133, sBin)
	add("i16x8.narrow_i32x4_u", 134, sBin)
	for i, n := range []string{"extend_low_i8x16_s", "extend_high_i8x16_s", "extend_low_i8x16_u", "extend_high_i8x16_u"} {
		add("i16x8."+n, uint32(135+i), sUn)
	}
	add("i16x8.shl", 139, sShift)
	add("i16x8.shr_s", 140, sShift)
	add("i16x8.shr_u", 141, sShift)
	addN("f64x2.nearest", 148, sUn, nanF64x2)
	add("i16x8.mul", 149, sBin)
	add("i16x8.avgr_u", 155, sBin)
	for i, n := range []string{"extmul_low_i8x16_s", "extmul_high_i8x16_s", "extmul_low_i8x16_u", "extmul_high_i8x16_u"} {
		add("i16x8."+n, uint32(156+i), sBin)
	}
	add("i32x4.abs", 160, sUn)
	add("i32x4.neg", 161, sUn)
	add("i32x4.all_true", 163, sTest)
	add("i32x4.bitmask", 164, sTest)
	for i, n := range []string{"extend_low_i16x8_s", "extend_high_i16x8_s", "extend_low_i16x8_u", "extend_high_i16x8_u"} {
		add("i32x4."+n, uint32(167+i), sUn)
	}
	add("i32x4.shl", 171, sShift)
	add("i32x4.shr_s", 172, sShift)
	add("i32x4.shr_u", 173, sShift)
	add("i32x4.add", 174, sBin)
	add("i32x4.sub", 177, sBin)
	add("i32x4.mul", 181, sBin)
	add("i32x4.dot_i16x8_s", 186, sBin)
	for i, n := range []string{"extmul_low_i16x8_s", "extmul_high_i16x8_s", "extmul_low_i16x8_u", "extmul_high_i16x8_u"} {
		add("i32x4."+n, uint32(188+i), sBin)
	}
	add("i64x2.abs", 192, sUn)
	add("i64x2.neg", 193, sUn)
	add("i64x2.all_true", 195, sTest)
	add("i64x2.bitmask", 196, sTest)
	for i, n := range []string{"extend_low_i32x4_s", "extend_high_i32x4_s", "extend_low_i32x4_u", "extend_high_i32x4_u"} {
		add("i64x2."+n, uint32(199+i), sUn)
	}
	add("i64x2.shl", 203, sShift)
	add("i64x2.shr_s", 204, sShift)
	add("i64x2.shr_u", 205, sShift)
	add("i64x2.add", 206, sBin)
	add("i64x2.sub", 209, sBin)
	add("i64x2.mul", 213, sBin)
	for i, n := range []string{"eq", "ne", "lt_s", "gt_s", "le_s", "ge_s"} {
		add("i64x2."+n, uint32(214+i), sBin)
	}
	for i, n := range []string{"extmul_low_i32x4_s", "extmul_high_i32x4_s", "extmul_low_i32x4_u", "extmul_high_i32x4_u"} {
		add("i64x2."+n, uint32(220+i), sBin)
	}
	for k, sh := range []string{"f32x4", "f64x2"} {
		base := uint32(224 + 12*k)
		nt := nanF32x4
		if k == 1 {
			nt = nanF64x2
		}
		add(sh+".abs", base, sUn)
		add(sh+".neg", base+1, sUn)
		addN(sh+".sqrt", base+3, sUn, nt)
		for i, n := range []string{"add", "sub", "mul", "div", "min", "max"} {
			addN(sh+"."+n, base+4+uint32(i), sBin, nt)
		}
		add(sh+".pmin", base+10, sBin)
		add(sh+".pmax", base+11, sBin)
	}
	add("i32x4.trunc_sat_f32x4_s", 248, sUn)
	add("i32x4.trunc_sat_f32x4_u", 249, sUn)
	add("f32x4.convert_i32x4_s", 250, sUn)
	add("f32x4.convert_i32x4_u", 251, sUn)
	add("i32x4.trunc_sat_f64x2_s_zero", 252, sUn)
	add("i32x4.trunc_sat_f64x2_u_zero", 253, sUn)
	add("f64x2.convert_low_i32x4_s", 254, sUn)
	add("f64x2.convert_low_i32x4_u", 255, sUn)
	return o
}

// v128 boundary alphabet (lo, hi)
var v128Alpha = [][2]uint64{
	{0, 0},
	{0xffffffffffffffff, 0xffffffffffffffff},
	{0x8080808080808080, 0x8080808080808080},
	{0x7f7f7f7f7f7f7f7f, 0x017f80ff7f0180ff},
	{0x80007fff0001ffff, 0x7fff8000ffff0001},
	{0x800000007fffffff, 0x00000001ffffffff},
	{0x8000000000000000, 0x7fffffffffffffff},
	{0x800000003f800000, 0x7fc000007f800000}, // f32: 1.0, -0.0, +inf, canonical NaN
	{0xffc000017fa00001, 0x7f7fffff00000001}, // f32: sNaN+payload, -qNaN+payload, min subnormal, max
	{0xcf0000004f000000, 0xbfc000003f000000}, // f32: 2^31, -2^31, 0.5, -1.5
	{0x3ff0000000000000, 0x8000000000000000}, // f64: 1.0, -0.0
	{0x7ff8000000000000, 0xfff4000000000001}, // f64: canonical NaN, negative sNaN+payload
	{0x41e0000000000000, 0xfff0000000000000}, // f64: 2^31, -inf
	{0x0000000000000001, 0x47efffffe0000000}, // f64: min subnormal, max f32 as f64
	{0x0706050403020100, 0x0f0e0d0c0b0a0908}, // byte indexes ascending
	{0x00ff00ff00ff00ff, 0x1011121314151617},
}

var simdShiftAlpha = []uint64{0, 1, 7, 8, 15, 16, 31, 32, 63, 64, 65, 0xffffffff}

const simdUnalignedBase = 1024 + 1

// memory image for the simd/atomic worlds: the v128 alphabet at 16-byte strides from 0, and once more at an odd address.
func simdData() []byte {
	d := make([]byte, 2048)
	for i, v := range v128Alpha {
		binary.LittleEndian.PutUint64(d[i*16:], v[0])
		binary.LittleEndian.PutUint64(d[i*16+8:], v[1])
		binary.LittleEndian.PutUint64(d[simdUnalignedBase+i*16:], v[0])
		binary.LittleEndian.PutUint64(d[simdUnalignedBase+i*16+8:], v[1])
	}
	return d
}

func simdAddrAlpha(width int) []uint64 {
	var a []uint64
	for i := range v128Alpha {
		a = append(a, uint64(i*16))
	}
	for _, i := range []int{0, 7, 8, 11} {
		a = append(a, uint64(simdUnalignedBase+i*16))
	}
	a = append(a, uint64(pageSize-width), uint64(pageSize-width+1), pageSize, 0xffffffff)
	return a
}

func scalarAlpha(t byte) []uint64 {
	switch t {
	case i32:
		return []uint64{0, 1, 0x7f, 0x80, 0xff, 0x7fff, 0x8000, 0xffff, 0x7fffffff, 0x80000000, 0xffffffff}
	case i64:
		return i64Alpha
	case f32:
		return f32Alpha
	}
	return f64Alpha
}

func vecArgs(lists ...[][]uint64) [][]uint64 {
	out := [][]uint64{{}}
	for _, l := range lists {
		var nx [][]uint64
		for _, pre := range out {
			for _, v := range l {
				nx = append(nx, append(append([]uint64{}, pre...), v...))
			}
		}
		out = nx
	}
	return out
}

func v128List(n int) [][]uint64 {
	var l [][]uint64
	for i := 0; i < n && i < len(v128Alpha); i++ {
		l = append(l, []uint64{v128Alpha[i][0], v128Alpha[i][1]})
	}
	return l
}

func scalarList(a []uint64) [][]uint64 {
	var l [][]uint64
	for _, v := range a {
		l = append(l, []uint64{v})
	}
	return l
}

// simdPrograms returns the programs for one op: the single-instruction body (for every lane immediate) and the
// load/store pairings.
func simdPrograms(op simdOp) []*Prog {
	var ps []*Prog
	mk := func(desc string, params, results []byte, body *wb.Asm, vecs [][]uint64, nan taint) {
		p := &Prog{Params: params, Results: results, Body: body.B, Desc: desc, SigOps: op.name + "/" + desc[:indexOr(desc, ' ')], ArgVecs: vecs}
		p.ResTaint = make([]taint, len(results))
		if len(results) == 1 && results[0] == v128 {
			p.ResTaint[0] = nan
		}
		ps = append(ps, p)
	}
	all := v128List(16)
	few := v128List(16)
	addrs := func(w int) [][]uint64 { return scalarList(simdAddrAlpha(w)) }
	emit := func(a *wb.Asm) *wb.Asm {
		a.Simd(op.op)
		if op.imm != nil {
			a.Raw(op.imm...)
		}
		return a
	}
	switch op.shape {
	case sUn:
		mk("single "+op.name, []byte{v128}, []byte{v128}, emit((&wb.Asm{}).LocalGet(0)), vecArgs(all), op.nan)
		mk("load-operand "+op.name, []byte{i32}, []byte{v128}, emit((&wb.Asm{}).LocalGet(0).SimdMem(0, 0, 0)), vecArgs(addrs(16)), op.nan)
		mk("store-result "+op.name, []byte{i32, v128}, nil, emit((&wb.Asm{}).LocalGet(0).LocalGet(1)).SimdMem(11, 0, 4096), vecArgs(scalarList([]uint64{0, 1, pageSize - 4096 - 16, pageSize - 4096 - 15}), few), clean)
	case sBin, sShuffle:
		mk("single "+op.name, []byte{v128, v128}, []byte{v128}, emit((&wb.Asm{}).LocalGet(0).LocalGet(1)), vecArgs(all, all), op.nan)
		mk("load-operand1 "+op.name, []byte{i32, v128}, []byte{v128}, emit((&wb.Asm{}).LocalGet(0).SimdMem(0, 0, 0).LocalGet(1)), vecArgs(addrs(16), few), op.nan)
		mk("load-operand2 "+op.name, []byte{i32, v128}, []byte{v128}, emit((&wb.Asm{}).LocalGet(1).LocalGet(0).SimdMem(0, 0, 0)), vecArgs(addrs(16), few), op.nan)
		mk("store-result "+op.name, []byte{i32, v128, v128}, nil, emit((&wb.Asm{}).LocalGet(0).LocalGet(1).LocalGet(2)).SimdMem(11, 0, 4096), vecArgs(scalarList([]uint64{0, 1, pageSize - 4096 - 15}), few, few), clean)
	case sTern:
		mk("single "+op.name, []byte{v128, v128, v128}, []byte{v128}, emit((&wb.Asm{}).LocalGet(0).LocalGet(1).LocalGet(2)), vecArgs(v128List(7), v128List(7), all), op.nan)
		mk("load-operand3 "+op.name, []byte{i32, v128, v128}, []byte{v128}, emit((&wb.Asm{}).LocalGet(1).LocalGet(2).LocalGet(0).SimdMem(0, 0, 0)), vecArgs(addrs(16), v128List(7), v128List(7)), op.nan)
	case sShift:
		mk("single "+op.name, []byte{v128, i32}, []byte{v128}, emit((&wb.Asm{}).LocalGet(0).LocalGet(1)), vecArgs(all, scalarList(simdShiftAlpha)), clean)
		for _, c := range []int32{0, 1, 7, 9, 33, 65} {
			mk(fmt.Sprintf("const-count(%d) %s", c, op.name), []byte{v128}, []byte{v128}, emit((&wb.Asm{}).LocalGet(0).I32Const(c)), vecArgs(all), clean)
		}
		mk("load-operand "+op.name, []byte{i32, i32}, []byte{v128}, emit((&wb.Asm{}).LocalGet(0).SimdMem(0, 0, 0).LocalGet(1)), vecArgs(addrs(16), scalarList(simdShiftAlpha)), clean)
	case sTest:
		mk("single "+op.name, []byte{v128}, []byte{i32}, emit((&wb.Asm{}).LocalGet(0)), vecArgs(all), clean)
		mk("load-operand "+op.name, []byte{i32}, []byte{i32}, emit((&wb.Asm{}).LocalGet(0).SimdMem(0, 0, 0)), vecArgs(addrs(16)), clean)
	case sSplat:
		mk("single "+op.name, []byte{op.x}, []byte{v128}, emit((&wb.Asm{}).LocalGet(0)), vecArgs(scalarList(scalarAlpha(op.x))), clean)
		mk("store-result "+op.name, []byte{i32, op.x}, nil, emit((&wb.Asm{}).LocalGet(0).LocalGet(1)).SimdMem(11, 0, 4096), vecArgs(scalarList([]uint64{0, 1}), scalarList(scalarAlpha(op.x))), clean)
	case sExtract:
		for l := 0; l < op.lanes; l++ {
			mk(fmt.Sprintf("single %s lane %d", op.name, l), []byte{v128}, []byte{op.x}, emit((&wb.Asm{}).LocalGet(0)).Raw(byte(l)), vecArgs(all), clean)
		}
		mk("load-operand "+op.name, []byte{i32}, []byte{op.x}, emit((&wb.Asm{}).LocalGet(0).SimdMem(0, 0, 0)).Raw(byte(op.lanes-1)), vecArgs(addrs(16)), clean)
	case sReplace:
		for l := 0; l < op.lanes; l++ {
			mk(fmt.Sprintf("single %s lane %d", op.name, l), []byte{v128, op.x}, []byte{v128}, emit((&wb.Asm{}).LocalGet(0).LocalGet(1)).Raw(byte(l)), vecArgs(v128List(9), scalarList(scalarAlpha(op.x))), clean)
		}
	case sLoad:
		mk("single "+op.name, []byte{i32}, []byte{v128}, (&wb.Asm{}).LocalGet(0).SimdMem(op.op, 0, 0), vecArgs(addrs(op.width)), clean)
		mk("offset "+op.name, []byte{i32}, []byte{v128}, (&wb.Asm{}).LocalGet(0).SimdMem(op.op, 0, 3), vecArgs(addrs(op.width+3)), clean)
		mk("after-store "+op.name, []byte{i32, v128}, []byte{v128}, (&wb.Asm{}).LocalGet(0).LocalGet(1).SimdMem(11, 0, 4096).LocalGet(0).SimdMem(op.op, 0, 4096+1), vecArgs(scalarList([]uint64{0, 1, 15}), few), clean)
	case sStore:
		mk("single "+op.name, []byte{i32, v128}, nil, (&wb.Asm{}).LocalGet(0).LocalGet(1).SimdMem(op.op, 0, 0), vecArgs(scalarList([]uint64{8192, 8193, pageSize - 16, pageSize - 15, pageSize, 0xffffffff}), few), clean)
		mk("then-load "+op.name, []byte{i32, v128}, []byte{i64}, (&wb.Asm{}).LocalGet(0).LocalGet(1).SimdMem(op.op, 0, 0).LocalGet(0).Mem(0x29, 0, 5), vecArgs(scalarList([]uint64{8192, 8193}), few), clean)
	case sLoadLane:
		for l := 0; l < op.lanes; l++ {
			mk(fmt.Sprintf("single %s lane %d", op.name, l), []byte{i32, v128}, []byte{v128}, (&wb.Asm{}).LocalGet(0).LocalGet(1).SimdMem(op.op, 0, 0).Raw(byte(l)), vecArgs(scalarList([]uint64{0, 17, uint64(simdUnalignedBase), uint64(pageSize - op.width), uint64(pageSize - op.width + 1)}), v128List(3)), clean)
		}
	case sStoreLane:
		for l := 0; l < op.lanes; l++ {
			mk(fmt.Sprintf("single %s lane %d", op.name, l), []byte{i32, v128}, nil, (&wb.Asm{}).LocalGet(0).LocalGet(1).SimdMem(op.op, 0, 0).Raw(byte(l)), vecArgs(scalarList([]uint64{12288, 12289, uint64(pageSize - op.width), uint64(pageSize - op.width + 1)}), v128List(9)), clean)
		}
	}
	return ps
}

func indexOr(s string, c byte) int {
	for i := 0; i < len(s); i++ {
		if s[i] == c {
			return i
		}
	}
	return len(s)
}

type simdFamily struct {
	tier  string
	progs []*Prog
}

func newSimdFamily(tier string) *simdFamily {
	f := &simdFamily{tier: tier}
	for _, op := range simdOps() {
		f.progs = append(f.progs, simdPrograms(op)...)
	}
	return f
}

const simdBatch = 60

func (f *simdFamily) Name() string { return "simd" }
func (f *simdFamily) Chunks() int  { return (len(f.progs) + simdBatch - 1) / simdBatch }
func (f *simdFamily) Bounds() map[string]any {
	return map[string]any{"instructions": len(simdOps()), "programs": len(f.progs), "v128_alphabet": len(v128Alpha), "shift_count_alphabet": len(simdShiftAlpha),
		"address_alphabet": "16 aligned slots, 4 unaligned slots, last valid address, first invalid address, 65536, 0xffffffff"}
}

func simdPre(shared bool) func(m *wb.Module) {
	return func(m *wb.Module) {
		m.Mem = &wb.Limits{Min: 1, Max: 1, HasMax: true, Shared: shared}
		m.Datas = []wb.Data{{Offset: wb.CI32(0), Bytes: simdData()}}
	}
}

func (f *simdFamily) Run(rts [2]wazero.Runtime, c int, sel *replay, res *chunkRes, verbose bool) {
	lo := c * simdBatch
	hi := lo + simdBatch
	if hi > len(f.progs) {
		hi = len(f.progs)
	}
	progs := f.progs[lo:hi]
	only := -1
	var args []uint64
	if sel != nil {
		only, args = sel.Prog, sel.Args
	}
	if sel == nil {
		res.Samples = append(res.Samples, map[string]any{"family": "simd", "chunk": c, "program": progs[len(progs)/2].describe()})
	}
	runStateless(slOpts{fam: "simd", tier: f.tier, chunk: c, pre: simdPre(false), memCompare: true}, rts, progs, only, args, res, verbose)
}
