package main

import (
	"fmt"

	"github.com/tetratelabs/wazero"
	"github.com/tetratelabs/wazero/verif/wb"
)

// opreuse ("operand reuse"): operands must stay live across instructions whose lowering uses fixed registers or
// read-modify-write operands. For every such instruction — all atomic rmw / cmpxchg / load / store, div / rem,
// shifts and rotates by a register count, mul, select, memory.copy/fill/grow, bulk table ops, extend / trunc_sat,
// SIMD shuffle / swizzle / bitselect / shifts / multiplies, mul+add chains, call / call_indirect arguments — the
// function computes `op(o1, o2[, o3])` with the operands held in locals (never constants) and returns the RESULT
// followed by EVERY operand read again after the instruction (shape `locals`), additionally through local.tee'd
// copies made while pushing the operands (shape `tee`), and with the instruction executed twice back to back on the
// same operands (shape `pair`). The re-read operands have generator-known values (absolute reference); the
// instruction's result is compared between the engines.

type orRole int

const (
	rVal   orRole = iota // any value of the type
	rAddr                // 8-aligned in-bounds address
	rLen                 // small length 1..8
	rIndex               // table index 0..1
)

type orOperand struct {
	t    byte
	role orRole
}

type orOp struct {
	name string
	in   []orOperand
	out  []byte
	nan  bool
	emit func(a *wb.Asm, w *orWorld)
}

type orWorld struct {
	callee uint32
	tCall  uint32
}

func orPre(m *wb.Module) *orWorld {
	w := &orWorld{}
	m.Mem = &wb.Limits{Min: 1, Max: 2, HasMax: true}
	pat := make([]byte, 8192)
	for i := range pat {
		pat[i] = byte(i*53 + 17)
	}
	m.Datas = []wb.Data{{Offset: wb.CI32(0), Bytes: pat}}
	w.callee = m.AddFunc([]byte{i32, i64, i64}, []byte{i64}, nil, (&wb.Asm{}).LocalGet(0).Op(0xad).LocalGet(1).Op(0x7c).LocalGet(2).Op(0x85).B)
	w.tCall = m.Type([]byte{i32, i64, i64}, []byte{i64})
	m.Tables = []wb.Table{{Elem: funcref, Lim: wb.Limits{Min: 12, Max: 12, HasMax: true}}}
	m.Elems = []wb.Elem{{Mode: 0, Offset: wb.CI32(0), Funcs: []uint32{w.callee, w.callee}}, {Mode: 1, Funcs: []uint32{w.callee, w.callee, w.callee, w.callee, w.callee, w.callee, w.callee, w.callee, w.callee, w.callee}}}
	return w
}

func orOps() []orOp {
	var ops []orOp
	v := func(t byte) orOperand { return orOperand{t, rVal} }
	addr := orOperand{i32, rAddr}
	simple := func(name string, out []byte, enc []byte, in ...orOperand) {
		ops = append(ops, orOp{name: name, in: in, out: out, emit: func(a *wb.Asm, w *orWorld) { a.Raw(enc...) }})
	}
	for _, o := range atomOps() {
		o := o
		switch o.kind {
		case 0:
			ops = append(ops, orOp{name: o.name, in: []orOperand{addr}, out: []byte{o.t}, emit: func(a *wb.Asm, w *orWorld) { a.AtomicMem(o.op, o.align, 0) }})
		case 1:
			ops = append(ops, orOp{name: o.name, in: []orOperand{addr, v(o.t)}, emit: func(a *wb.Asm, w *orWorld) { a.AtomicMem(o.op, o.align, 0) }})
		case 2:
			ops = append(ops, orOp{name: o.name, in: []orOperand{addr, v(o.t)}, out: []byte{o.t}, emit: func(a *wb.Asm, w *orWorld) { a.AtomicMem(o.op, o.align, 0) }})
		case 3:
			ops = append(ops, orOp{name: o.name, in: []orOperand{addr, v(o.t), v(o.t)}, out: []byte{o.t}, emit: func(a *wb.Asm, w *orWorld) { a.AtomicMem(o.op, o.align, 0) }})
		}
	}
	for i, n := range []string{"div_s", "div_u", "rem_s", "rem_u"} {
		simple("i32."+n, []byte{i32}, []byte{byte(0x6d + i)}, v(i32), v(i32))
		simple("i64."+n, []byte{i64}, []byte{byte(0x7f + i)}, v(i64), v(i64))
	}
	for i, n := range []string{"shl", "shr_s", "shr_u", "rotl", "rotr"} {
		simple("i32."+n, []byte{i32}, []byte{byte(0x74 + i)}, v(i32), v(i32))
		simple("i64."+n, []byte{i64}, []byte{byte(0x86 + i)}, v(i64), v(i64))
	}
	simple("i32.mul", []byte{i32}, []byte{0x6c}, v(i32), v(i32))
	simple("i64.mul", []byte{i64}, []byte{0x7e}, v(i64), v(i64))
	for _, t := range []byte{i32, i64, f64, v128} {
		simple("select/"+tname(t), []byte{t}, []byte{0x1b}, v(t), v(t), v(i32))
	}
	ops = append(ops, orOp{name: "memory.copy", in: []orOperand{addr, addr, {i32, rLen}}, emit: func(a *wb.Asm, w *orWorld) { a.MemoryCopy() }})
	ops = append(ops, orOp{name: "memory.fill", in: []orOperand{addr, v(i32), {i32, rLen}}, emit: func(a *wb.Asm, w *orWorld) { a.MemoryFill() }})
	ops = append(ops, orOp{name: "memory.grow", in: []orOperand{{i32, rIndex}}, out: []byte{i32}, emit: func(a *wb.Asm, w *orWorld) { a.MemoryGrow() }})
	ops = append(ops, orOp{name: "table.copy", in: []orOperand{{i32, rIndex}, {i32, rIndex}, {i32, rLen}}, emit: func(a *wb.Asm, w *orWorld) { a.TableCopy(0, 0) }})
	ops = append(ops, orOp{name: "table.init", in: []orOperand{{i32, rIndex}, {i32, rIndex}, {i32, rLen}}, emit: func(a *wb.Asm, w *orWorld) { a.TableInit(1, 0) }})
	ops = append(ops, orOp{name: "table.get;is_null", in: []orOperand{{i32, rIndex}}, out: []byte{i32}, emit: func(a *wb.Asm, w *orWorld) { a.TableGet(0).RefIsNull() }})
	simple("i64.extend_i32_s", []byte{i64}, []byte{0xac}, v(i32))
	simple("i64.extend_i32_u", []byte{i64}, []byte{0xad}, v(i32))
	simple("i32.wrap_i64", []byte{i32}, []byte{0xa7}, v(i64))
	simple("i64.trunc_sat_f64_s", []byte{i64}, []byte{0xfc, 6}, v(f64))
	simple("i64.trunc_sat_f64_u", []byte{i64}, []byte{0xfc, 7}, v(f64))
	simple("i32.trunc_sat_f32_u", []byte{i32}, []byte{0xfc, 1}, v(f32))
	simple("f64.convert_i64_u", []byte{f64}, []byte{0xba}, v(i64))
	simple("f32.convert_i32_u", []byte{f32}, []byte{0xb3}, v(i32))
	simple("i32.popcnt", []byte{i32}, []byte{0x69}, v(i32))
	simple("i64.clz", []byte{i64}, []byte{0x79}, v(i64))
	simple("i8x16.shuffle", []byte{v128}, append([]byte{0xfd, 13}, 0, 17, 2, 19, 4, 21, 6, 23, 31, 8, 30, 9, 16, 15, 1, 14), v(v128), v(v128))
	simple("i8x16.swizzle", []byte{v128}, []byte{0xfd, 14}, v(v128), v(v128))
	simple("v128.bitselect", []byte{v128}, []byte{0xfd, 82}, v(v128), v(v128), v(v128))
	simple("v128.andnot", []byte{v128}, []byte{0xfd, 79}, v(v128), v(v128))
	for _, s := range []struct {
		n  string
		op uint32
	}{{"i8x16.shl", 107}, {"i8x16.shr_s", 108}, {"i8x16.shr_u", 109}, {"i16x8.shr_s", 140}, {"i32x4.shl", 171}, {"i64x2.shl", 203}, {"i64x2.shr_s", 204}, {"i64x2.shr_u", 205}} {
		simple(s.n, []byte{v128}, (&wb.Asm{}).Simd(s.op).B, v(v128), v(i32))
	}
	for _, s := range []struct {
		n  string
		op uint32
	}{{"i64x2.mul", 213}, {"i32x4.mul", 181}, {"i16x8.q15mulr_sat_s", 130}, {"i32x4.dot_i16x8_s", 186}, {"i64x2.extmul_low_i32x4_u", 222}, {"i8x16.narrow_i16x8_s", 101},
		{"i64x2.gt_s", 217}, {"i32x4.min_u", 183}, {"i8x16.avgr_u", 123}} {
		simple(s.n, []byte{v128}, (&wb.Asm{}).Simd(s.op).B, v(v128), v(v128))
	}
	for _, s := range []struct {
		n  string
		op uint32
	}{{"i64x2.abs", 192}, {"i8x16.popcnt", 98}, {"i32x4.trunc_sat_f32x4_u", 249}, {"i64x2.extend_high_i32x4_s", 200}, {"f64x2.convert_low_i32x4_u", 255}, {"i64x2.neg", 193}} {
		simple(s.n, []byte{v128}, (&wb.Asm{}).Simd(s.op).B, v(v128))
	}
	simple("i8x16.bitmask", []byte{i32}, (&wb.Asm{}).Simd(100).B, v(v128))
	simple("i64x2.replace_lane 1", []byte{v128}, (&wb.Asm{}).Simd(30).Raw(1).B, v(v128), v(i64))
	simple("i32x4.extract_lane 2", []byte{i32}, (&wb.Asm{}).Simd(27).Raw(2).B, v(v128))
	ops = append(ops, orOp{name: "f64.mul;f64.add", in: []orOperand{v(f64), v(f64), v(f64)}, out: []byte{f64}, nan: true, emit: func(a *wb.Asm, w *orWorld) {
		a.LocalSet(orScratchF64).Op(0xa2).LocalGet(orScratchF64).Op(0xa0)
	}})
	ops = append(ops, orOp{name: "f64.min", in: []orOperand{v(f64), v(f64)}, out: []byte{f64}, nan: true, emit: func(a *wb.Asm, w *orWorld) { a.Op(0xa4) }})
	ops = append(ops, orOp{name: "f32.copysign", in: []orOperand{v(f32), v(f32)}, out: []byte{f32}, emit: func(a *wb.Asm, w *orWorld) { a.Op(0x98) }})
	ops = append(ops, orOp{name: "call", in: []orOperand{v(i32), v(i64), v(i64)}, out: []byte{i64}, emit: func(a *wb.Asm, w *orWorld) { a.Call(w.callee) }})
	ops = append(ops, orOp{name: "call_indirect", in: []orOperand{v(i32), v(i64), v(i64)}, out: []byte{i64}, emit: func(a *wb.Asm, w *orWorld) { a.I32Const(1).CallIndirect(w.tCall, 0) }})
	return ops
}

const orScratchF64 = 3 // local index of the f64 scratch (params are 0..2)

var orShapes = []string{"locals", "tee", "pair"}

// operand value derived from parameter p (an i64): the wasm code and the Go mirror
func orDerive(a *wb.Asm, o orOperand, param uint32) {
	a.LocalGet(param)
	switch o.role {
	case rAddr:
		a.Op(0xa7).I32Const(0xff8).Op(0x71).I32Const(64).Op(0x6a)
		return
	case rLen:
		a.Op(0xa7).I32Const(7).Op(0x71).I32Const(1).Op(0x6a)
		return
	case rIndex:
		a.Op(0xa7).I32Const(1).Op(0x71)
		return
	}
	switch o.t {
	case i32:
		a.Op(0xa7)
	case f32:
		a.Op(0xb4) // f32.convert_i64_s
	case f64:
		a.Op(0xb9) // f64.convert_i64_s
	case v128:
		a.Simd(18).LocalGet(param).I64Const(3).Op(0x7e).I64Const(1).Op(0x7c).Simd(30).Raw(1)
	}
}

func orDeriveGo(o orOperand, p uint64) []uint64 {
	switch o.role {
	case rAddr:
		return []uint64{uint64(uint32(p)&0xff8 + 64)}
	case rLen:
		return []uint64{uint64(uint32(p)&7 + 1)}
	case rIndex:
		return []uint64{uint64(uint32(p) & 1)}
	}
	switch o.t {
	case i32:
		return []uint64{uint64(uint32(p))}
	case f32:
		return []uint64{uint64(wb.F32Bits(float32(int64(p))))}
	case f64:
		return []uint64{wb.F64Bits(float64(int64(p)))}
	case v128:
		return []uint64{p, p*3 + 1}
	}
	return []uint64{p}
}

var orArgVecs = [][]uint64{
	{2, 3, 5},
	{0xffffffffffffffff, 0xffffffffffffffff, 0xffffffffffffffff},
	{1000003, 998244353, 0x1fffffffffffffff},
	{7, 0xffffffffffffffff, 11},
	{0x8000000000000000, 13, 0x7fffffffffffffff},
}

type opreuseFamily struct {
	tier string
	ops  []orOp
}

func newOpreuseFamily(tier string) *opreuseFamily { return &opreuseFamily{tier: tier, ops: orOps()} }

func (f *opreuseFamily) build(w *orWorld, op orOp, shape string) *Prog {
	a := &wb.Asm{}
	// locals: params 0..2 (i64), 3 f64 scratch, then operand locals o_k, then tee copies t_k
	locals := []byte{f64}
	oIdx := make([]uint32, len(op.in))
	tIdx := make([]uint32, len(op.in))
	for k, o := range op.in {
		oIdx[k] = uint32(3 + len(locals))
		locals = append(locals, o.t)
	}
	for k, o := range op.in {
		tIdx[k] = uint32(3 + len(locals))
		locals = append(locals, o.t)
	}
	for k, o := range op.in {
		orDerive(a, o, uint32(k))
		a.LocalSet(oIdx[k])
	}
	push := func() {
		for k := range op.in {
			a.LocalGet(oIdx[k])
			if shape == "tee" {
				a.LocalTee(tIdx[k])
			}
		}
	}
	var results []byte
	var taints []taint
	res := func() {
		results = append(results, op.out...)
		for range op.out {
			if op.nan {
				taints = append(taints, nanopen)
			} else {
				taints = append(taints, clean)
			}
		}
	}
	push()
	op.emit(a, w)
	res()
	if shape == "pair" {
		push()
		op.emit(a, w)
		res()
	}
	nres := nslots(results)
	for k, o := range op.in {
		a.LocalGet(oIdx[k])
		results = append(results, o.t)
		taints = append(taints, clean)
	}
	if shape == "tee" {
		for k, o := range op.in {
			a.LocalGet(tIdx[k])
			results = append(results, o.t)
			taints = append(taints, clean)
		}
	}
	p := &Prog{Params: []byte{i64, i64, i64}, Results: results, Locals: locals, Body: a.B, ResTaint: taints, ArgVecs: orArgVecs}
	p.Desc = fmt.Sprintf("%s %s: result, then every operand re-read", shape, op.name)
	p.SigOps = shape + "/" + op.name
	in := op.in
	p.Expect = func(args, got []uint64) []uint64 {
		want := append([]uint64{}, got...)
		at := nres
		rounds := 1
		if shape == "tee" {
			rounds = 2
		}
		for r := 0; r < rounds; r++ {
			for k, o := range in {
				for _, x := range orDeriveGo(o, args[k]) {
					if at < len(want) {
						want[at] = x
					}
					at++
				}
			}
		}
		return want
	}
	return p
}

func (f *opreuseFamily) Name() string { return "opreuse" }
func (f *opreuseFamily) Chunks() int  { return 1 }
func (f *opreuseFamily) Bounds() map[string]any {
	var names []string
	for _, o := range f.ops {
		names = append(names, o.name)
	}
	return map[string]any{"instructions": names, "shapes": orShapes, "programs": len(f.ops) * len(orShapes), "argument_vectors": len(orArgVecs)}
}

func (f *opreuseFamily) Run(rts [2]wazero.Runtime, c int, sel *replay, res *chunkRes, verbose bool) {
	var progs []*Prog
	build := func(m *wb.Module) {
		w := orPre(m)
		progs = progs[:0]
		for _, op := range f.ops {
			for _, sh := range orShapes {
				progs = append(progs, f.build(w, op, sh))
			}
		}
	}
	build(&wb.Module{})
	built := append([]*Prog{}, progs...)
	only := -1
	var args []uint64
	if sel != nil {
		only, args = sel.Prog, sel.Args
	}
	if sel == nil {
		res.Samples = append(res.Samples, map[string]any{"family": "opreuse", "program": built[len(built)/2].describe()})
	}
	runStateless(slOpts{fam: "opreuse", tier: f.tier, chunk: c, pre: build, memCompare: true}, rts, built, only, args, res, verbose)
}
