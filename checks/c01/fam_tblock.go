package main

import (
	"fmt"
	"math/bits"
	"strings"

	"github.com/tetratelabs/wazero"
	"github.com/tetratelabs/wazero/verif/wb"
)

// tblock ("typed blocks"): slot-width accounting of multi-value block types. For block / loop / if-with-else /
// if-without-else (params == results) / a typed block nested in a typed if, with block types (by type index) whose
// parameter and result lists range over all lists of length 0..3 over {i32, f64, v128} (so a v128 occupies every
// position among narrower types) plus lists with i64, f32 and funcref. Two live values (an i64 and a v128) sit BELOW
// the block parameters on the operand stack and a local is written before and read after the block, so a mis-modelled
// stack height shows. Every parameter is folded into an accumulator inside the block and every result is derived from
// it; blocks are left by falling through, by br and by br_if carrying the results; loops also take one back edge
// carrying the parameters. Both arms of every if are executed. Oracle: the engines agree AND both equal the value
// the generator computes with its own model of the same steps.

type tbVal struct {
	t      byte
	lo, hi uint64
}

type tbSim struct {
	acc, x, y, cond, l1 uint64
	n                   uint64
	stack               []tbVal
	exit                bool // a br left the current block
}

type tbStep func(s *tbSim)

type tbGen struct {
	a     *wb.Asm
	steps []tbStep
}

const (
	tbX    = 0 // i32
	tbY    = 1 // i64
	tbCond = 2 // i32
	tbAcc  = 3 // i64
	tbL1   = 4 // i64
	tbN    = 5 // i32
	tbTV   = 6 // v128
)

func (g *tbGen) add(f tbStep) { g.steps = append(g.steps, f) }

func (g *tbGen) produce(t byte, site uint64) {
	a := g.a
	switch t {
	case i32:
		a.LocalGet(tbAcc).Op(0xa7).I32Const(int32(uint32(site * 0x01010101))).Op(0x73)
		g.add(func(s *tbSim) { s.push(tbVal{t: i32, lo: uint64(uint32(s.acc) ^ uint32(site*0x01010101))}) })
	case i64:
		a.LocalGet(tbAcc).I64Const(int64(site << 40)).Op(0x7c)
		g.add(func(s *tbSim) { s.push(tbVal{t: i64, lo: s.acc + site<<40}) })
	case f32:
		a.LocalGet(tbAcc).Op(0xa7).I32Const(0x007fffff).Op(0x71).I32Const(0x3f800000).Op(0x72).I32Const(int32(site)).Op(0x73).Op(0xbe)
		g.add(func(s *tbSim) {
			s.push(tbVal{t: f32, lo: uint64((uint32(s.acc)&0x007fffff | 0x3f800000) ^ uint32(site))})
		})
	case f64:
		a.LocalGet(tbAcc).I64Const(0x000fffffffffffff).Op(0x83).I64Const(0x3ff0000000000000).Op(0x84).I64Const(int64(site)).Op(0x85).Op(0xbf)
		g.add(func(s *tbSim) { s.push(tbVal{t: f64, lo: (s.acc&0x000fffffffffffff | 0x3ff0000000000000) ^ site}) })
	case v128:
		k := site * 0x0101010101010101
		a.LocalGet(tbAcc).I64Const(int64(k)).Op(0x85).Simd(18)
		a.LocalGet(tbAcc).I64Const(-1).Op(0x85).I64Const(int64(site)).Op(0x7c).Simd(30).Raw(1)
		g.add(func(s *tbSim) { s.push(tbVal{t: v128, lo: s.acc ^ k, hi: ^s.acc + site}) })
	case funcref:
		a.RefNull(funcref)
		g.add(func(s *tbSim) { s.push(tbVal{t: funcref}) })
	}
}

func (s *tbSim) push(v tbVal) { s.stack = append(s.stack, v) }
func (s *tbSim) pop(t byte) tbVal {
	v := s.stack[len(s.stack)-1]
	if v.t != t {
		panic(fmt.Sprintf("tblock model: popped %s, expected %s", tname(v.t), tname(t)))
	}
	s.stack = s.stack[:len(s.stack)-1]
	return v
}

// absorb pops one value of type t and folds it into the accumulator.
func (g *tbGen) absorb(t byte) {
	a := g.a
	switch t {
	case i32:
		a.Op(0xad)
	case f32:
		a.Op(0xbc).Op(0xad)
	case f64:
		a.Op(0xbd)
	case v128:
		a.LocalTee(tbTV).Simd(29).Raw(0).LocalGet(tbTV).Simd(29).Raw(1).I64Const(1).Op(0x89).Op(0x85)
	case funcref:
		a.RefIsNull().Op(0xad)
	}
	a.LocalGet(tbAcc).I64Const(31).Op(0x7e).Op(0x7c).LocalSet(tbAcc)
	g.add(func(s *tbSim) {
		v := s.pop(t)
		f := v.lo
		switch t {
		case v128:
			f = v.lo ^ bits.RotateLeft64(v.hi, 1)
		case funcref:
			f = 1
		}
		s.acc = s.acc*31 + f
	})
}

func (g *tbGen) absorbAll(ts []byte) {
	for i := len(ts) - 1; i >= 0; i-- {
		g.absorb(ts[i])
	}
}

func (g *tbGen) produceAll(ts []byte, site uint64) {
	for i, t := range ts {
		g.produce(t, site+uint64(i))
	}
}

func (g *tbGen) upd(site uint64) {
	g.a.LocalGet(tbAcc).I64Const(7).Op(0x7e).I64Const(int64(site)).Op(0x7c).LocalSet(tbAcc)
	g.add(func(s *tbSim) { s.acc = s.acc*7 + site })
}

// sub collects the steps emitted by body into a separate list (the wasm is emitted in place).
func (g *tbGen) sub(body func()) []tbStep {
	saved := g.steps
	g.steps = nil
	body()
	out := g.steps
	g.steps = saved
	return out
}

func tbRun(s *tbSim, steps []tbStep) {
	for _, st := range steps {
		if s.exit {
			return
		}
		st(s)
	}
}

var tbKinds = []string{"block", "loop", "if-else", "if-no-else", "if{block}"}
var tbModes = []string{"fallthrough", "br", "br_if", "back-edge"}

func tbLists() [][]byte {
	var out [][]byte
	al := []byte{i32, f64, v128}
	out = append(out, nil)
	for _, a := range al {
		out = append(out, []byte{a})
	}
	for _, a := range al {
		for _, b := range al {
			out = append(out, []byte{a, b})
		}
	}
	for _, a := range al {
		for _, b := range al {
			for _, c := range al {
				out = append(out, []byte{a, b, c})
			}
		}
	}
	out = append(out, []byte{i64}, []byte{f32}, []byte{funcref}, []byte{i64, v128, f32}, []byte{funcref, v128}, []byte{v128, funcref})
	return out
}

type tbDesc struct {
	kind, mode int
	p, r       int // indexes into tbLists
}

type tblockFamily struct {
	tier  string
	lists [][]byte
	descs []tbDesc
}

func newTblockFamily(tier string) *tblockFamily {
	f := &tblockFamily{tier: tier, lists: tbLists()}
	for k, kind := range tbKinds {
		var modes []int
		switch kind {
		case "block", "if-else":
			modes = []int{0, 1, 2}
		case "loop":
			modes = []int{0, 3}
		default:
			modes = []int{0}
		}
		for _, m := range modes {
			for p := range f.lists {
				for r := range f.lists {
					if kind == "if-no-else" && p != r {
						continue
					}
					f.descs = append(f.descs, tbDesc{k, m, p, r})
				}
			}
		}
	}
	return f
}

// exitSeq emits the end of a block body: produce the results and leave according to mode.
func (g *tbGen) exitSeq(mode string, rs []byte, label uint32, site uint64) {
	g.produceAll(rs, site)
	switch mode {
	case "br":
		g.a.Br(label)
		g.add(func(s *tbSim) { s.exit = true })
	case "br_if":
		g.a.LocalGet(tbCond).BrIf(label)
		g.add(func(s *tbSim) {
			if s.cond != 0 {
				s.exit = true
			}
		})
		// not taken: the values are still there
		g.absorbAll(rs)
		g.upd(site + 50)
		g.produceAll(rs, site+60)
	}
}

func (f *tblockFamily) build(m *wb.Module, d tbDesc) *Prog {
	ps, rs := f.lists[d.p], f.lists[d.r]
	kind, mode := tbKinds[d.kind], tbModes[d.mode]
	g := &tbGen{a: &wb.Asm{}}
	a := g.a
	ty := m.Type(ps, rs)
	// prologue: accumulator seeded from the inputs, a local written before and read after the block,
	// two live values below the block parameters
	a.LocalGet(tbY).LocalGet(tbX).Op(0xad).I64Const(-0x61c8864680b583eb).Op(0x7e).Op(0x85).LocalSet(tbAcc)
	g.add(func(s *tbSim) { s.acc = s.y ^ (s.x * 0x9e3779b97f4a7c15) })
	a.LocalGet(tbY).I64Const(0x5a5a5a5a).Op(0x85).LocalSet(tbL1)
	g.add(func(s *tbSim) { s.l1 = s.y ^ 0x5a5a5a5a })
	g.produce(i64, 201)
	g.produce(v128, 202)
	g.produceAll(ps, 10)
	switch kind {
	case "block":
		a.BlockT(ty)
		body := g.sub(func() {
			g.absorbAll(ps)
			g.upd(1)
			g.exitSeq(mode, rs, 0, 20)
		})
		a.End()
		g.add(func(s *tbSim) { tbRun(s, body); s.exit = false })
	case "loop":
		a.LoopT(ty)
		body := g.sub(func() {
			g.absorbAll(ps)
			g.upd(2)
			if mode == "back-edge" {
				a.LocalGet(tbN).Op(0x45).If(wb.Void).I32Const(1).LocalSet(tbN)
				again := g.sub(func() { g.produceAll(ps, 30) })
				a.Br(1).End()
				g.add(func(s *tbSim) {
					if s.n == 0 {
						s.n = 1
						tbRun(s, again)
						s.exit = true // restart the loop body
					}
				})
			}
			g.produceAll(rs, 20)
		})
		a.End()
		g.add(func(s *tbSim) {
			tbRun(s, body)
			if s.exit {
				s.exit = false
				tbRun(s, body)
			}
		})
	case "if-else":
		a.LocalGet(tbCond).IfT(ty)
		thenS := g.sub(func() {
			g.absorbAll(ps)
			g.upd(3)
			// br_if inside the then arm would need cond != 0, which is always true here: use y's low bit instead
			if mode == "br_if" {
				g.produceAll(rs, 20)
				a.LocalGet(tbY).Op(0xa7).I32Const(1).Op(0x71).BrIf(0)
				g.add(func(s *tbSim) {
					if s.y&1 != 0 {
						s.exit = true
					}
				})
				g.absorbAll(rs)
				g.upd(70)
				g.produceAll(rs, 80)
			} else {
				g.exitSeq(mode, rs, 0, 20)
			}
		})
		a.Else()
		elseS := g.sub(func() {
			g.absorbAll(ps)
			g.upd(4)
			g.upd(5)
			g.produceAll(rs, 40)
		})
		a.End()
		g.add(func(s *tbSim) {
			if s.cond != 0 {
				tbRun(s, thenS)
			} else {
				tbRun(s, elseS)
			}
			s.exit = false
		})
	case "if-no-else":
		a.LocalGet(tbCond).IfT(ty)
		thenS := g.sub(func() {
			g.absorbAll(ps)
			g.upd(6)
			g.produceAll(rs, 20)
		})
		a.End()
		g.add(func(s *tbSim) {
			if s.cond != 0 {
				tbRun(s, thenS)
			}
		})
	case "if{block}":
		a.LocalGet(tbCond).IfT(ty)
		thenS := g.sub(func() {
			a.BlockT(ty) // the if's parameters are handed on as the inner block's parameters
			g.absorbAll(ps)
			g.upd(7)
			g.produceAll(rs, 20)
			a.End()
			g.absorbAll(rs)
			g.upd(8)
			g.produceAll(rs, 90)
		})
		a.Else()
		elseS := g.sub(func() {
			g.absorbAll(ps)
			g.upd(9)
			g.produceAll(rs, 40)
		})
		a.End()
		g.add(func(s *tbSim) {
			if s.cond != 0 {
				tbRun(s, thenS)
			} else {
				tbRun(s, elseS)
			}
		})
	}
	// epilogue: results, then the two values that lived below the parameters, then the local
	g.absorbAll(rs)
	g.absorb(v128)
	g.absorb(i64)
	a.LocalGet(tbAcc).LocalGet(tbL1).Op(0x85)
	g.add(func(s *tbSim) { s.acc ^= s.l1 })
	steps := g.steps
	p := &Prog{Params: []byte{i32, i64, i32}, Results: []byte{i64}, Locals: []byte{i64, i64, i32, v128}, Body: a.B, ResTaint: []taint{clean}}
	p.Desc = fmt.Sprintf("%s %s->%s leave=%s", kind, tnames(ps), tnames(rs), mode)
	p.SigOps = fmt.Sprintf("%s/%s/%s->%s", kind, mode, strings.Trim(tnames(ps), "()"), strings.Trim(tnames(rs), "()"))
	p.ArgVecs = [][]uint64{{0x1234567, 0x0123456789abcdef, 0}, {0x1234567, 0x0123456789abcdef, 1}, {0xffffffff, 0xfedcba9876543210, 1}}
	p.Expect = func(args, _ []uint64) []uint64 {
		s := &tbSim{x: uint64(uint32(args[0])), y: args[1], cond: uint64(uint32(args[2]))}
		tbRun(s, steps)
		if len(s.stack) != 0 {
			panic("tblock model: values left on the stack")
		}
		return []uint64{s.acc}
	}
	return p
}

func (f *tblockFamily) Name() string { return "tblock" }
func (f *tblockFamily) Chunks() int  { return (len(f.descs) + batchSize - 1) / batchSize }
func (f *tblockFamily) Bounds() map[string]any {
	var ls []string
	for _, l := range f.lists {
		ls = append(ls, tnames(l))
	}
	return map[string]any{"kinds": tbKinds, "leave_modes": tbModes, "type_lists": ls, "programs": len(f.descs), "argument_vectors": 3}
}

func (f *tblockFamily) Run(rts [2]wazero.Runtime, c int, sel *replay, res *chunkRes, verbose bool) {
	lo := c * batchSize
	hi := lo + batchSize
	if hi > len(f.descs) {
		hi = len(f.descs)
	}
	var progs []*Prog
	build := func(m *wb.Module) {
		progs = progs[:0]
		for _, d := range f.descs[lo:hi] {
			progs = append(progs, f.build(m, d))
		}
	}
	build(&wb.Module{})
	built := append([]*Prog{}, progs...)
	only := -1
	var args []uint64
	if sel != nil {
		only, args = sel.Prog, sel.Args
	}
	if sel == nil {
		res.Samples = append(res.Samples, map[string]any{"family": "tblock", "chunk": c, "program": built[len(built)/2].describe()})
	}
	runStateless(slOpts{fam: "tblock", tier: f.tier, chunk: c, pre: build}, rts, built, only, args, res, verbose)
}
