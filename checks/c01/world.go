package main

import (
	"bytes"
	"context"
	"fmt"
	"math"

	"github.com/tetratelabs/wazero"
	"github.com/tetratelabs/wazero/api"
	"github.com/tetratelabs/wazero/internal/wasm"
	"github.com/tetratelabs/wazero/verif/wb"
)

// The world shared by the stateful families: one linear memory (1..3 pages) with active and passive data,
// globals of every value type, three tables with active/passive/declarative element segments, imported
// host functions that log their arguments, and a set of guest callees with side effects.

const (
	v128    = wb.V128
	funcref = wb.FuncRef
	extref  = wb.ExternRef
)

type hostCall struct {
	Name string
	Args []uint64
}

// hostLog is owned by one engine's runtime; reset before every history.
type hostLog struct {
	calls []hostCall
}

func (l *hostLog) String() string {
	var b bytes.Buffer
	for _, c := range l.calls {
		fmt.Fprintf(&b, "%s%x;", c.Name, c.Args)
	}
	return b.String()
}

// memoryOf returns the module's memory or nil. When the embedder calls a re-exported host function directly the
// module handed to the host function is the host module itself, which has no memory (a typed nil inside the interface).
func memoryOf(mod api.Module) api.Memory {
	mem := mod.Memory()
	if mi, ok := mem.(*wasm.MemoryInstance); ok && mi == nil {
		return nil
	}
	return mem
}

func instantiateHost(rt wazero.Runtime, log *hostLog) {
	// Arguments are recorded as values of their declared types: the upper half of the 64-bit slot of an i32/f32
	// parameter is not part of the value (api.DecodeU32 and friends drop it).
	rec := func(name string, stack []uint64, types ...byte) {
		args := make([]uint64, len(types))
		for i, t := range types {
			args[i] = stack[i]
			if t == i32 || t == f32 {
				args[i] = uint64(uint32(stack[i]))
			}
		}
		log.calls = append(log.calls, hostCall{name, args})
	}
	b := rt.NewHostModuleBuilder("env")
	b.NewFunctionBuilder().WithGoModuleFunction(api.GoModuleFunc(func(ctx context.Context, mod api.Module, stack []uint64) {
		rec("h_log", stack, i32)
		stack[0] = uint64(uint32(stack[0])*3 + 1)
	}), []api.ValueType{api.ValueTypeI32}, []api.ValueType{api.ValueTypeI32}).Export("h_log")
	b.NewFunctionBuilder().WithGoModuleFunction(api.GoModuleFunc(func(ctx context.Context, mod api.Module, stack []uint64) {
		rec("h_mix", stack, i32, i64, f32, f64)
		stack[0] = uint64(uint32(stack[0])) + stack[1]*3 + uint64(uint32(stack[2]))*5 + stack[3]*7
	}), []api.ValueType{api.ValueTypeI32, api.ValueTypeI64, api.ValueTypeF32, api.ValueTypeF64}, []api.ValueType{api.ValueTypeI64}).Export("h_mix")
	b.NewFunctionBuilder().WithGoModuleFunction(api.GoModuleFunc(func(ctx context.Context, mod api.Module, stack []uint64) {
		rec("h_grow", stack)
		prev, ok := uint32(math.MaxUint32), false
		if mem := memoryOf(mod); mem != nil {
			prev, ok = mem.Grow(1)
		}
		if !ok {
			prev = math.MaxUint32
		}
		stack[0] = uint64(prev)
	}), nil, []api.ValueType{api.ValueTypeI32}).Export("h_grow")
	b.NewFunctionBuilder().WithGoModuleFunction(api.GoModuleFunc(func(ctx context.Context, mod api.Module, stack []uint64) {
		rec("h_poke", stack, i32)
		ok := false
		if mem := memoryOf(mod); mem != nil {
			ok = mem.WriteByte(uint32(stack[0]), 0xab)
		}
		stack[0] = 0
		if ok {
			stack[0] = 1
		}
	}), []api.ValueType{api.ValueTypeI32}, []api.ValueType{api.ValueTypeI32}).Export("h_poke")
	b.NewFunctionBuilder().WithGoModuleFunction(api.GoModuleFunc(func(ctx context.Context, mod api.Module, stack []uint64) {
		rec("h_mv", stack, i64)
		x := stack[0]
		stack[0] = x ^ 0x5555555555555555
		stack[1] = uint64(uint32(x>>32) + uint32(x))
	}), []api.ValueType{api.ValueTypeI64}, []api.ValueType{api.ValueTypeI64, api.ValueTypeI32}).Export("h_mv")
	if _, err := b.Instantiate(bg); err != nil {
		panic(fmt.Sprintf("host module: %v", err))
	}
}

// world holds the indexes of everything a stateful op may refer to.
type world struct {
	m *wb.Module
	// imported host functions
	hLog, hMix, hGrow, hPoke, hMv uint32
	// guest callees
	cId, cGrow, cSize, cSetg, cTrap, cTset, cMv, cRec, cHost, cTgrow uint32
	// types
	tVoidI32 uint32 // ()->i32, the call_indirect type
	// globals
	gI32, gI64, gF32, gF64, gV128, gConst, gFunc, gExt uint32
	// segments
	dataPassive, elemPassive uint32
	shared                   bool
}

const (
	dataPassiveLen = 16
	pageSize       = 65536
)

// newWorld creates the module skeleton; exported programs are added afterwards.
func newWorld(shared bool) *world {
	m := &wb.Module{}
	w := &world{m: m, shared: shared}
	w.hLog = m.ImportFunc("env", "h_log", []byte{i32}, []byte{i32})
	w.hMix = m.ImportFunc("env", "h_mix", []byte{i32, i64, f32, f64}, []byte{i64})
	w.hGrow = m.ImportFunc("env", "h_grow", nil, []byte{i32})
	w.hPoke = m.ImportFunc("env", "h_poke", []byte{i32}, []byte{i32})
	w.hMv = m.ImportFunc("env", "h_mv", []byte{i64}, []byte{i64, i32})
	w.tVoidI32 = m.Type(nil, []byte{i32})
	m.Mem = &wb.Limits{Min: 1, Max: 3, HasMax: true, Shared: shared}
	w.gI32 = m.AddGlobal(i32, true, wb.CI32(0x11))
	w.gI64 = m.AddGlobal(i64, true, wb.CI64(0x2222222233333333))
	w.gF32 = m.AddGlobal(f32, true, wb.CF32(0x3fc00000))
	w.gF64 = m.AddGlobal(f64, true, wb.CF64(0xc002000000000000))
	w.gV128 = m.AddGlobal(v128, true, wb.CV128(0x0807060504030201, 0x100f0e0d0c0b0a09))
	w.gConst = m.AddGlobal(i32, false, wb.CI32(7))
	w.gFunc = m.AddGlobal(funcref, true, wb.CRefNull(funcref))
	w.gExt = m.AddGlobal(extref, true, wb.CRefNull(extref))

	// callees
	w.cId = m.AddFunc([]byte{i32}, []byte{i32}, nil, (&wb.Asm{}).LocalGet(0).I32Const(1).Op(0x6a).B)
	w.cGrow = m.AddFunc(nil, []byte{i32}, nil, (&wb.Asm{}).I32Const(1).MemoryGrow().B)
	w.cSize = m.AddFunc(nil, []byte{i32}, nil, (&wb.Asm{}).MemorySize().B)
	w.cSetg = m.AddFunc(nil, []byte{i32}, nil, (&wb.Asm{}).GlobalGet(w.gI32).I32Const(2).Op(0x6c).I32Const(1).Op(0x6a).GlobalSet(w.gI32).GlobalGet(w.gI32).B)
	w.cTrap = m.AddFunc(nil, []byte{i32}, nil, (&wb.Asm{}).Unreachable().B)
	w.cTset = m.AddFunc(nil, []byte{i32}, nil, (&wb.Asm{}).I32Const(4).RefFunc(w.cId).TableSet(0).I32Const(1).B)
	w.cMv = m.AddFunc([]byte{i32, i64}, []byte{i64, i32}, nil, (&wb.Asm{}).LocalGet(1).I64Const(3).Op(0x7e).LocalGet(0).I32Const(0x55).Op(0x73).B)
	// c_rec(n) = n==0 ? 0 : 1 + c_rec(n-1)
	cRecIdx := m.NumImportedFuncs() + uint32(len(m.Funcs))
	w.cRec = m.AddFunc([]byte{i32}, []byte{i32}, nil, (&wb.Asm{}).LocalGet(0).Op(0x45).If(i32).I32Const(0).Else().
		LocalGet(0).I32Const(1).Op(0x6b).Call(cRecIdx).I32Const(1).Op(0x6a).End().B)
	w.cHost = m.AddFunc(nil, []byte{i32}, nil, (&wb.Asm{}).I32Const(5).Call(w.hLog).B)
	w.cTgrow = m.AddFunc(nil, []byte{i32}, nil, (&wb.Asm{}).RefNull(funcref).I32Const(1).TableGrow(0).B)

	m.Tables = []wb.Table{
		{Elem: funcref, Lim: wb.Limits{Min: 6, Max: 8, HasMax: true}},
		{Elem: funcref, Lim: wb.Limits{Min: 2, Max: 4, HasMax: true}},
		{Elem: extref, Lim: wb.Limits{Min: 2, Max: 3, HasMax: true}},
	}
	m.Elems = []wb.Elem{
		{Mode: 0, TableIdx: 0, Offset: wb.CI32(0), Funcs: []uint32{w.cId, w.cGrow, w.cSize, w.cSetg}},
		{Mode: 1, Funcs: []uint32{w.cSize, 0, w.cTrap}, NullAt: map[int]bool{1: true}},
		{Mode: 2, Funcs: []uint32{w.cId, w.cGrow, w.cSize, w.cSetg, w.cTrap, w.cTset}},
	}
	w.elemPassive = 1
	act := make([]byte, 64)
	for i := range act {
		act[i] = byte(i*7 + 1)
	}
	pas := make([]byte, dataPassiveLen)
	for i := range pas {
		pas[i] = byte(0xd0 + i)
	}
	m.Datas = []wb.Data{
		{Offset: wb.CI32(0), Bytes: act},
		{Passive: true, Bytes: pas},
		{Offset: wb.CI32(pageSize - 8), Bytes: []byte{0xe1, 0xe2, 0xe3, 0xe4, 0xe5, 0xe6, 0xe7, 0xe8}},
	}
	w.dataPassive = 1
	m.DataCount = true
	return w
}

// snapshot is the canonical observable state of an instance.
type snapshot struct {
	memPages uint32
	mem      []byte // view, not a copy
	globals  []uint64
	tables   [][]int64 // per table: -1 null, function index, or (externref) the raw value
}

func takeSnapshot(mod api.Module) (s snapshot, err string) {
	mi, ok := mod.(*wasm.ModuleInstance)
	if !ok {
		return s, fmt.Sprintf("unexpected module type %T", mod)
	}
	if mem := mod.Memory(); mem != nil {
		sz := mem.Size()
		s.memPages = sz / pageSize
		if sz > 0 {
			s.mem, _ = mem.Read(0, sz)
		}
	}
	// Resolve a function reference to (owner, function index) through the engine's own table lookup. References are
	// engine-specific pointers, so the resolved identity is what is compared.
	probe := wasm.TableInstance{References: make([]wasm.Reference, 1), Type: wasm.RefTypeFuncref}
	lookup := func(r wasm.Reference, tid wasm.FunctionTypeID) (id int64, ok bool) {
		defer func() {
			if recover() != nil {
				ok = false
			}
		}()
		probe.References[0] = r
		owner, idx := mi.Engine.LookupFunction(&probe, tid, 0)
		if owner == mi {
			return int64(idx), true
		}
		return 1000 + int64(idx), true
	}
	refIdx := func(r wasm.Reference) int64 {
		if r == 0 {
			return -1
		}
		for _, tid := range mi.TypeIDs {
			if id, ok := lookup(r, tid); ok {
				return id
			}
		}
		return -2 // unresolvable
	}
	for _, g := range mi.Globals {
		lo, hi := g.Value()
		switch g.Type.ValType {
		case wasm.ValueTypeI32, wasm.ValueTypeF32:
			s.globals = append(s.globals, uint64(uint32(lo)))
		case wasm.ValueTypeV128:
			s.globals = append(s.globals, lo, hi)
		case wasm.ValueTypeFuncref:
			s.globals = append(s.globals, uint64(refIdx(wasm.Reference(lo))))
		default:
			s.globals = append(s.globals, lo)
		}
	}
	for _, t := range mi.Tables {
		row := make([]int64, len(t.References))
		for i, r := range t.References {
			if t.Type == wasm.RefTypeFuncref {
				row[i] = refIdx(r)
			} else {
				row[i] = int64(r)
			}
		}
		s.tables = append(s.tables, row)
	}
	return s, ""
}

func (a *snapshot) diff(b *snapshot) string {
	if a.memPages != b.memPages {
		return fmt.Sprintf("memory size differs: compiler=%d pages interpreter=%d pages", a.memPages, b.memPages)
	}
	if !bytes.Equal(a.mem, b.mem) {
		for i := range a.mem {
			if a.mem[i] != b.mem[i] {
				return fmt.Sprintf("memory differs at byte %d: compiler=0x%02x interpreter=0x%02x", i, a.mem[i], b.mem[i])
			}
		}
	}
	if len(a.globals) != len(b.globals) {
		return "number of globals differs"
	}
	for i := range a.globals {
		if a.globals[i] != b.globals[i] {
			return fmt.Sprintf("global slot %d differs: compiler=0x%x interpreter=0x%x", i, a.globals[i], b.globals[i])
		}
	}
	if len(a.tables) != len(b.tables) {
		return "number of tables differs"
	}
	for t := range a.tables {
		if len(a.tables[t]) != len(b.tables[t]) {
			return fmt.Sprintf("table %d size differs: compiler=%d interpreter=%d", t, len(a.tables[t]), len(b.tables[t]))
		}
		for i := range a.tables[t] {
			if a.tables[t][i] != b.tables[t][i] {
				return fmt.Sprintf("table %d slot %d differs: compiler=%d interpreter=%d (-1 = null, else function index)", t, i, a.tables[t][i], b.tables[t][i])
			}
		}
	}
	return ""
}

// digest folds a snapshot into a short string used for non-triviality accounting.
func (a *snapshot) digest() uint64 {
	h := uint64(1469598103934665603)
	mix := func(v uint64) {
		h ^= v
		h *= 1099511628211
	}
	mix(uint64(a.memPages))
	// memory is mostly zero: hash 8 bytes at a time
	for i := 0; i+8 <= len(a.mem); i += 8 {
		v := uint64(a.mem[i]) | uint64(a.mem[i+1])<<8 | uint64(a.mem[i+2])<<16 | uint64(a.mem[i+3])<<24 |
			uint64(a.mem[i+4])<<32 | uint64(a.mem[i+5])<<40 | uint64(a.mem[i+6])<<48 | uint64(a.mem[i+7])<<56
		if v != 0 {
			mix(uint64(i))
			mix(v)
		}
	}
	for _, g := range a.globals {
		mix(g)
	}
	for _, t := range a.tables {
		mix(uint64(len(t)))
		for _, r := range t {
			mix(uint64(r))
		}
	}
	return h
}
