package main

func moreFamilies(tier string) []family {
	fams := []family{newCfgFamily(tier)}
	fams = append(fams, stateFamilies(tier)...)
	fams = append(fams, newPressFamily(tier), newSimdFamily(tier), newAtomFamily(tier), newMoFamily(tier, false), newCfgmemFamily(tier), newTailcallFamily(tier), newTcchainFamily(tier), newXmodFamily(tier), newTblockFamily(tier), newOpreuseFamily(tier), newCondfuseFamily(tier), &reexportFamily{tier})
	if tier == "thorough" {
		fams = append(fams, newMoFamily(tier, true))
	}
	return fams
}
