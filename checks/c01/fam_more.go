package main

func moreFamilies(tier string) []family {
	fams := []family{newCfgFamily(tier)}
	fams = append(fams, stateFamilies(tier)...)
	fams = append(fams, newPressFamily(tier), newSimdFamily(tier), newAtomFamily(tier), &reexportFamily{tier})
	return fams
}
