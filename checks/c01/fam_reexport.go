package main

import (
	"fmt"
	"strings"

	"github.com/tetratelabs/wazero"
	"github.com/tetratelabs/wazero/api"
)

// reexport: a valid module may export a function it imports. Every imported host function of the world is
// exported directly (no guest wrapper) and called from the embedder with every boundary argument vector.

type reexportFamily struct{ tier string }

func (f *reexportFamily) Name() string { return "reexport" }
func (f *reexportFamily) Chunks() int  { return 1 }
func (f *reexportFamily) Bounds() map[string]any {
	return map[string]any{"exports": []string{"h_log", "h_mix", "h_grow", "h_poke", "h_mv"}, "arguments": "full product of the boundary alphabets (two-deviation set for h_mix)"}
}

func (f *reexportFamily) Run(rts [2]wazero.Runtime, c int, sel *replay, res *chunkRes, verbose bool) {
	w := newWorld(false)
	type ex struct {
		name    string
		idx     uint32
		params  []byte
		results []byte
	}
	exs := []ex{
		{"h_log", w.hLog, []byte{i32}, []byte{i32}},
		{"h_mix", w.hMix, []byte{i32, i64, f32, f64}, []byte{i64}},
		{"h_grow", w.hGrow, nil, []byte{i32}},
		{"h_poke", w.hPoke, []byte{i32}, []byte{i32}},
		{"h_mv", w.hMv, []byte{i64}, []byte{i64, i32}},
	}
	for _, e := range exs {
		w.m.ExportFunc(e.name, e.idx)
	}
	r := runnerFor(rts)
	tw, cls := compileBoth(rts, w.m.Encode())
	defer tw.close()
	if cls[0] != "ok" || cls[1] != "ok" {
		res.Err = fmt.Sprintf("reexport: compile: %v", cls)
		return
	}
	for pi, e := range exs {
		if sel != nil && sel.Prog >= 0 && sel.Prog != pi {
			continue
		}
		res.Progs++
		p := &Prog{Params: e.params, Uses: make([]bool, len(e.params))}
		for i := range p.Uses {
			p.Uses[i] = true
		}
		vecs, _ := p.argVectors(512)
		if sel != nil && sel.Args != nil {
			vecs = [][]uint64{sel.Args}
		}
		for _, v := range vecs {
			var mods [2]api.Module
			for en := 0; en < 2; en++ {
				mod, err := rts[en].InstantiateModule(bg, tw.code[en], modCfg)
				if err != nil {
					res.Err = fmt.Sprintf("reexport: instantiate: %v", err)
					return
				}
				mods[en] = mod
				r.logs[en].calls = r.logs[en].calls[:0]
			}
			res.Hists++
			res.Calls++
			var out [2]string
			var vals [2][4]uint64
			for en := 0; en < 2; en++ {
				func() {
					defer func() {
						if rec := recover(); rec != nil {
							s := fmt.Sprint(rec)
							if len(s) > 100 {
								s = s[:100]
							}
							out[en] = "panic:" + s
						}
					}()
					fn := mods[en].ExportedFunction(e.name)
					copy(vals[en][:], v)
					out[en] = trapClass(fn.CallWithStack(bg, vals[en][:]))
				}()
			}
			bad := ""
			kind := ""
			switch {
			case out[0] != out[1]:
				bad = fmt.Sprintf("outcome differs: compiler=%s interpreter=%s", out[0], out[1])
				kind = "trap"
				if strings.HasPrefix(out[0], "panic:") && out[1] == "ok" {
					kind = "compiler-panics"
				}
			case out[0] != "ok":
				bad = "both engines fail: " + out[0]
				kind = "both-fail"
			default:
				nr := nslots(e.results)
				if why, _ := valuesAgree(e.results, nil, vals[0][:nr], vals[1][:nr]); why != "" {
					bad = fmt.Sprintf("%s: compiler=%s interpreter=%s", why, fmtVals(e.results, vals[0][:nr]), fmtVals(e.results, vals[1][:nr]))
					kind = "result"
				} else if la, lb := r.logs[0].String(), r.logs[1].String(); la != lb {
					bad = fmt.Sprintf("host-call log differs: compiler=%q interpreter=%q", la, lb)
					kind = "hostlog"
				} else {
					s0, _ := takeSnapshot(mods[0])
					s1, _ := takeSnapshot(mods[1])
					if d := s0.diff(&s1); d != "" {
						bad, kind = "final state differs: "+d, "state"
					}
				}
			}
			if verbose {
				fmt.Printf("  export %s args=%s: compiler=%s interpreter=%s\n", e.name, fmtVals(e.params, v), out[0], out[1])
			}
			res.inc(out[1])
			mods[0].Close(bg)
			mods[1].Close(bg)
			if bad != "" {
				res.mismatch(mismatch{
					Sig:    "reexport:exported-host-import:" + kind,
					What:   fmt.Sprintf("calling export %q (a directly re-exported imported host function) args=%s: %s", e.name, fmtVals(e.params, v), bad),
					Replay: replay{Tier: f.tier, Family: "reexport", Chunk: 0, Prog: pi, Args: v},
				})
				if kind != "compiler-panics" {
					break
				}
				continue
			}
			res.nontrivial(uint64(pi)<<32 ^ v0(v))
		}
	}
}

func v0(v []uint64) uint64 {
	h := uint64(14695981039346656037)
	for _, x := range v {
		h = (h ^ x) * 1099511628211
	}
	return h
}
