package main

import (
	"fmt"

	"github.com/tetratelabs/wazero"
	"github.com/tetratelabs/wazero/verif/wb"
)

// pressure(k): k simultaneously live values of mixed types are kept alive (in locals, or on the operand stack)
// across something that clobbers registers — a direct call, an indirect call, a host call, memory.grow, a loop
// back edge, a loop containing a call — and are then all returned (multi-value), so a lost, swapped or truncated
// value is visible individually. manyargs(k): k parameters and k results of mixed types are passed through a
// direct call, an indirect call and a tail call (stack-passed arguments and results).

var pressPatterns = []struct {
	name  string
	types []byte
}{
	{"i32", []byte{i32}}, {"i64", []byte{i64}}, {"f32", []byte{f32}}, {"f64", []byte{f64}}, {"v128", []byte{v128}},
	{"mix0", []byte{i32, i64, f32, f64, v128}}, {"mix1", []byte{i64, f32, f64, v128, i32}}, {"mix2", []byte{f32, f64, v128, i32, i64}},
	{"mix3", []byte{f64, v128, i32, i64, f32}}, {"mix4", []byte{v128, i32, i64, f32, f64}},
}

var pressCross = []string{"call", "call_indirect", "host", "memory.grow", "loop", "loop+call"}
var pressHold = []string{"locals", "stack"}
var manyVariants = []string{"call", "call_indirect", "return_call"}

type pressWorld struct {
	hLog, clobber uint32
	tClobber      uint32
}

func pressPre(m *wb.Module) *pressWorld {
	w := &pressWorld{}
	w.hLog = m.ImportFunc("env", "h_log", []byte{i32}, []byte{i32})
	m.Mem = &wb.Limits{Min: 1, Max: 2, HasMax: true}
	// clobber(x): uses many integer, float and vector temporaries so that every allocatable register is written
	a := &wb.Asm{}
	nl := 12
	var locals []byte
	for i := 0; i < nl; i++ {
		locals = append(locals, i32, i64, f32, f64, v128)
	}
	for i := 0; i < nl; i++ {
		b := uint32(1 + i*5)
		a.LocalGet(0).I32Const(int32(i + 1)).Op(0x6c).LocalSet(b)
		a.LocalGet(0).Op(0xad).I64Const(int64(i + 7)).Op(0x7e).LocalSet(b + 1)
		a.LocalGet(0).Op(0xb2).F32Const(wb.F32Bits(float32(i) + 0.5)).Op(0x92).LocalSet(b + 2)
		a.LocalGet(0).Op(0xb7).F64Const(wb.F64Bits(float64(i) + 0.25)).Op(0xa0).LocalSet(b + 3)
		a.LocalGet(0).Simd(17).LocalSet(b + 4) // i32x4.splat
	}
	a.I32Const(0)
	for i := 0; i < nl; i++ {
		b := uint32(1 + i*5)
		a.LocalGet(b).Op(0x6a)
		a.LocalGet(b + 1).Op(0xa7).Op(0x6a)
		a.LocalGet(b + 2).Op(0xbc).Op(0x6a)
		a.LocalGet(b + 3).Op(0xbd).Op(0xa7).Op(0x6a)
		a.LocalGet(b + 4).Simd(27).Raw(2).Op(0x6a) // i32x4.extract_lane 2
	}
	w.clobber = m.AddFunc([]byte{i32}, []byte{i32}, locals, a.B)
	w.tClobber = m.Type([]byte{i32}, []byte{i32})
	m.Tables = []wb.Table{{Elem: funcref, Lim: wb.Limits{Min: 2}}}
	m.Elems = []wb.Elem{{Mode: 0, Offset: wb.CI32(0), Funcs: []uint32{w.clobber}}}
	return w
}

func pressTypes(pat, k int) []byte {
	ts := make([]byte, k)
	p := pressPatterns[pat].types
	for j := range ts {
		ts[j] = p[j%len(p)]
	}
	return ts
}

// define pushes value j of type t computed from the parameters a (local 0, i32) and b (local 1, i64).
func pressDefine(a *wb.Asm, t byte, j int) {
	switch t {
	case i32:
		a.LocalGet(0).I32Const(int32(0x01010101 * (j + 1))).Op(0x6a)
	case i64:
		a.LocalGet(1).I64Const(int64(0x0102030405060708) * int64(j+1)).Op(0x85)
	case f32:
		a.LocalGet(0).I32Const(int32(j + 1)).Op(0x6a).Op(0xb2)
	case f64:
		a.LocalGet(1).I64Const(int64(j + 1)).Op(0x7c).Op(0xb9)
	case v128:
		a.LocalGet(1).I64Const(int64(j + 1)).Op(0x7c).Simd(18).LocalGet(0).Simd(28).Raw(1) // i64x2.splat ; i32x4.replace_lane 1
	}
}

func pressBump(a *wb.Asm, t byte) {
	switch t {
	case i32:
		a.I32Const(1).Op(0x6a)
	case i64:
		a.I64Const(3).Op(0x7c)
	case f32:
		a.F32Const(0x3f800000).Op(0x92)
	case f64:
		a.F64Const(0x3ff0000000000000).Op(0xa0)
	case v128:
		a.V128Const(1, 2).Simd(206) // i64x2.add
	}
}

func pressCrossing(a *wb.Asm, w *pressWorld, cross string) {
	switch cross {
	case "call":
		a.LocalGet(0).Call(w.clobber).Drop()
	case "call_indirect":
		a.LocalGet(0).I32Const(0).CallIndirect(w.tClobber, 0).Drop()
	case "host":
		a.LocalGet(0).Call(w.hLog).Drop()
	case "memory.grow":
		a.I32Const(0).MemoryGrow().Drop()
	}
}

func buildPressure(m *wb.Module, w *pressWorld, pat, k int, hold, cross string) *Prog {
	ts := pressTypes(pat, k)
	a := &wb.Asm{}
	// locals: 0 a, 1 b, 2 counter, 3.. values
	locals := append([]byte{i32}, ts...)
	val := func(j int) uint32 { return uint32(3 + j) }
	isLoop := cross == "loop" || cross == "loop+call"
	switch hold {
	case "locals":
		for j, t := range ts {
			pressDefine(a, t, j)
			a.LocalSet(val(j))
		}
		if isLoop {
			a.I32Const(3).LocalSet(2)
			a.Loop(wb.Void)
			for j, t := range ts {
				a.LocalGet(val(j))
				pressBump(a, t)
				a.LocalSet(val(j))
			}
			if cross == "loop+call" {
				a.LocalGet(2).Call(w.clobber).Drop()
			}
			a.LocalGet(2).I32Const(1).Op(0x6b).LocalTee(2).BrIf(0)
			a.End()
		} else {
			pressCrossing(a, w, cross)
		}
		for j := range ts {
			a.LocalGet(val(j))
		}
	case "stack":
		for j, t := range ts {
			pressDefine(a, t, j)
		}
		if isLoop {
			// the k values travel as loop parameters over the back edge
			a.I32Const(3).LocalSet(2)
			a.LoopT(m.Type(ts, ts))
			if cross == "loop+call" {
				a.LocalGet(2).Call(w.clobber).Drop()
			}
			pressBump(a, ts[k-1]) // the top value changes every iteration
			a.LocalGet(2).I32Const(1).Op(0x6b).LocalTee(2).BrIf(0)
			a.End()
		} else {
			pressCrossing(a, w, cross)
		}
	}
	p := &Prog{Params: []byte{i32, i64}, Results: ts, Locals: locals, Body: a.B}
	p.ResTaint = make([]taint, k)
	p.Desc = fmt.Sprintf("pressure k=%d types=%s hold=%s across=%s", k, pressPatterns[pat].name, hold, cross)
	p.SigOps = fmt.Sprintf("k%d/%s/%s/%s", k, pressPatterns[pat].name, hold, cross)
	for _, x := range []uint64{0, 1, 0x7fffffff, 0xffffffff} {
		for _, y := range []uint64{0, 0x8000000000000001, 0x00000000ffffffff} {
			p.ArgVecs = append(p.ArgVecs, []uint64{x, y})
		}
	}
	return p
}

// manyargs: exported f(p1..pk) passes everything to inner g, which returns its parameters reversed.
func buildManyArgs(pat, k int, variant string) (p *Prog, innerBody []byte, rev []byte) {
	ts := pressTypes(pat, k)
	rev = make([]byte, k)
	for j := range ts {
		rev[j] = ts[k-1-j]
	}
	g := &wb.Asm{}
	for j := k - 1; j >= 0; j-- {
		g.LocalGet(uint32(j))
		switch ts[j] { // arguments may be NaNs: only bit-exact operators here
		case f32:
			g.Op(0x8c) // f32.neg
		case f64:
			g.Op(0x9a) // f64.neg
		default:
			pressBump(g, ts[j])
		}
	}
	p = &Prog{Params: ts, Results: rev, ResTaint: make([]taint, k)}
	p.Desc = fmt.Sprintf("manyargs k=%d types=%s via=%s", k, pressPatterns[pat].name, variant)
	p.SigOps = fmt.Sprintf("manyargs/k%d/%s/%s", k, pressPatterns[pat].name, variant)
	// argument vectors: parameter j takes alphabet entry (j+s) mod len, for a few shifts s
	for s := 0; s < 6; s++ {
		var v []uint64
		for j, t := range ts {
			if t == v128 {
				al := i64Alpha
				v = append(v, al[(j+s)%len(al)], al[(j+2*s+1)%len(al)])
			} else {
				al := alphaOf(t)
				v = append(v, al[(j+s)%len(al)])
			}
		}
		p.ArgVecs = append(p.ArgVecs, v)
	}
	return p, g.B, rev
}

type pressFamily struct {
	tier  string
	items []pressItem
}

type pressItem struct {
	many    bool
	pat, k  int
	hold    string
	cross   string
	variant string
}

func newPressFamily(tier string) *pressFamily {
	f := &pressFamily{tier: tier}
	ks := []int{1, 2, 6, 7, 8, 9, 12, 16, 17, 24}
	if tier == "thorough" {
		ks = nil
		for k := 1; k <= 24; k++ {
			ks = append(ks, k)
		}
	}
	for _, k := range ks {
		for pat := range pressPatterns {
			for _, h := range pressHold {
				for _, c := range pressCross {
					f.items = append(f.items, pressItem{pat: pat, k: k, hold: h, cross: c})
				}
			}
			for _, v := range manyVariants {
				f.items = append(f.items, pressItem{many: true, pat: pat, k: k, variant: v})
			}
		}
	}
	return f
}

const pressBatch = 150

func (f *pressFamily) Name() string { return "pressure" }
func (f *pressFamily) Chunks() int  { return (len(f.items) + pressBatch - 1) / pressBatch }
func (f *pressFamily) Bounds() map[string]any {
	ks := map[int]bool{}
	for _, it := range f.items {
		ks[it.k] = true
	}
	var kl []int
	for k := 1; k <= 24; k++ {
		if ks[k] {
			kl = append(kl, k)
		}
	}
	var pats []string
	for _, p := range pressPatterns {
		pats = append(pats, p.name)
	}
	return map[string]any{"k": kl, "type_patterns": pats, "hold": pressHold, "across": pressCross, "manyargs_via": manyVariants, "programs": len(f.items)}
}

func (f *pressFamily) Run(rts [2]wazero.Runtime, c int, sel *replay, res *chunkRes, verbose bool) {
	runnerFor(rts) // host module "env"
	lo := c * pressBatch
	hi := lo + pressBatch
	if hi > len(f.items) {
		hi = len(f.items)
	}
	items := f.items[lo:hi]
	// The module is assembled by a deterministic function of the chunk so that replays rebuild it identically.
	var progs []*Prog
	build := func(m *wb.Module) {
		w := pressPre(m)
		progs = progs[:0]
		// inner functions of manyargs first (their indexes must be known to the callers)
		type innerRef struct{ idx, slot uint32 }
		inners := map[int]innerRef{}
		slot := uint32(1)
		for i, it := range items {
			if !it.many {
				continue
			}
			_, body, rev := buildManyArgs(it.pat, it.k, it.variant)
			ts := pressTypes(it.pat, it.k)
			idx := m.AddFunc(ts, rev, nil, body)
			inners[i] = innerRef{idx, slot}
			slot++
		}
		if slot > 1 {
			m.Tables[0].Lim.Min = slot
			var fs []uint32
			for i := range items {
				if r, ok := inners[i]; ok {
					fs = append(fs, r.idx)
				}
			}
			m.Elems = append(m.Elems, wb.Elem{Mode: 0, Offset: wb.CI32(1), Funcs: fs})
		}
		for i, it := range items {
			if !it.many {
				progs = append(progs, buildPressure(m, w, it.pat, it.k, it.hold, it.cross))
				continue
			}
			p, _, rev := buildManyArgs(it.pat, it.k, it.variant)
			ts := pressTypes(it.pat, it.k)
			a := &wb.Asm{}
			for j := 0; j < it.k; j++ {
				a.LocalGet(uint32(j))
			}
			r := inners[i]
			switch it.variant {
			case "call":
				a.Call(r.idx)
			case "call_indirect":
				a.I32Const(int32(r.slot)).CallIndirect(m.Type(ts, rev), 0)
			case "return_call":
				a.ReturnCall(r.idx)
			}
			p.Body = a.B
			progs = append(progs, p)
		}
	}
	// runStateless adds the programs to the module prepared by pre; build everything except the exported
	// programs inside pre, and hand over the programs built against an identical scratch module.
	scratch := &wb.Module{}
	build(scratch)
	built := append([]*Prog{}, progs...)
	pre := func(m *wb.Module) {
		build(m)
	}
	only := -1
	var args []uint64
	if sel != nil {
		only, args = sel.Prog, sel.Args
	}
	if sel == nil && len(built) > 0 {
		res.Samples = append(res.Samples, map[string]any{"family": "pressure", "chunk": c, "program": built[len(built)/2].Desc})
	}
	runStateless(slOpts{fam: "pressure", tier: f.tier, chunk: c, pre: pre}, rts, built, only, args, res, verbose)
}
