package main

import (
	"fmt"

	"github.com/tetratelabs/wazero"
	"github.com/tetratelabs/wazero/verif/wb"
)

// cfgmem: control-flow merges combined with memory accesses that may trap. A fact proven on one incoming path
// (an address was bounds-checked there) must not be assumed on the other paths. For every merge shape, an access
// A1 of every kind is placed on the chosen path(s) before the merge and an access A2 of every kind after the merge
// through the same unchanged address local, with an end offset (offset+width) equal to, smaller than and larger
// than A1's; every function is called with every combination of the two condition bits and with addresses that are
// in bounds, last valid, first invalid for only one of the accesses, first invalid for both, the memory size, 2^31
// and 2^32-end, on a 1-page memory. Loaded values are folded into an accumulator that is returned; stores write a
// value derived from a parameter. Oracle: outcome/trap kind, result, memory bytes.

type cmKind struct {
	name   string
	w      uint64
	store  bool
	atomic bool
	emit   func(a *wb.Asm, off uint64) // address already pushed (and the value for stores)
	t      byte
}

var cmKinds = []cmKind{
	{name: "i32.load", w: 4, t: i32, emit: func(a *wb.Asm, off uint64) { a.Mem(0x28, 0, off) }},
	{name: "i64.load", w: 8, t: i64, emit: func(a *wb.Asm, off uint64) { a.Mem(0x29, 0, off) }},
	{name: "i32.store", w: 4, t: i32, store: true, emit: func(a *wb.Asm, off uint64) { a.Mem(0x36, 0, off) }},
	{name: "v128.load", w: 16, t: v128, emit: func(a *wb.Asm, off uint64) { a.SimdMem(0, 0, off) }},
	{name: "i32.atomic.load", w: 4, t: i32, atomic: true, emit: func(a *wb.Asm, off uint64) { a.AtomicMem(0x10, 2, off) }},
	{name: "i32.load8_u", w: 1, t: i32, emit: func(a *wb.Asm, off uint64) { a.Mem(0x2d, 0, off) }},
	{name: "i64.store", w: 8, t: i64, store: true, emit: func(a *wb.Asm, off uint64) { a.Mem(0x37, 0, off) }},
}

var cmShapes = []string{
	"if-then",                 // if c0 {A1}; A2
	"if-then-else/then",       // if c0 {A1} else {upd}; A2
	"if-then-else/else",       // if c0 {upd} else {A1}; A2
	"if-then-else/both",       // if c0 {A1} else {A1' (other offset and width)}; A2
	"block-br_if-before",      // block {c0; br_if 0; A1}; A2
	"block-br_if-after",       // block {A1; c0; br_if 0; upd}; A2
	"loop-exit-without",       // n=c0; block{loop{n==0 br_if 1; A1; n--; br 0}}; A2
	"loop-header",             // n=c0; loop{A2; A1; n--; n>=0 br_if 0}   (A2 sits at the loop header merge)
	"nested-if-if",            // if c0 {if c1 {A1}}; A2
	"nested-if-access-if",     // if c0 {A1; if c1 {A1'}; A2'}; A2
	"nested-block-if-br",      // block{ if c0 {c1; br_if 1; A1} }; A2
	"if-then-else/empty-else", // if c0 {A1} else {}; A2
}

var cmRels = []string{"same-end", "smaller-end", "larger-end"}

const (
	cmA   = 0 // i32 address (never modified)
	cmC   = 1 // i32 condition bits
	cmV   = 2 // i64 value for stores
	cmAcc = 3 // i64 accumulator
	cmN   = 4 // i32 loop counter
	cmO1  = 16
)

type cmDesc struct{ shape, k1, k2, rel int }

type cfgmemFamily struct {
	tier  string
	descs []cmDesc
}

func newCfgmemFamily(tier string) *cfgmemFamily {
	f := &cfgmemFamily{tier: tier}
	for s := range cmShapes {
		for k1 := range cmKinds {
			for k2 := range cmKinds {
				for r := range cmRels {
					f.descs = append(f.descs, cmDesc{s, k1, k2, r})
				}
			}
		}
	}
	return f
}

func cmAccess(a *wb.Asm, k cmKind, off uint64, site int64) {
	a.LocalGet(cmA)
	if k.store {
		a.LocalGet(cmV).I64Const(site).Op(0x7c) // value = v + site
		if k.t == i32 {
			a.Op(0xa7)
		}
		k.emit(a, off)
		return
	}
	k.emit(a, off)
	switch k.t {
	case i32:
		a.Op(0xad)
	case v128:
		a.LocalTee(5).Simd(29).Raw(0).LocalGet(5).Simd(29).Raw(1).Op(0x85)
	}
	a.LocalGet(cmAcc).I64Const(31).Op(0x7e).Op(0x7c).I64Const(site).Op(0x7c).LocalSet(cmAcc)
}

func cmUpd(a *wb.Asm, site int64) {
	a.LocalGet(cmAcc).I64Const(7).Op(0x7e).I64Const(site).Op(0x7c).LocalSet(cmAcc)
}

func cmCond(a *wb.Asm, bit int32) {
	a.LocalGet(cmC).I32Const(bit).Op(0x76).I32Const(1).Op(0x71)
}

func (f *cfgmemFamily) build(d cmDesc) *Prog {
	k1, k2 := cmKinds[d.k1], cmKinds[d.k2]
	end1 := uint64(cmO1) + k1.w
	var end2 uint64
	switch d.rel {
	case 0:
		end2 = end1
	case 1:
		end2 = end1 - 4
	case 2:
		end2 = end1 + 4
	}
	if end2 < k2.w {
		end2 = k2.w
	}
	off2 := end2 - k2.w
	if k2.atomic {
		off2 &^= 3
		end2 = off2 + k2.w
	}
	// the "other" access used by the both-arms / nested shapes: different offset and width
	ko := cmKinds[(d.k1+1)%len(cmKinds)]
	offO := uint64(cmO1 + 4)
	endO := offO + ko.w
	a := &wb.Asm{}
	A1 := func() { cmAccess(a, k1, cmO1, 101) }
	A1o := func() { cmAccess(a, ko, offO, 103) }
	A2 := func() { cmAccess(a, k2, off2, 107) }
	ends := []uint64{end1, end2}
	switch cmShapes[d.shape] {
	case "if-then":
		cmCond(a, 0)
		a.If(wb.Void)
		A1()
		a.End()
		A2()
	case "if-then-else/then":
		cmCond(a, 0)
		a.If(wb.Void)
		A1()
		a.Else()
		cmUpd(a, 3)
		a.End()
		A2()
	case "if-then-else/else":
		cmCond(a, 0)
		a.If(wb.Void)
		cmUpd(a, 3)
		a.Else()
		A1()
		a.End()
		A2()
	case "if-then-else/both":
		cmCond(a, 0)
		a.If(wb.Void)
		A1()
		a.Else()
		A1o()
		a.End()
		A2()
		ends = append(ends, endO)
	case "if-then-else/empty-else":
		cmCond(a, 0)
		a.If(wb.Void)
		A1()
		a.Else()
		a.End()
		A2()
	case "block-br_if-before":
		a.Block(wb.Void)
		cmCond(a, 0)
		a.BrIf(0)
		A1()
		a.End()
		A2()
	case "block-br_if-after":
		a.Block(wb.Void)
		A1()
		cmCond(a, 0)
		a.BrIf(0)
		cmUpd(a, 5)
		a.End()
		A2()
	case "loop-exit-without":
		a.LocalGet(cmC).I32Const(3).Op(0x71).LocalSet(cmN)
		a.Block(wb.Void).Loop(wb.Void)
		a.LocalGet(cmN).Op(0x45).BrIf(1)
		A1()
		a.LocalGet(cmN).I32Const(1).Op(0x6b).LocalSet(cmN)
		a.Br(0)
		a.End().End()
		A2()
	case "loop-header":
		a.LocalGet(cmC).I32Const(3).Op(0x71).LocalSet(cmN)
		a.Loop(wb.Void)
		A2()
		A1()
		a.LocalGet(cmN).I32Const(1).Op(0x6b).LocalTee(cmN).I32Const(0).Op(0x4e).BrIf(0) // n-1 >= 0 (signed)
		a.End()
	case "nested-if-if":
		cmCond(a, 0)
		a.If(wb.Void)
		cmCond(a, 1)
		a.If(wb.Void)
		A1()
		a.End()
		a.End()
		A2()
	case "nested-if-access-if":
		cmCond(a, 0)
		a.If(wb.Void)
		A1()
		cmCond(a, 1)
		a.If(wb.Void)
		A1o()
		a.End()
		cmAccess(a, k2, off2, 109)
		a.End()
		A2()
		ends = append(ends, endO)
	case "nested-block-if-br":
		a.Block(wb.Void)
		cmCond(a, 0)
		a.If(wb.Void)
		cmCond(a, 1)
		a.BrIf(1)
		A1()
		a.End()
		a.End()
		A2()
	}
	a.LocalGet(cmAcc)
	p := &Prog{Params: []byte{i32, i32, i64}, Results: []byte{i64}, Locals: []byte{i64, i32, v128}, Body: a.B, ResTaint: []taint{clean}}
	p.Desc = fmt.Sprintf("%s A1=%s@+%d A2=%s@+%d (%s)", cmShapes[d.shape], k1.name, cmO1, k2.name, off2, cmRels[d.rel])
	p.SigOps = fmt.Sprintf("%s/%s/%s/%s", cmShapes[d.shape], k1.name, k2.name, cmRels[d.rel])
	// addresses: atomic accesses stay aligned (a misaligned AND out-of-bounds atomic access is the known finding of the
	// atomic family and is not what this family is about)
	step := uint64(1)
	if k1.atomic || k2.atomic || ko.atomic {
		step = 4
	}
	addrSet := map[uint64]bool{}
	var addrs []uint64
	add := func(v uint64) {
		v &= 0xffffffff
		if step == 4 {
			v &^= 3
		}
		if !addrSet[v] {
			addrSet[v] = true
			addrs = append(addrs, v)
		}
	}
	add(64)
	for _, e := range ends {
		add(pageSize - e)        // last valid for this access
		add(pageSize - e + step) // first invalid for this access
	}
	add(pageSize)
	add(1 << 31)
	for _, e := range ends {
		add((1 << 32) - e)
	}
	add(0xfffffffc)
	for _, ad := range addrs {
		for c := uint64(0); c < 4; c++ {
			p.ArgVecs = append(p.ArgVecs, []uint64{ad, c, 0x1122334455667788})
		}
	}
	return p
}

func cfgmemPre(m *wb.Module) {
	m.Mem = &wb.Limits{Min: 1, Max: 1, HasMax: true}
	head := make([]byte, 256)
	for i := range head {
		head[i] = byte(i*41 + 5)
	}
	tail := make([]byte, 256)
	for i := range tail {
		tail[i] = byte(i*23 + 9)
	}
	m.Datas = []wb.Data{{Offset: wb.CI32(0), Bytes: head}, {Offset: wb.CI32(pageSize - 256), Bytes: tail}}
}

func (f *cfgmemFamily) Name() string { return "cfgmem" }
func (f *cfgmemFamily) Chunks() int  { return (len(f.descs) + batchSize - 1) / batchSize }
func (f *cfgmemFamily) Bounds() map[string]any {
	var ks []string
	for _, k := range cmKinds {
		ks = append(ks, k.name)
	}
	return map[string]any{"shapes": cmShapes, "access_kinds": ks, "end_relations": cmRels, "programs": len(f.descs), "condition_inputs": 4,
		"addresses": "in bounds; last valid and first invalid for each access; memory size; 2^31; 2^32-end for each access; 0xfffffffc", "memory": "1 page"}
}

func (f *cfgmemFamily) Run(rts [2]wazero.Runtime, c int, sel *replay, res *chunkRes, verbose bool) {
	lo := c * batchSize
	hi := lo + batchSize
	if hi > len(f.descs) {
		hi = len(f.descs)
	}
	var progs []*Prog
	for _, d := range f.descs[lo:hi] {
		progs = append(progs, f.build(d))
	}
	only := -1
	var args []uint64
	if sel != nil {
		only, args = sel.Prog, sel.Args
	}
	if sel == nil {
		res.Samples = append(res.Samples, map[string]any{"family": "cfgmem", "chunk": c, "program": progs[len(progs)/2].describe()})
	}
	runStateless(slOpts{fam: "cfgmem", tier: f.tier, chunk: c, pre: cfgmemPre, memCompare: true}, rts, progs, only, args, res, verbose)
}
