package main

import (
	"fmt"

	"github.com/tetratelabs/wazero"
	"github.com/tetratelabs/wazero/verif/wb"
)

// atomic: every threads-proposal instruction (executed single-threaded on a shared memory) as a single-instruction
// body over (addr, value, expected) parameters, plus pairings with a neighbouring plain store before and a plain
// load after the atomic access.

type atomOp struct {
	name  string
	op    uint32
	t     byte // value type
	w     int  // access width in bytes
	kind  int  // 0 load, 1 store, 2 rmw, 3 cmpxchg
	align uint32
}

func atomOps() []atomOp {
	var o []atomOp
	lg := func(w int) uint32 {
		switch w {
		case 1:
			return 0
		case 2:
			return 1
		case 4:
			return 2
		}
		return 3
	}
	type acc struct {
		suffix string
		t      byte
		w      int
	}
	accs := []acc{{"i32.atomic.%s", i32, 4}, {"i64.atomic.%s", i64, 8}, {"i32.atomic.%s8_u", i32, 1}, {"i32.atomic.%s16_u", i32, 2},
		{"i64.atomic.%s8_u", i64, 1}, {"i64.atomic.%s16_u", i64, 2}, {"i64.atomic.%s32_u", i64, 4}}
	for i, a := range accs {
		o = append(o, atomOp{name: fmt.Sprintf(a.suffix, "load"), op: uint32(0x10 + i), t: a.t, w: a.w, kind: 0, align: lg(a.w)})
	}
	stores := []acc{{"i32.atomic.store", i32, 4}, {"i64.atomic.store", i64, 8}, {"i32.atomic.store8", i32, 1}, {"i32.atomic.store16", i32, 2},
		{"i64.atomic.store8", i64, 1}, {"i64.atomic.store16", i64, 2}, {"i64.atomic.store32", i64, 4}}
	for i, a := range stores {
		o = append(o, atomOp{name: a.suffix, op: uint32(0x17 + i), t: a.t, w: a.w, kind: 1, align: lg(a.w)})
	}
	rmw := []acc{{"i32.atomic.rmw.%s", i32, 4}, {"i64.atomic.rmw.%s", i64, 8}, {"i32.atomic.rmw8.%s_u", i32, 1}, {"i32.atomic.rmw16.%s_u", i32, 2},
		{"i64.atomic.rmw8.%s_u", i64, 1}, {"i64.atomic.rmw16.%s_u", i64, 2}, {"i64.atomic.rmw32.%s_u", i64, 4}}
	for k, n := range []string{"add", "sub", "and", "or", "xor", "xchg"} {
		for i, a := range rmw {
			o = append(o, atomOp{name: fmt.Sprintf(a.suffix, n), op: uint32(0x1e + 7*k + i), t: a.t, w: a.w, kind: 2, align: lg(a.w)})
		}
	}
	for i, a := range rmw {
		o = append(o, atomOp{name: fmt.Sprintf(a.suffix, "cmpxchg"), op: uint32(0x48 + i), t: a.t, w: a.w, kind: 3, align: lg(a.w)})
	}
	return o
}

var atomAddrs = []uint64{0, 8, 16, 1, 2, 4, 12, pageSize - 8, pageSize - 4, pageSize - 2, pageSize - 1, pageSize, 0xfffffff8, 0xffffffff}
var atomVals = []uint64{0, 1, 0xffffffffffffffff, 0x8000000080008080, 0x0123456789abcdef}

func atomPrograms() []*Prog {
	var ps []*Prog
	params := []byte{i32, i64, i64} // addr, value, expected
	val := func(a *wb.Asm, t byte, l uint32) {
		a.LocalGet(l)
		if t == i32 {
			a.Op(0xa7)
		}
	}
	// classW/classOff: width and static offset of the atomic access of the program being built (0 = none)
	classW, classOff := uint64(0), uint64(0)
	mk := func(desc, sig string, results []byte, a *wb.Asm, vecs [][]uint64) {
		p := &Prog{Params: params, Results: results, Body: a.B, Desc: desc, SigOps: sig, ArgVecs: vecs, ResTaint: make([]taint, len(results))}
		if w, off := classW, classOff; w > 1 {
			p.Classify = func(args []uint64, ca, cb string) string {
				ea := uint64(uint32(args[0])) + off
				oob, una := "trap:oob-memory", "trap:unaligned-atomic"
				if ea%w != 0 && ea+w > pageSize && ((ca == oob && cb == una) || (ca == una && cb == oob)) {
					return "atomic:misaligned-and-out-of-bounds:trap-kind"
				}
				return ""
			}
		}
		ps = append(ps, p)
	}
	expected := func() [][]uint64 {
		// expected operand for cmpxchg: 0 (matches untouched memory), the data pattern at address 0/8/16, and a mismatch
		return scalarList([]uint64{0, 0x0000000000000000 | v128Alpha[0][0], v128Alpha[1][0], 0x1111111111111111})
	}
	for _, op := range atomOps() {
		full := vecArgs(scalarList(atomAddrs), scalarList(atomVals), scalarList([]uint64{0}))
		emit := func(a *wb.Asm) *wb.Asm {
			a.LocalGet(0)
			switch op.kind {
			case 1, 2:
				val(a, op.t, 1)
			case 3:
				val(a, op.t, 2)
				val(a, op.t, 1)
			}
			return a.AtomicMem(op.op, op.align, 0)
		}
		var res []byte
		if op.kind != 1 {
			res = []byte{op.t}
		}
		vecs := full
		if op.kind == 3 {
			vecs = vecArgs(scalarList(atomAddrs), scalarList(atomVals[1:3]), expected())
		}
		if op.kind == 0 {
			vecs = vecArgs(scalarList(atomAddrs), scalarList([]uint64{0}), scalarList([]uint64{0}))
		}
		classW, classOff = uint64(op.w), 0
		mk("single "+op.name, op.name+"/single", res, emit(&wb.Asm{}), vecs)
		classOff = 32
		// static offset form
		mk("offset "+op.name, op.name+"/offset", res, func() *wb.Asm {
			a := &wb.Asm{}
			a.LocalGet(0)
			switch op.kind {
			case 1, 2:
				val(a, op.t, 1)
			case 3:
				val(a, op.t, 2)
				val(a, op.t, 1)
			}
			return a.AtomicMem(op.op, op.align, 32)
		}(), vecs)
		// plain store before, plain load after (same address)
		classW, classOff = uint64(op.w), 0
		a := &wb.Asm{}
		a.LocalGet(0).LocalGet(2).Mem(0x3c, 0, 0) // i64.store8 addr, expected
		emit(a)
		a.LocalGet(0).Mem(0x29, 0, 0) // i64.load addr
		mk("store8;"+op.name+";i64.load", op.name+"/paired", append(append([]byte{}, res...), i64), a,
			vecArgs(scalarList([]uint64{0, 8, 1, 4, pageSize - 8, pageSize - 4}), scalarList(atomVals[1:4]), scalarList([]uint64{0x11, 0xff})))
	}
	classW, classOff = 4, 0
	// wait/notify/fence (single-threaded: wait never blocks with timeout 0 or a mismatching expected value)
	mk("memory.atomic.notify", "memory.atomic.notify/single", []byte{i32}, (&wb.Asm{}).LocalGet(0).LocalGet(1).Op(0xa7).AtomicMem(0, 2, 0),
		vecArgs(scalarList([]uint64{0, 4, 2, pageSize - 4, pageSize, 0xffffffff}), scalarList([]uint64{0, 1, 0xffffffff}), scalarList([]uint64{0})))
	mk("memory.atomic.wait32 timeout=0", "memory.atomic.wait32/single", []byte{i32}, (&wb.Asm{}).LocalGet(0).LocalGet(1).Op(0xa7).I64Const(0).AtomicMem(1, 2, 0),
		vecArgs(scalarList([]uint64{0, 4, 2, pageSize - 4, pageSize, 0xffffffff}), scalarList([]uint64{0, 1, v128Alpha[1][0]}), scalarList([]uint64{0})))
	classW = 8
	mk("memory.atomic.wait64 timeout=0", "memory.atomic.wait64/single", []byte{i32}, (&wb.Asm{}).LocalGet(0).LocalGet(1).I64Const(0).AtomicMem(2, 3, 0),
		vecArgs(scalarList([]uint64{0, 8, 4, pageSize - 8, pageSize, 0xffffffff}), scalarList([]uint64{0, 1, v128Alpha[1][0]}), scalarList([]uint64{0})))
	classW = 0
	mk("atomic.fence;i64.load", "atomic.fence/paired", []byte{i64}, (&wb.Asm{}).LocalGet(0).LocalGet(1).Mem(0x37, 0, 0).Atomic(3).Raw(0).LocalGet(0).Mem(0x29, 0, 0),
		vecArgs(scalarList([]uint64{64, 65, pageSize - 8, pageSize - 7}), scalarList(atomVals), scalarList([]uint64{0})))
	return ps
}

type atomFamily struct {
	tier  string
	progs []*Prog
}

func newAtomFamily(tier string) *atomFamily { return &atomFamily{tier: tier, progs: atomPrograms()} }

const atomBatch = 30

func (f *atomFamily) Name() string { return "atomic" }
func (f *atomFamily) Chunks() int  { return (len(f.progs) + atomBatch - 1) / atomBatch }
func (f *atomFamily) Bounds() map[string]any {
	return map[string]any{"instructions": len(atomOps()) + 4, "programs": len(f.progs), "address_alphabet": atomAddrs, "value_alphabet": atomVals, "memory": "shared, 1 page"}
}

func (f *atomFamily) Run(rts [2]wazero.Runtime, c int, sel *replay, res *chunkRes, verbose bool) {
	lo := c * atomBatch
	hi := lo + atomBatch
	if hi > len(f.progs) {
		hi = len(f.progs)
	}
	progs := f.progs[lo:hi]
	only := -1
	var args []uint64
	if sel != nil {
		only, args = sel.Prog, sel.Args
	}
	if sel == nil {
		res.Samples = append(res.Samples, map[string]any{"family": "atomic", "chunk": c, "program": progs[len(progs)/2].describe()})
	}
	runStateless(slOpts{fam: "atomic", tier: f.tier, chunk: c, pre: simdPre(true), memCompare: true}, rts, progs, only, args, res, verbose)
}
