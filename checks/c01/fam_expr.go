package main

import (
	"fmt"

	"github.com/tetratelabs/wazero"
)

const batchSize = 500

// family is one exhaustively enumerated program family, cut into chunks (one chunk = one module
// compiled on both engines, run by a supervised child).
type family interface {
	Name() string
	Chunks() int
	// Run executes chunk c. only>=0 restricts to one program (replay); args/hist restrict further.
	Run(rts [2]wazero.Runtime, c int, sel *replay, res *chunkRes, verbose bool)
	Bounds() map[string]any
}

type exprFamily struct {
	tier   string
	enums  []*exprEnum
	counts []int
	starts []int // first chunk of each spec
	total  int
	// cursor (children visit chunks in increasing order)
	curSpec int
	cur     *cursor
}

func exprSpecs(tier string) []exprSpec {
	type ft struct {
		name    string
		p, r, l []byte
	}
	fts := []ft{
		{"i32", []byte{i32, i32}, []byte{i32}, []byte{i32}},
		{"i64", []byte{i64, i64}, []byte{i64}, []byte{i64}},
		{"f32", []byte{f32, f32}, []byte{f32}, []byte{f32}},
		{"f64", []byte{f64, f64}, []byte{f64}, []byte{f64}},
		{"mv", []byte{i32, i64, f32, f64}, []byte{i64, f64}, nil},
	}
	var out []exprSpec
	add := func(f ft, n, nc int, types []byte, setTee bool, tag string) {
		out = append(out, exprSpec{Name: fmt.Sprintf("%s/L%d%s", f.name, n, tag), Params: f.p, Results: f.r, Locals: f.l, Len: n, NConst: nc, Types: types, SetTee: setTee})
	}
	for _, f := range fts {
		for n := 1; n <= 3; n++ {
			add(f, n, 9, nil, true, "")
		}
		ints := []byte{i32, i64}
		if tier == "thorough" {
			switch f.name {
			case "i32", "i64":
				add(f, 4, 9, ints, true, "/int")
				add(f, 4, 2, nil, true, "/all")
				add(f, 5, 1, ints, false, "/int")
			case "f32", "f64":
				add(f, 4, 3, nil, true, "/all")
			case "mv":
				add(f, 4, 9, nil, true, "")
				add(f, 5, 1, nil, false, "")
			}
		} else {
			switch f.name {
			case "i32", "i64":
				add(f, 4, 2, ints, true, "/int")
				add(f, 4, 1, nil, false, "/all")
			case "f32", "f64":
				add(f, 4, 1, nil, false, "/all")
			case "mv":
				add(f, 4, 2, nil, false, "")
			}
		}
	}
	return out
}

func newExprFamily(tier string) *exprFamily {
	f := &exprFamily{tier: tier, curSpec: -1}
	for _, s := range exprSpecs(tier) {
		e := newExprEnum(s)
		c := e.count()
		f.enums = append(f.enums, e)
		f.counts = append(f.counts, c)
		f.starts = append(f.starts, f.total)
		f.total += (c + batchSize - 1) / batchSize
	}
	return f
}

func (f *exprFamily) Name() string { return "expr" }
func (f *exprFamily) Chunks() int  { return f.total }

func (f *exprFamily) Bounds() map[string]any {
	specs := map[string]any{}
	for i, e := range f.enums {
		specs[e.spec.Name] = map[string]any{"type": tnames(e.spec.Params) + "->" + tnames(e.spec.Results), "length": e.spec.Len,
			"alphabet": len(e.instrs), "consts_per_type": e.spec.NConst, "programs": f.counts[i]}
	}
	return map[string]any{"specs": specs, "int_arg_alphabet": []int{len(i32Alpha), len(i64Alpha)}, "float_arg_alphabet": []int{len(f32Alpha), len(f64Alpha)}}
}

func (f *exprFamily) locate(c int) (spec, lo, hi int) {
	for s := len(f.starts) - 1; s >= 0; s-- {
		if c >= f.starts[s] {
			lo = (c - f.starts[s]) * batchSize
			hi = lo + batchSize
			if hi > f.counts[s] {
				hi = f.counts[s]
			}
			return s, lo, hi
		}
	}
	panic("locate")
}

func (f *exprFamily) programs(c int) []*Prog {
	s, lo, hi := f.locate(c)
	e := f.enums[s]
	if f.curSpec != s || f.cur == nil || f.cur.pos > lo {
		if f.cur != nil {
			f.cur.stop()
		}
		f.cur = newCursor(func(yield func(any) bool) {
			e.enumerate(func(seq []int) bool { return yield(append([]int{}, seq...)) })
		})
		f.curSpec = s
	}
	var progs []*Prog
	for _, it := range f.cur.take(lo, hi) {
		progs = append(progs, e.build(it.([]int)))
	}
	return progs
}

func (f *exprFamily) Run(rts [2]wazero.Runtime, c int, sel *replay, res *chunkRes, verbose bool) {
	progs := f.programs(c)
	only := -1
	var args []uint64
	if sel != nil {
		only, args = sel.Prog, sel.Args
	}
	if len(res.Samples) == 0 && len(progs) > 0 && sel == nil {
		res.Samples = append(res.Samples, map[string]any{"family": "expr", "chunk": c, "program": progs[len(progs)/2].describe()})
	}
	runStateless(slOpts{fam: "expr", tier: f.tier, chunk: c}, rts, progs, only, args, res, verbose)
}
