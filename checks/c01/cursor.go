package main

// cursor turns a push enumeration into a forward-only pull iterator: a goroutine hands over blocks of
// items. Children visit chunks in increasing order, so one pass over each enumeration suffices.
type cursor struct {
	pos  int
	ch   chan []any
	quit chan struct{}
	cur  []any
}

func newCursor(enumerate func(yield func(any) bool)) *cursor {
	c := &cursor{ch: make(chan []any, 4), quit: make(chan struct{})}
	go func() {
		defer close(c.ch)
		var blk []any
		enumerate(func(it any) bool {
			blk = append(blk, it)
			if len(blk) == 256 {
				select {
				case c.ch <- blk:
				case <-c.quit:
					return false
				}
				blk = nil
			}
			return true
		})
		if len(blk) > 0 {
			select {
			case c.ch <- blk:
			case <-c.quit:
			}
		}
	}()
	return c
}

func (c *cursor) next() (any, bool) {
	for len(c.cur) == 0 {
		b, ok := <-c.ch
		if !ok {
			return nil, false
		}
		c.cur = b
	}
	it := c.cur[0]
	c.cur = c.cur[1:]
	c.pos++
	return it, true
}

// take returns items lo..hi-1 (lo must be >= the current position).
func (c *cursor) take(lo, hi int) []any {
	if lo < c.pos {
		panic("cursor: cannot go backwards")
	}
	var out []any
	for c.pos < hi {
		it, ok := c.next()
		if !ok {
			panic("cursor: enumeration ended early")
		}
		if c.pos > lo {
			out = append(out, it)
		}
	}
	return out
}

func (c *cursor) stop() { close(c.quit) }
