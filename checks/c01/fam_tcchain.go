package main

import (
	"fmt"
	"strings"

	"github.com/tetratelabs/wazero"
	"github.com/tetratelabs/wazero/verif/wb"
)

// tcchain: CHAINS of tail calls that reuse one frame. The `tailcall` family has exactly one hop between two functions
// of the same signature; here a frame is handed on h = 1..3 (thorough: 4) times between functions whose parameter
// lists differ in count AND in width in 64-bit slots (v128 = 2 slots), so every piece of per-frame bookkeeping (where
// the parameter area starts, how wide it is, which function currently owns the frame, how many locals sit above it,
// what is left on the operand stack when the frame is abandoned) must follow the chain.
//
// Dimensions (primary ones as a full product, secondary ones as all tuples with at most 1 (thorough: 2) deviations
// from the default, marked *):
//   nodes    parameter list of every function of the chain, from tccLists
//   hops     every hop return_call or return_call_indirect; the LAST hop also return_call to an imported function and
//            return_call_indirect to a table slot holding a function of another instance (engines may or must demote
//            these to a plain call + return)
//   entry    frame entered from the host (export = first function) / by `call` / by `call_indirect` from a wrapper
//            that keeps an i64 and a v128 on its operand stack below the arguments and returns them after the results
//   results  (i64)* or (i32,v128)  (fewer / more result slots than parameter slots)
//   locals   no function declares locals* / all do (i64,v128: read — must be zero —, then overwritten) / even / odd nodes
//   junk     nothing* / an i64 and a v128 left on the operand stack below the arguments of every return_call /
//            the return_call sits in a block with operands inside and outside of it
//   final    the last function returns* / makes a plain call (a new frame on top of the reused one) and returns
//   rounds   0* / 2: the last function tail-calls back to the first one (from inside an `if`) until a global reaches zero
//
// Oracle: the engines agree AND equal the generator's own model (`Prog.Expect`): every function folds all its
// parameters (position-weighted) into an accumulator and derives every argument of the next hop from it.

var tccLists = [][]byte{
	{},
	{i64},
	{i32, v128},
	{i64, i64, i32},
	{i64, v128, i32},
}

var tccResLists = [][]byte{{i64}, {i32, v128}}

var tccHopNames = []string{"return_call", "return_call_indirect", "return_call-import", "return_call_indirect-foreign"}
var tccEntryNames = []string{"host", "call", "call_indirect"}
var tccLocalNames = []string{"none", "all", "even", "odd"}
var tccJunkNames = []string{"none", "below-args", "in-block"}
var tccFinalNames = []string{"return", "plain-call"}

const (
	tccSeed   = 0x9E3779B97F4A7C15
	tccS1     = 0x5e17e15e17e15e17
	tccS2lo   = 0x0123456789abcdef
	tccS2hi   = 0xfedcba9876543210
	tccJunk1  = 0x6a6a6a6a6a6a6a6a
	tccJunkLo = 0x7b7b7b7b7b7b7b7b
	tccJunkHi = 0x8c8c8c8c8c8c8c8c
	tccHlpMul = 0x10001
	tccHlpAdd = 7
	tccBatch  = 250
	tccLib    = "c01_tcchainlib"
)

type tccDesc struct {
	nodes  []int
	hops   []int
	entry  int
	res    int
	locals int
	junk   int
	final  int
	rounds int
}

func (d *tccDesc) h() int { return len(d.hops) }

// inModule: the last function of the chain lives in the module itself (not in the library instance)
func (d *tccDesc) inModule() bool { return d.hops[d.h()-1] < 2 }

func (d *tccDesc) hasLocals(k int) bool {
	switch d.locals {
	case 1:
		return true
	case 2:
		return k%2 == 0
	case 3:
		return k%2 == 1
	}
	return false
}

// moduleNodes: number of chain functions defined in the module
func (d *tccDesc) moduleNodes() int {
	if d.inModule() {
		return d.h() + 1
	}
	return d.h()
}

// helpers: number of functions added before the exported programs
func (d *tccDesc) helpers() int {
	if d.entry == 0 {
		return d.moduleNodes() - 1
	}
	return d.moduleNodes()
}

func (d *tccDesc) sig() string {
	var sb strings.Builder
	fmt.Fprintf(&sb, "h%d/%s/", d.h(), tccEntryNames[d.entry])
	for k, n := range d.nodes {
		if k > 0 {
			sb.WriteString(">" + tccHopNames[d.hops[k-1]] + ">")
		}
		sb.WriteString(tnames(tccLists[n]))
	}
	sb.WriteString("/res=" + tnames(tccResLists[d.res]))
	if d.locals != 0 {
		sb.WriteString("/locals=" + tccLocalNames[d.locals])
	}
	if d.junk != 0 {
		sb.WriteString("/junk=" + tccJunkNames[d.junk])
	}
	if d.final != 0 {
		sb.WriteString("/final=" + tccFinalNames[d.final])
	}
	if d.rounds != 0 {
		fmt.Fprintf(&sb, "/rounds=%d", d.rounds)
	}
	return sb.String()
}

type tcchainFamily struct {
	tier   string
	descs  []tccDesc
	counts map[string]int
}

// tccSecondary enumerates the secondary dimensions with at most maxDev deviations from the default.
func tccSecondary(inModule bool, maxDev int) []tccDesc {
	var out []tccDesc
	for res := 0; res < len(tccResLists); res++ {
		for locals := 0; locals < len(tccLocalNames); locals++ {
			for junk := 0; junk < len(tccJunkNames); junk++ {
				for final := 0; final < len(tccFinalNames); final++ {
					for _, rounds := range []int{0, 2} {
						if !inModule && (final != 0 || rounds != 0) {
							continue // the last function is the library's: these dimensions do not exist
						}
						dev := 0
						for _, v := range []int{res, locals, junk, final, rounds} {
							if v != 0 {
								dev++
							}
						}
						if dev <= maxDev {
							out = append(out, tccDesc{res: res, locals: locals, junk: junk, final: final, rounds: rounds})
						}
					}
				}
			}
		}
	}
	return out
}

func (f *tcchainFamily) enumerate(h, nLists, maxDev int) {
	nodes := make([]int, h+1)
	hops := make([]int, h)
	n := 0
	var recHops func(k int)
	recHops = func(k int) {
		if k == h {
			inMod := hops[h-1] < 2
			for entry := range tccEntryNames {
				for _, s := range tccSecondary(inMod, maxDev) {
					d := s
					d.nodes = append([]int{}, nodes...)
					d.hops = append([]int{}, hops...)
					d.entry = entry
					f.descs = append(f.descs, d)
					n++
				}
			}
			return
		}
		kinds := 2
		if k == h-1 {
			kinds = 4
		}
		for x := 0; x < kinds; x++ {
			hops[k] = x
			recHops(k + 1)
		}
	}
	var recNodes func(k int)
	recNodes = func(k int) {
		if k == h+1 {
			recHops(0)
			return
		}
		for x := 0; x < nLists; x++ {
			nodes[k] = x
			recNodes(k + 1)
		}
	}
	recNodes(0)
	f.counts[fmt.Sprintf("hops=%d lists=%d deviations<=%d", h, nLists, maxDev)] = n
}

func newTcchainFamily(tier string) *tcchainFamily {
	f := &tcchainFamily{tier: tier, counts: map[string]int{}}
	if tier == "thorough" {
		f.enumerate(1, 5, 2)
		f.enumerate(2, 5, 2)
		f.enumerate(3, 4, 1)
		f.enumerate(4, 3, 0)
	} else {
		f.enumerate(1, 4, 1)
		f.enumerate(2, 4, 1)
		f.enumerate(3, 3, 0)
	}
	return f
}

func (f *tcchainFamily) Name() string { return "tcchain" }
func (f *tcchainFamily) Chunks() int  { return (len(f.descs) + tccBatch - 1) / tccBatch }
func (f *tcchainFamily) Bounds() map[string]any {
	var ls, rs []string
	for _, l := range tccLists {
		ls = append(ls, tnames(l))
	}
	for _, l := range tccResLists {
		rs = append(rs, tnames(l))
	}
	return map[string]any{"parameter_lists": ls, "result_lists": rs, "hop_kinds": tccHopNames, "entries": tccEntryNames, "locals": tccLocalNames,
		"junk": tccJunkNames, "final": tccFinalNames, "rounds": []int{0, 2}, "chains_by_bound": f.counts, "programs": len(f.descs), "argument_vectors": 3}
}

// ---- the generator's model ----

func tccFold(ts []byte, vals []uint64) uint64 {
	acc := uint64(tccSeed)
	k := 0
	for _, t := range ts {
		switch t {
		case i32:
			acc = acc*31 + uint64(uint32(vals[k]))
			k++
		case v128:
			acc = acc*31 + vals[k]
			acc = acc*31 + vals[k+1]
			k += 2
		default:
			acc = acc*31 + vals[k]
			k++
		}
	}
	return acc
}

func tccMulAdd(j int) (uint64, uint64) {
	return uint64(2*j + 3), uint64(j+1) * 0x0101010101010101
}

func tccMk(ts []byte, acc uint64) []uint64 {
	var out []uint64
	for j, t := range ts {
		m, a := tccMulAdd(j)
		base := acc*m + a
		switch t {
		case i32:
			out = append(out, uint64(uint32(base)))
		case v128:
			out = append(out, base, base^0x5555555555555555)
		default:
			out = append(out, base)
		}
	}
	return out
}

func (d *tccDesc) expect(args []uint64) []uint64 {
	vals := append([]uint64{}, args[:nslots(tccLists[d.nodes[0]])]...)
	g := d.rounds
	h := d.h()
	var acc uint64
	for {
		for k := 0; k < h; k++ {
			acc = tccFold(tccLists[d.nodes[k]], vals)
			vals = tccMk(tccLists[d.nodes[k+1]], acc)
		}
		acc = tccFold(tccLists[d.nodes[h]], vals)
		if d.inModule() && d.final == 1 {
			acc = acc*tccHlpMul + tccHlpAdd
		}
		if d.inModule() && g > 0 {
			g--
			vals = tccMk(tccLists[d.nodes[0]], acc)
			continue
		}
		break
	}
	out := tccMk(tccResLists[d.res], acc)
	if d.entry != 0 {
		out = append(out, tccS1, tccS2lo, tccS2hi)
	}
	return out
}

// ---- code emission ----

// tccEmitFold pushes the position-weighted fold of the parameters (an i64).
func tccEmitFold(a *wb.Asm, ts []byte) {
	seed := uint64(tccSeed)
	a.I64Const(int64(seed))
	for j, t := range ts {
		switch t {
		case i32:
			a.I64Const(31).Op(0x7e).LocalGet(uint32(j)).Op(0xad).Op(0x7c)
		case v128:
			a.I64Const(31).Op(0x7e).LocalGet(uint32(j)).Simd(29).Raw(0).Op(0x7c)
			a.I64Const(31).Op(0x7e).LocalGet(uint32(j)).Simd(29).Raw(1).Op(0x7c)
		default:
			a.I64Const(31).Op(0x7e).LocalGet(uint32(j)).Op(0x7c)
		}
	}
}

// tccEmitMk pushes one value per type of ts, each derived from the accumulator pushed by acc().
func tccEmitMk(a *wb.Asm, ts []byte, acc func()) {
	for j, t := range ts {
		m, ad := tccMulAdd(j)
		base := func() {
			acc()
			a.I64Const(int64(m)).Op(0x7e).I64Const(int64(ad)).Op(0x7c)
		}
		switch t {
		case i32:
			base()
			a.Op(0xa7)
		case v128:
			base()
			a.Simd(18)
			base()
			a.I64Const(0x5555555555555555).Op(0x85).Simd(30).Raw(1)
		default:
			base()
		}
	}
}

type tccCtx struct {
	m       *wb.Module
	imp     [][]uint32 // imported library finals [list][res]
	hlp     uint32
	elems   []uint32
	slot    map[uint32]uint32
	globals int
}

func (c *tccCtx) slotOf(fn uint32) uint32 {
	if s, ok := c.slot[fn]; ok {
		return s
	}
	s := uint32(len(c.elems))
	c.elems = append(c.elems, fn)
	c.slot[fn] = s
	return s
}

// emitHop emits the arguments for `to` and the tail call of the given kind.
func (c *tccCtx) emitHop(a *wb.Asm, d *tccDesc, kind int, target uint32, to []byte, res []byte, acc func(), tail bool) {
	call := func() {
		tccEmitMk(a, to, acc)
		switch kind {
		case 0, 2:
			a.ReturnCall(target)
		default:
			a.I32Const(int32(c.slotOf(target))).ReturnCallIndirect(c.m.Type(to, res), 0)
		}
	}
	switch d.junk {
	case 1:
		a.I64Const(tccJunk1).V128Const(tccJunkLo, tccJunkHi)
		call()
	case 2:
		a.V128Const(tccJunkLo, tccJunkHi).Block(i64).I64Const(tccJunk1)
		call()
		a.End().Drop().Drop()
		if tail {
			a.Unreachable()
		}
	default:
		call()
	}
}

// nodeBody builds the body of chain function k. next is the function index of node k+1 (or the import), node0 the
// index of the first function (for the back edge).
func (c *tccCtx) nodeBody(d *tccDesc, k int, next, node0 uint32, glob uint32) (locals []byte, body []byte) {
	ps := tccLists[d.nodes[k]]
	res := tccResLists[d.res]
	a := &wb.Asm{}
	last := k == d.h()
	var acc func()
	helper := last && d.final == 1
	if d.hasLocals(k) {
		locals = []byte{i64, v128}
		accL, vL := uint32(len(ps)), uint32(len(ps)+1)
		tccEmitFold(a, ps)
		a.LocalGet(accL).Op(0x7c).LocalGet(vL).Simd(29).Raw(0).Op(0x7c)
		if helper {
			a.Call(c.hlp)
		}
		a.LocalSet(accL)
		a.LocalGet(accL).Simd(18).LocalSet(vL)
		acc = func() { a.LocalGet(accL) }
	} else {
		acc = func() {
			tccEmitFold(a, ps)
			if helper {
				a.Call(c.hlp)
			}
		}
	}
	if !last {
		c.emitHop(a, d, d.hops[k], next, tccLists[d.nodes[k+1]], res, acc, true)
		return locals, a.B
	}
	if d.rounds > 0 {
		back := d.hops[0] // 0 or 1 (rounds exist only for chains that stay in the module)
		if back > 1 {
			back = 0
		}
		a.GlobalGet(glob).Op(0x50).Op(0x45).If(0x40)
		a.GlobalGet(glob).I64Const(1).Op(0x7d).GlobalSet(glob)
		c.emitHop(a, d, back, node0, tccLists[d.nodes[0]], res, acc, false)
		a.End()
		a.I64Const(int64(d.rounds)).GlobalSet(glob)
	}
	tccEmitMk(a, res, acc)
	return locals, a.B
}

func (c *tccCtx) build(d *tccDesc, progIdx uint32) *Prog {
	m := c.m
	h := d.h()
	res := tccResLists[d.res]
	var glob uint32
	if d.rounds > 0 {
		glob = m.AddGlobal(i64, true, wb.CI64(int64(d.rounds)))
	}
	// function indexes: helpers are added for k = last module node .. first helper node
	first := 0
	if d.entry == 0 {
		first = 1 // node 0 is the exported program itself
	}
	lastMod := d.moduleNodes() - 1
	cur := m.NumImportedFuncs() + uint32(len(m.Funcs))
	idx := make([]uint32, h+1)
	n := uint32(0)
	for k := lastMod; k >= first; k-- {
		idx[k] = cur + n
		n++
	}
	if d.entry == 0 {
		idx[0] = progIdx
	}
	if !d.inModule() {
		idx[h] = c.imp[d.nodes[h]][d.res]
	}
	for k := lastMod; k >= first; k-- {
		var next uint32
		if k < h {
			next = idx[k+1]
		}
		locals, body := c.nodeBody(d, k, next, idx[0], glob)
		if got := m.AddFunc(tccLists[d.nodes[k]], res, locals, body); got != idx[k] {
			panic(fmt.Sprintf("tcchain: function index bookkeeping: node %d got %d want %d", k, got, idx[k]))
		}
	}
	p0 := tccLists[d.nodes[0]]
	p := &Prog{Params: p0}
	if d.entry == 0 {
		p.Results = res
		p.Locals, p.Body = c.nodeBody(d, 0, idx[1], idx[0], glob)
	} else {
		p.Results = append(append([]byte{}, res...), i64, v128)
		p.Locals = append(append([]byte{}, res...), i64, v128)
		np := uint32(len(p0))
		s1, s2 := np+uint32(len(res)), np+uint32(len(res))+1
		a := &wb.Asm{}
		a.I64Const(tccS1).V128Const(tccS2lo, tccS2hi)
		for j := range p0 {
			a.LocalGet(uint32(j))
		}
		if d.entry == 1 {
			a.Call(idx[0])
		} else {
			a.I32Const(int32(c.slotOf(idx[0]))).CallIndirect(m.Type(p0, res), 0)
		}
		for j := len(res) - 1; j >= 0; j-- {
			a.LocalSet(np + uint32(j))
		}
		a.LocalSet(s2).LocalSet(s1)
		for j := range res {
			a.LocalGet(np + uint32(j))
		}
		a.LocalGet(s1).LocalGet(s2)
		p.Body = a.B
	}
	p.ResTaint = make([]taint, len(p.Results))
	p.SigOps = d.sig()
	p.Desc = "tcchain " + p.SigOps
	// argument vectors: position sentinels and two rotations of the boundary alphabets
	ns := nslots(p0)
	if ns == 0 {
		p.ArgVecs = [][]uint64{{}}
	} else {
		var v []uint64
		for _, t := range p0 {
			for s := 0; s < slots(t); s++ {
				x := uint64(0x1111111111111111) * uint64(len(v)+1)
				if t == i32 {
					x &= 0xffffffff
				}
				v = append(v, x)
			}
		}
		p.ArgVecs = append(p.ArgVecs, v)
		for r := 0; r < 2; r++ {
			var w []uint64
			for _, t := range p0 {
				for s := 0; s < slots(t); s++ {
					al := i64Alpha
					if t == i32 {
						al = i32Alpha
					}
					w = append(w, al[(len(w)+5*r+2)%len(al)])
				}
			}
			p.ArgVecs = append(p.ArgVecs, w)
		}
	}
	dd := *d
	p.Expect = func(args, got []uint64) []uint64 { return dd.expect(args) }
	return p
}

func tccLibrary() []byte {
	lib := &wb.Module{}
	for li, ps := range tccLists {
		for ri, rs := range tccResLists {
			a := &wb.Asm{}
			tccEmitMk(a, rs, func() { tccEmitFold(a, ps) })
			lib.ExportFunc(fmt.Sprintf("fin_%d_%d", li, ri), lib.AddFunc(ps, rs, nil, a.B))
		}
	}
	return lib.Encode()
}

func (f *tcchainFamily) Run(rts [2]wazero.Runtime, c int, sel *replay, res *chunkRes, verbose bool) {
	libBin := tccLibrary()
	for e := 0; e < 2; e++ {
		m, err := rts[e].InstantiateWithConfig(bg, libBin, wazero.NewModuleConfig().WithName(tccLib))
		if err != nil {
			res.Err = fmt.Sprintf("tcchain: library module on %s: %v", engineNames[e], err)
			return
		}
		defer m.Close(bg)
	}
	lo := c * tccBatch
	hi := lo + tccBatch
	if hi > len(f.descs) {
		hi = len(f.descs)
	}
	descs := f.descs[lo:hi]
	var progs []*Prog
	build := func(m *wb.Module) {
		progs = progs[:0]
		ctx := &tccCtx{m: m, slot: map[uint32]uint32{}}
		for li, ps := range tccLists {
			var row []uint32
			for ri, rs := range tccResLists {
				row = append(row, m.ImportFunc(tccLib, fmt.Sprintf("fin_%d_%d", li, ri), ps, rs))
			}
			ctx.imp = append(ctx.imp, row)
		}
		ctx.hlp = m.AddFunc([]byte{i64}, []byte{i64}, nil, (&wb.Asm{}).LocalGet(0).I64Const(tccHlpMul).Op(0x7e).I64Const(tccHlpAdd).Op(0x7c).B)
		helpers := 1
		for i := range descs {
			helpers += descs[i].helpers()
		}
		base := m.NumImportedFuncs() + uint32(helpers)
		for i := range descs {
			progs = append(progs, ctx.build(&descs[i], base+uint32(i)))
		}
		if got := m.NumImportedFuncs() + uint32(len(m.Funcs)); got != base {
			panic(fmt.Sprintf("tcchain: function index bookkeeping: %d helpers expected to end at %d, got %d", helpers, base, got))
		}
		if len(ctx.elems) == 0 {
			ctx.elems = []uint32{ctx.hlp}
		}
		m.Tables = []wb.Table{{Elem: funcref, Lim: wb.Limits{Min: uint32(len(ctx.elems))}}}
		m.Elems = []wb.Elem{{Mode: 0, Offset: wb.CI32(0), Funcs: ctx.elems}}
	}
	build(&wb.Module{})
	built := append([]*Prog{}, progs...)
	only := -1
	var args []uint64
	if sel != nil {
		only, args = sel.Prog, sel.Args
	}
	if sel == nil {
		res.Samples = append(res.Samples, map[string]any{"family": "tcchain", "chunk": c, "program": built[len(built)/2].describe()})
	}
	runStateless(slOpts{fam: "tcchain", tier: f.tier, chunk: c, pre: build}, rts, built, only, args, res, verbose)
}
