package main

import (
	"fmt"
	"strings"

	"github.com/tetratelabs/wazero"
	"github.com/tetratelabs/wazero/verif/wb"
)

// cfg(D,N): all statement trees with at most N nodes and nesting depth at most D over
//
//	stmt ::= upd | return | br l | br_if l | br_table [l..] l | block bt body | loop bt body
//	       | if bt body | if bt body else body
//
// with block types from {[]->[], []->[i32], [i32]->[i32], [i32,i64]->[i64,i32]}. Values that enter or leave
// a block (parameters, results, branch operands) are produced from and absorbed into an accumulator local with
// site-unique constants, so a wrong path or a wrong value transfer changes the function result. A fuel local is
// decremented at every loop header and the function returns when it reaches zero, so every program terminates.
// Conditions test bit s of parameter x (s = index of the condition site), br_table selects on parameter y.

const (
	nUpd = iota
	nReturn
	nBr
	nBrIf
	nBrIfEqz
	nBrTable
	nBlock
	nLoop
	nIf
	nIfElse
)

type cnode struct {
	kind   int
	bt     int
	label  int
	labels []int
	body   []*cnode
	els    []*cnode
}

type btype struct {
	name   string
	params []byte
	res    []byte
}

var cfgBT = []btype{
	{"[]->[]", nil, nil},
	{"[]->[i32]", nil, []byte{i32}},
	{"[i32]->[i32]", []byte{i32}, []byte{i32}},
	{"[i32,i64]->[i64,i32]", []byte{i32, i64}, []byte{i64, i32}},
}

type cfgSpec struct {
	Name     string
	Results  []byte // function results
	MaxNodes int
	MaxDepth int
	BTs      []int // admitted block types
	Table2   bool  // admit br_table with two labels
	EqzForm  bool  // admit the eqz-fused form of br_if
}

type cfgEnum struct {
	spec cfgSpec
}

// enumerate yields every program (a top-level body) in a fixed order.
func (e *cfgEnum) enumerate(yield func(body []*cnode) bool) {
	stopped := false
	// scope[i] = label types of the i-th enclosing label, innermost last; scope[0] is the function label.
	type scopeT [][]byte
	var genBody func(scope scopeT, budget, depth int, acc []*cnode, k func(body []*cnode, left int))
	var genStmt func(scope scopeT, budget, depth int, k func(n *cnode, left int))
	genBody = func(scope scopeT, budget, depth int, acc []*cnode, k func(body []*cnode, left int)) {
		if stopped {
			return
		}
		k(acc, budget)
		if budget == 0 {
			return
		}
		genStmt(scope, budget, depth, func(n *cnode, left int) {
			nb := append(append(make([]*cnode, 0, len(acc)+1), acc...), n)
			genBody(scope, left, depth, nb, k)
		})
	}
	same := func(a, b []byte) bool { return string(a) == string(b) }
	genStmt = func(scope scopeT, budget, depth int, k func(n *cnode, left int)) {
		if stopped || budget == 0 {
			return
		}
		left := budget - 1
		k(&cnode{kind: nUpd}, left)
		k(&cnode{kind: nReturn}, left)
		n := len(scope)
		for l := 0; l < n; l++ {
			k(&cnode{kind: nBr, label: l}, left)
		}
		for l := 0; l < n; l++ {
			k(&cnode{kind: nBrIf, label: l}, left)
			if e.spec.EqzForm {
				k(&cnode{kind: nBrIfEqz, label: l}, left)
			}
		}
		for d := 0; d < n; d++ {
			td := scope[n-1-d]
			for a := 0; a < n; a++ {
				if !same(scope[n-1-a], td) {
					continue
				}
				k(&cnode{kind: nBrTable, labels: []int{a}, label: d}, left)
				if !e.spec.Table2 {
					continue
				}
				for b := 0; b < n; b++ {
					if b == a || !same(scope[n-1-b], td) {
						continue
					}
					k(&cnode{kind: nBrTable, labels: []int{a, b}, label: d}, left)
				}
			}
		}
		if depth == 0 {
			return
		}
		for _, bt := range e.spec.BTs {
			t := cfgBT[bt]
			inner := append(append(scopeT{}, scope...), t.res)
			genBody(inner, left, depth-1, nil, func(body []*cnode, l2 int) {
				k(&cnode{kind: nBlock, bt: bt, body: body}, l2)
			})
			innerL := append(append(scopeT{}, scope...), t.params)
			genBody(innerL, left, depth-1, nil, func(body []*cnode, l2 int) {
				k(&cnode{kind: nLoop, bt: bt, body: body}, l2)
			})
			if same(t.params, t.res) {
				genBody(inner, left, depth-1, nil, func(body []*cnode, l2 int) {
					k(&cnode{kind: nIf, bt: bt, body: body}, l2)
				})
			}
			genBody(inner, left, depth-1, nil, func(body []*cnode, l2 int) {
				genBody(inner, l2, depth-1, nil, func(els []*cnode, l3 int) {
					k(&cnode{kind: nIfElse, bt: bt, body: body, els: els}, l3)
				})
			})
		}
	}
	genBody(scopeT{e.spec.Results}, e.spec.MaxNodes, e.spec.MaxDepth, nil, func(body []*cnode, left int) {
		if stopped || len(body) == 0 {
			return
		}
		if !yield(body) {
			stopped = true
		}
	})
}

func (e *cfgEnum) count() int {
	c := 0
	e.enumerate(func([]*cnode) bool { c++; return true })
	return c
}

// ---- emission

const (
	lX    = 0
	lY    = 1
	lFuel = 2
	lAcc  = 3
	lT64  = 4
)

type cfgEmit struct {
	a       *wb.Asm
	m       *wb.Module // for multi-value block type indexes
	site    int32
	conds   int
	tables  int
	results []byte
	desc    strings.Builder
	ops     map[string]bool
	opList  []string
}

func (c *cfgEmit) op(name string) {
	if !c.ops[name] {
		c.ops[name] = true
		c.opList = append(c.opList, name)
	}
}

func (c *cfgEmit) nextSite() int32 { c.site++; return c.site }

func (c *cfgEmit) produce(ts []byte) {
	for _, t := range ts {
		k := c.nextSite()
		switch t {
		case i32:
			c.a.LocalGet(lAcc).I32Const(k * 7).Op(0x73) // xor
		case i64:
			c.a.LocalGet(lAcc).Op(0xad).I64Const(int64(k)<<33 | 5).Op(0x7c) // extend_u ; add
		}
	}
}

func (c *cfgEmit) absorb(ts []byte) {
	for i := len(ts) - 1; i >= 0; i-- {
		if ts[i] == i64 {
			c.a.LocalTee(lT64).Op(0xa7).LocalGet(lT64).I64Const(32).Op(0x88).Op(0xa7).Op(0x6a) // lo + hi
		}
		c.a.LocalGet(lAcc).I32Const(33).Op(0x6c).Op(0x73).LocalSet(lAcc) // acc = v ^ acc*33
	}
}

func (c *cfgEmit) cond(eqz bool) {
	s := c.conds
	c.conds++
	c.a.LocalGet(lX).I32Const(int32(s)).Op(0x76).I32Const(1).Op(0x71)
	if eqz {
		c.a.Op(0x45)
	}
}

func (c *cfgEmit) blockType(op byte, bt int) {
	t := cfgBT[bt]
	switch {
	case len(t.params) == 0 && len(t.res) == 0:
		c.a.Op(op).Op(wb.Void)
	case len(t.params) == 0 && len(t.res) == 1:
		c.a.Op(op).Op(t.res[0])
	default:
		c.a.Op(op).S(int64(c.m.Type(t.params, t.res)))
	}
}

// scope entries: label types, innermost last.
func (c *cfgEmit) stmts(body []*cnode, scope [][]byte, ind string) {
	for _, n := range body {
		c.stmt(n, scope, ind)
	}
}

func (c *cfgEmit) stmt(n *cnode, scope [][]byte, ind string) {
	lt := func(l int) []byte { return scope[len(scope)-1-l] }
	switch n.kind {
	case nUpd:
		k := c.nextSite()
		c.a.LocalGet(lAcc).I32Const(5).Op(0x6c).I32Const(k).Op(0x6a).LocalSet(lAcc)
		fmt.Fprintf(&c.desc, "%supd\n", ind)
	case nReturn:
		c.produce(c.results)
		c.a.Return()
		c.op("return")
		fmt.Fprintf(&c.desc, "%sreturn\n", ind)
	case nBr:
		c.produce(lt(n.label))
		c.a.Br(uint32(n.label))
		c.op("br")
		fmt.Fprintf(&c.desc, "%sbr %d\n", ind, n.label)
	case nBrIf, nBrIfEqz:
		c.produce(lt(n.label))
		c.cond(n.kind == nBrIfEqz)
		c.a.BrIf(uint32(n.label))
		c.absorb(lt(n.label))
		if n.kind == nBrIfEqz {
			c.op("eqz+br_if")
			fmt.Fprintf(&c.desc, "%sbr_if(eqz) %d\n", ind, n.label)
		} else {
			c.op("br_if")
			fmt.Fprintf(&c.desc, "%sbr_if %d\n", ind, n.label)
		}
	case nBrTable:
		c.produce(lt(n.label))
		c.a.LocalGet(lY)
		ls := make([]uint32, len(n.labels))
		for i, l := range n.labels {
			ls[i] = uint32(l)
		}
		c.a.BrTable(ls, uint32(n.label))
		c.tables++
		c.op(fmt.Sprintf("br_table/%d", len(n.labels)))
		fmt.Fprintf(&c.desc, "%sbr_table %v default %d\n", ind, n.labels, n.label)
	case nBlock:
		t := cfgBT[n.bt]
		c.produce(t.params)
		c.blockType(0x02, n.bt)
		c.absorb(t.params)
		fmt.Fprintf(&c.desc, "%sblock %s\n", ind, t.name)
		c.stmts(n.body, append(scope, t.res), ind+"  ")
		c.produce(t.res)
		c.a.End()
		c.absorb(t.res)
		c.op("block" + t.name)
	case nLoop:
		t := cfgBT[n.bt]
		c.produce(t.params)
		c.blockType(0x03, n.bt)
		// header: fuel check
		c.a.LocalGet(lFuel).Op(0x45).If(wb.Void)
		c.produce(c.results)
		c.a.Return().End()
		c.a.LocalGet(lFuel).I32Const(1).Op(0x6b).LocalSet(lFuel)
		c.absorb(t.params)
		fmt.Fprintf(&c.desc, "%sloop %s\n", ind, t.name)
		c.stmts(n.body, append(scope, t.params), ind+"  ")
		c.produce(t.res)
		c.a.End()
		c.absorb(t.res)
		c.op("loop" + t.name)
	case nIf, nIfElse:
		t := cfgBT[n.bt]
		c.produce(t.params)
		c.cond(false)
		c.blockType(0x04, n.bt)
		c.absorb(t.params)
		fmt.Fprintf(&c.desc, "%sif %s\n", ind, t.name)
		c.stmts(n.body, append(scope, t.res), ind+"  ")
		c.produce(t.res)
		if n.kind == nIfElse {
			c.a.Else()
			c.absorb(t.params)
			fmt.Fprintf(&c.desc, "%selse\n", ind)
			c.stmts(n.els, append(scope, t.res), ind+"  ")
			c.produce(t.res)
			c.op("if-else" + t.name)
		} else {
			c.op("if" + t.name)
		}
		c.a.End()
		c.absorb(t.res)
	}
}

var cfgYAlpha = []uint64{0, 1, 2, 3, 0xffffffff, 0x80000000}

// build emits the program. m is the module the function will live in (block type indexes are interned there).
func (e *cfgEnum) build(body []*cnode, m *wb.Module) *Prog {
	c := &cfgEmit{a: &wb.Asm{}, m: m, results: e.spec.Results, ops: map[string]bool{}}
	c.a.I32Const(6).LocalSet(lFuel)
	c.a.LocalGet(lX).LocalGet(lY).Op(0x6a).LocalSet(lAcc)
	c.stmts(body, [][]byte{e.spec.Results}, "")
	c.produce(e.spec.Results)
	p := &Prog{Params: []byte{i32, i32}, Results: e.spec.Results, Locals: []byte{i32, i32, i64}, Body: c.a.B}
	p.ResTaint = make([]taint, len(p.Results))
	p.Desc = strings.ReplaceAll(strings.TrimSpace(c.desc.String()), "\n", " / ")
	p.SigOps = strings.Join(c.opList, ",")
	if p.SigOps == "" {
		p.SigOps = "straight"
	}
	// argument vectors: every combination of the condition bits, times the br_table selector alphabet
	nx := 1 << c.conds
	ys := []uint64{0}
	if c.tables > 0 {
		ys = cfgYAlpha
	}
	for x := 0; x < nx; x++ {
		for _, y := range ys {
			p.ArgVecs = append(p.ArgVecs, []uint64{uint64(x), y})
		}
	}
	return p
}

// ---- family

type cfgFamily struct {
	tier   string
	enums  []*cfgEnum
	counts []int
	starts []int
	total  int
	cur    *cursor
	curS   int
}

func cfgSpecs(tier string) []cfgSpec {
	if tier == "thorough" {
		return []cfgSpec{
			{Name: "plain/N3D3", Results: []byte{i32}, MaxNodes: 3, MaxDepth: 3, BTs: []int{0, 1, 2, 3}, Table2: true, EqzForm: true},
			{Name: "plain/N4D3", Results: []byte{i32}, MaxNodes: 4, MaxDepth: 3, BTs: []int{0, 2, 3}, Table2: false, EqzForm: false},
			{Name: "mv/N3D3", Results: []byte{i64, i32}, MaxNodes: 3, MaxDepth: 3, BTs: []int{0, 1, 2, 3}, Table2: true, EqzForm: false},
		}
	}
	return []cfgSpec{
		{Name: "plain/N3D2", Results: []byte{i32}, MaxNodes: 3, MaxDepth: 2, BTs: []int{0, 1, 2, 3}, Table2: true, EqzForm: true},
		{Name: "mv/N2D2", Results: []byte{i64, i32}, MaxNodes: 2, MaxDepth: 2, BTs: []int{0, 1, 2, 3}, Table2: true, EqzForm: true},
	}
}

func newCfgFamily(tier string) *cfgFamily {
	f := &cfgFamily{tier: tier, curS: -1}
	for _, s := range cfgSpecs(tier) {
		e := &cfgEnum{spec: s}
		c := e.count()
		f.enums = append(f.enums, e)
		f.counts = append(f.counts, c)
		f.starts = append(f.starts, f.total)
		f.total += (c + batchSize - 1) / batchSize
	}
	return f
}

func (f *cfgFamily) Name() string { return "cfg" }
func (f *cfgFamily) Chunks() int  { return f.total }
func (f *cfgFamily) Bounds() map[string]any {
	specs := map[string]any{}
	for i, e := range f.enums {
		var bts []string
		for _, b := range e.spec.BTs {
			bts = append(bts, cfgBT[b].name)
		}
		specs[e.spec.Name] = map[string]any{"results": tnames(e.spec.Results), "max_nodes": e.spec.MaxNodes, "max_depth": e.spec.MaxDepth,
			"block_types": bts, "br_table_two_labels": e.spec.Table2, "eqz_fused_br_if": e.spec.EqzForm, "programs": f.counts[i]}
	}
	return map[string]any{"specs": specs, "fuel": 6, "br_table_selector_alphabet": len(cfgYAlpha), "condition_inputs": "all 2^(#condition sites) bit vectors"}
}

func (f *cfgFamily) Run(rts [2]wazero.Runtime, c int, sel *replay, res *chunkRes, verbose bool) {
	s := len(f.starts) - 1
	for ; s > 0 && c < f.starts[s]; s-- {
	}
	lo := (c - f.starts[s]) * batchSize
	hi := lo + batchSize
	if hi > f.counts[s] {
		hi = f.counts[s]
	}
	e := f.enums[s]
	if f.curS != s || f.cur == nil || f.cur.pos > lo {
		if f.cur != nil {
			f.cur.stop()
		}
		f.cur = newCursor(func(yield func(any) bool) { e.enumerate(func(b []*cnode) bool { return yield(b) }) })
		f.curS = s
	}
	items := f.cur.take(lo, hi)
	// block type indexes must be valid in the final module: intern the multi-value types first, in a fixed order
	pre := func(m *wb.Module) {
		for _, t := range cfgBT {
			m.Type(t.params, t.res)
		}
	}
	m := &wb.Module{}
	pre(m)
	var progs []*Prog
	for _, it := range items {
		progs = append(progs, e.build(it.([]*cnode), m))
	}
	only := -1
	var args []uint64
	if sel != nil {
		only, args = sel.Prog, sel.Args
	}
	if sel == nil && len(progs) > 0 {
		res.Samples = append(res.Samples, map[string]any{"family": "cfg", "chunk": c, "program": progs[len(progs)/2].describe()})
	}
	runStateless(slOpts{fam: "cfg", tier: f.tier, chunk: c, pre: pre}, rts, progs, only, args, res, verbose)
}
