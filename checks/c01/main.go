// C01 — compiler and interpreter agree on every valid program.
//
// Exhaustive (never random) enumeration of by-construction-valid programs from finite grammars
// (families expr, cfg, mem, glob, tab, bulk, call, pressure, simd, atomic, memorder, cfgmem, tailcall, tcchain, xmod,
// tblock, opreuse, condfuse, reexport — see NOTES.md), emitted with wb, executed
// on wazero's optimizing compiler and on its interpreter with every argument vector over boundary
// alphabets and, for the stateful families, every bounded history of export calls on one instance
// per engine. Oracle: differential (see NOTES.md). One chunk = one module of up to ~500 functions;
// chunks run in supervised child processes because a miscompilation may SIGSEGV.
package main

import (
	"encoding/base64"
	"encoding/json"
	"fmt"
	"os"
	"os/exec"
	"runtime"
	"runtime/debug"
	"sort"
	"strconv"
	"strings"
	"time"

	"github.com/tetratelabs/wazero"
	"github.com/tetratelabs/wazero/verif/fw"
)

func families(tier string) []family {
	fams := []family{
		newExprFamily(tier),
	}
	fams = append(fams, moreFamilies(tier)...)
	if only := os.Getenv("C01_FAMILIES"); only != "" { // development aid; never set by the scripts
		var sel []family
		for _, f := range fams {
			for _, n := range strings.Split(only, ",") {
				if f.Name() == n {
					sel = append(sel, f)
				}
			}
		}
		fams = sel
	}
	return fams
}

type unit struct {
	fam   family
	chunk int
}

func units(fams []family) []unit {
	// interleave families so that every child gets a mix (static striding in fw.Supervise)
	var us []unit
	for _, f := range fams {
		for c := 0; c < f.Chunks(); c++ {
			us = append(us, unit{f, c})
		}
	}
	return us
}

func newRuntimes() [2]wazero.Runtime {
	return [2]wazero.Runtime{newRuntime(0), newRuntime(1)}
}

func tuneGC() {
	// histories allocate a fresh 64 KiB memory per instance: collect less often (bounded by a soft limit)
	debug.SetGCPercent(1000)
	debug.SetMemoryLimit(512 << 20)
}

func child(tier string) {
	tuneGC()
	fams := families(tier)
	us := units(fams)
	rts := newRuntimes()
	done := 0
	bad := 0
	var deadline time.Time
	if v, err := strconv.ParseInt(os.Getenv("C01_DEADLINE_UNIX"), 10, 64); err == nil && v > 0 {
		deadline = time.Unix(v, 0)
	}
	fw.ChildLoop(func(i int) string {
		// fw.Supervise polls Stop only when it (re)starts a worker, so the worker itself honours the budget, and it
		// stops collecting once it has seen mismatches in several chunks (the verdict is settled by then).
		if bad >= 3 || (!deadline.IsZero() && time.Now().After(deadline)) {
			return `{"k":true}`
		}
		var res chunkRes
		u := us[i]
		u.fam.Run(rts, u.chunk, nil, &res, false)
		res.finish()
		if len(res.Mis) > 0 && !res.allClassified {
			bad++
		}
		done++
		if done%64 == 0 {
			// runtimes accumulate per-module bookkeeping; recycle them now and then
			rts[0].Close(bg)
			rts[1].Close(bg)
			rts = newRuntimes()
		}
		b, err := json.Marshal(&res)
		if err != nil {
			return `{"e":"marshal: ` + strings.ReplaceAll(err.Error(), `"`, `'`) + `"}`
		}
		return string(b)
	})
}

func doReplay(path string) {
	b, err := os.ReadFile(path)
	if err != nil {
		fw.Fatalf("replay: %v", err)
	}
	var doc struct {
		Signature string `json:"signature"`
		What      string `json:"what"`
		Replay    replay `json:"replay"`
	}
	if err := json.Unmarshal(b, &doc); err != nil {
		fw.Fatalf("replay: %v", err)
	}
	rp := doc.Replay
	if rp.Tier == "" {
		rp.Tier = "quick"
	}
	fmt.Printf("replaying %s\n  recorded: %s\n", doc.Signature, doc.What)
	if rp.Prog < 0 && os.Getenv("C01_REPLAY_INNER") == "" {
		// a crashing / hanging chunk is replayed as a whole in a subprocess so that the crash is reported, not suffered
		self, _ := os.Executable()
		cmd := exec.Command(self, "replay", path)
		cmd.Env = append(os.Environ(), "C01_REPLAY_INNER=1")
		out, err := cmd.CombinedOutput()
		tail := string(out)
		if len(tail) > 3000 {
			tail = tail[:1500] + "\n...\n" + tail[len(tail)-1500:]
		}
		fmt.Println(tail)
		if err != nil {
			fmt.Printf("STILL FAILS: replaying the whole chunk ends with %v\n", err)
			os.Exit(1)
		}
		os.Exit(0)
	}
	for _, f := range families(rp.Tier) {
		if f.Name() != rp.Family {
			continue
		}
		var res chunkRes
		rts := newRuntimes()
		f.Run(rts, rp.Chunk, &rp, &res, true)
		if res.Err != "" {
			fw.Fatalf("replay: %s", res.Err)
		}
		if len(res.Mis) > 0 {
			for _, m := range res.Mis {
				fmt.Printf("STILL FAILS signature=%s\n  %s\n", m.Sig, m.What)
			}
			os.Exit(1)
		}
		fmt.Println("replay: engines agree (no longer fails)")
		os.Exit(0)
	}
	fw.Fatalf("replay: unknown family %q", rp.Family)
}

// reproduces re-executes a mismatch in a fresh process through the replay path.
func reproduces(m mismatch) bool {
	self, err := os.Executable()
	if err != nil {
		return true
	}
	f, err := os.CreateTemp("", "c01-replay-*.json")
	if err != nil {
		return true
	}
	defer os.Remove(f.Name())
	json.NewEncoder(f).Encode(map[string]any{"signature": m.Sig, "what": m.What, "replay": m.Replay})
	f.Close()
	for try := 0; try < 2; try++ {
		cmd := exec.Command(self, "replay", f.Name())
		cmd.Env = append(os.Environ(), "VERIF_CHILD=0")
		out, err := cmd.CombinedOutput()
		if ee, ok := err.(*exec.ExitError); ok && ee.ExitCode() == 1 && strings.Contains(string(out), "STILL FAILS") {
			continue
		}
		if err != nil && !strings.Contains(string(out), "engines agree") {
			// the replay itself crashed (e.g. SIGSEGV in generated code): that reproduces a failure
			continue
		}
		return false
	}
	return true
}

func main() {
	if len(os.Args) > 2 && os.Args[1] == "replay" {
		doReplay(os.Args[2])
		return
	}
	if fw.IsChild() {
		tier := os.Getenv("VERIF_TIER")
		for _, a := range os.Args[1:] {
			if a == "quick" || a == "thorough" {
				tier = a
			}
		}
		if tier != "thorough" {
			tier = "quick"
		}
		child(tier)
		return
	}
	run := fw.Start("C01", "exploration")
	if len(os.Args) > 1 && os.Args[1] == "count" {
		for _, f := range families(run.Tier) {
			b, _ := json.MarshalIndent(f.Bounds(), "", " ")
			fmt.Printf("%s: %d chunks\n%s\n", f.Name(), f.Chunks(), b)
		}
		return
	}
	fams := families(run.Tier)
	us := units(fams)

	outcomes := fw.NewCounter()
	samples := fw.NewSampler(16)
	distinct := map[uint64]struct{}{}
	var progs, calls, hists, nontrivSum int64
	perFam := map[string]*[4]int64{}
	reported := map[string]bool{}
	skipped := 0
	workers := runtime.NumCPU()
	if workers > 16 {
		workers = 16
	}
	t0 := time.Now()
	done := fw.Supervise(fw.SupOpts{N: len(us), Workers: workers, CaseTimeout: 10 * time.Minute, Mode: run.Tier,
		Env:  []string{"VERIF_TIER=" + run.Tier, "GOGC=1000", "C01_DEADLINE_UNIX=" + strconv.FormatInt(run.Deadline.Unix(), 10)},
		Stop: func() bool { return run.Expired() }},
		func(i int, out string, crash *fw.Crash) {
			u := us[i]
			if crash != nil {
				// A crash or hang of a child while executing by-construction-valid programs.
				if crash.Kind == "crash" && (strings.Contains(crash.Stderr, "out of memory") || strings.Contains(crash.Stderr, "cannot allocate") || strings.Contains(crash.Stderr, "signal: killed")) {
					// the machine (not the program under test) ran out of memory or killed the worker: not a verdict
					fw.Fatalf("child ran out of memory in %s chunk %d: %s", u.fam.Name(), u.chunk, fw.FirstLines(crash.Stderr, 3))
				}
				kind := "crash"
				first := fw.FirstLines(crash.Stderr, 2)
				if strings.Contains(crash.Stderr, "BUG") {
					kind = "BUG-panic"
				}
				if crash.Kind == "timeout" {
					kind = "hang"
				}
				run.Violation(fmt.Sprintf("%s:chunk-%s", u.fam.Name(), kind),
					fmt.Sprintf("child %s while running %s chunk %d (valid programs only): %s", crash.Kind, u.fam.Name(), u.chunk, first),
					replay{Tier: run.Tier, Family: u.fam.Name(), Chunk: u.chunk, Prog: -1})
				outcomes.Inc("child-" + kind)
				return
			}
			var res chunkRes
			if err := json.Unmarshal([]byte(out), &res); err != nil {
				fw.Fatalf("bad child result for %s chunk %d: %v: %.200s", u.fam.Name(), u.chunk, err, out)
			}
			if res.Err != "" {
				fw.Fatalf("%s", res.Err)
			}
			if res.Skipped {
				skipped++
				return
			}
			progs += res.Progs
			calls += res.Calls
			hists += res.Hists
			nontrivSum += res.Nontriv
			pf := perFam[u.fam.Name()]
			if pf == nil {
				pf = &[4]int64{}
				perFam[u.fam.Name()] = pf
			}
			pf[0] += res.Progs
			pf[1] += res.Calls
			pf[2] += res.Hists
			pf[3]++
			for k, v := range res.Outcomes {
				outcomes.AddN(k, v)
			}
			if hb, err := base64.RawStdEncoding.DecodeString(res.Hashes); err == nil {
				for j := 0; j+8 <= len(hb); j += 8 {
					var h uint64
					for k := 0; k < 8; k++ {
						h |= uint64(hb[j+k]) << (8 * k)
					}
					distinct[h] = struct{}{}
				}
			}
			for _, s := range res.Samples {
				samples.Add(s)
			}
			for _, m := range res.Mis {
				if !reported[m.Sig] {
					reported[m.Sig] = true
					// the first few distinct signatures are re-executed in a fresh process through the replay path
					if len(reported) <= 3 && !reproduces(m) {
						fw.Fatalf("non-reproducible mismatch (harness error, not a verdict): %s: %s", m.Sig, m.What)
					}
				}
				run.Violation(m.Sig, m.What, m.Replay)
			}

		})
	if done < len(us) || skipped > 0 {
		if run.Violations() > 0 {
			run.Capped("workers-stopped-after-violations")
		} else {
			run.Capped("budget")
		}
	}
	bounds := map[string]any{}
	for _, f := range fams {
		b := f.Bounds()
		if pf := perFam[f.Name()]; pf != nil {
			b["measured"] = map[string]int64{"programs": pf[0], "calls": pf[1], "histories": pf[2], "chunks": pf[3]}
		}
		bounds[f.Name()] = b
	}
	om := outcomes.Map()
	// keep the histogram readable: fold rare dynamic keys
	keys := make([]string, 0, len(om))
	for k := range om {
		keys = append(keys, k)
	}
	sort.Strings(keys)
	run.Finish(fw.Coverage{
		Evaluations:     calls,
		DistinctNontriv: int64(len(distinct)),
		Rule: "evaluation = one export call executed on both engines and compared; distinct_nontrivial = number of distinct generated functions/histories (64-bit FNV of type+locals+body, or of the history) " +
			"whose observable outcome differs between at least two of their argument vectors or which change instance state — i.e. programs that actually compute something input- or state-dependent",
		Samples: samples.List(), Exhaustive: true, Outcomes: om, Bounds: bounds,
		Extra: map[string]any{"programs": progs, "histories": hists, "chunks_done": done - skipped, "chunks_total": len(us), "explore_wall_s": time.Since(t0).Seconds(), "workers": workers},
	}, []string{
		"differential oracle: a defect shared by both engines is invisible here (C05 checks numeric instructions against an independent reference)",
		"NaN results of float arithmetic operators are compared as 'both quiet NaN' (payload and sign are left open by the specification); every other value, including NaN moved by abs/neg/copysign/select/local/load/store/reinterpret of determined inputs, is compared bit for bit",
		"values derived from the payload or sign of such an open NaN (reinterpret, copysign source) are not compared; traps that depend on them are tolerated (counted as tolerated:*)",
		"call-stack exhaustion on either side is tolerated and ends the history",
		"SSA validation and stack-guard checking are switched on through the build overlay as secondary monitors; they add checks but do not change generated code",
		"threads/atomics are executed single-threaded",
	})
}
