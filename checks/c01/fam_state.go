package main

import (
	"fmt"
	"hash/fnv"
	"strings"

	"github.com/tetratelabs/wazero"
	"github.com/tetratelabs/wazero/api"
	"github.com/tetratelabs/wazero/verif/wb"
)

// Stateful families (mem, glob, tab, bulk, call). For every sequence of n <= L effectful operations over the
// family's alphabet and every way of cutting that sequence into at most d consecutive function bodies, the
// resulting exports are called in order on ONE fresh instance per engine (a history of <= d export calls), with
// every argument vector of the family's parameter alphabet. After every call the results, the trap class and the
// host-call log are compared; after the last call also memory bytes and size, all globals and every table slot
// (null-ness and resolved function index).

type seqSpec struct {
	alpha []int // indexes into ops
	n     int   // exact sequence length
}

type stateFamily struct {
	name   string
	tier   string
	ops    []sop
	p0     []uint64
	specs  []seqSpec
	depth  int // max calls per history
	chunks []stChunk
	shared bool
}

// stChunk: all sequences of spec s whose first n-1 operations are prefix.
type stChunk struct {
	spec   int
	prefix []int
}

func newStateFamily(name, tier string, ops []sop, p0 []uint64, lFull, lCore, depth int) *stateFamily {
	f := &stateFamily{name: name, tier: tier, ops: ops, p0: p0, depth: depth}
	var all, core []int
	for i, o := range ops {
		all = append(all, i)
		if o.core {
			core = append(core, i)
		}
	}
	for n := 1; n <= lFull; n++ {
		f.specs = append(f.specs, seqSpec{all, n})
	}
	for n := lFull + 1; n <= lCore; n++ {
		f.specs = append(f.specs, seqSpec{core, n})
	}
	for si, s := range f.specs {
		// prefixes of length n-1
		var rec func(p []int)
		rec = func(p []int) {
			if len(p) == s.n-1 {
				f.chunks = append(f.chunks, stChunk{si, append([]int{}, p...)})
				return
			}
			for _, a := range s.alpha {
				rec(append(p, a))
			}
		}
		rec(nil)
	}
	return f
}

func (f *stateFamily) Name() string { return f.name }
func (f *stateFamily) Chunks() int  { return len(f.chunks) }
func (f *stateFamily) Bounds() map[string]any {
	var sp []any
	for _, s := range f.specs {
		sp = append(sp, map[string]any{"alphabet": len(s.alpha), "length": s.n})
	}
	names := make([]string, len(f.ops))
	for i, o := range f.ops {
		names[i] = o.name
	}
	return map[string]any{"operations": names, "sequences": sp, "max_calls_per_history": f.depth, "p0_alphabet": f.p0, "p1_alphabet": p1Vals}
}

// compositions of n into at most d positive parts, in a fixed order.
func compositions(n, d int) [][]int {
	var out [][]int
	var rec func(rem int, cur []int)
	rec = func(rem int, cur []int) {
		if rem == 0 {
			out = append(out, append([]int{}, cur...))
			return
		}
		if len(cur) == d {
			return
		}
		for k := rem; k >= 1; k-- {
			rec(rem-k, append(cur, k))
		}
	}
	rec(n, nil)
	return out
}

type stHistory struct {
	seq   []int
	cuts  []int // lengths of the bodies
	funcs []int // index into the chunk's function list
}

type stFunc struct {
	seq     []int
	name    string
	results []byte
}

// validBody: a tail call may only be the last operation of a body.
func (f *stateFamily) validBody(seq []int) bool {
	for i, a := range seq {
		if f.ops[a].tail && i != len(seq)-1 {
			return false
		}
	}
	return true
}

func (f *stateFamily) bodyName(seq []int) string {
	parts := make([]string, len(seq))
	for i, a := range seq {
		parts[i] = f.ops[a].name
	}
	return strings.Join(parts, " ; ")
}

// plan enumerates the histories of a chunk and the distinct function bodies they need.
func (f *stateFamily) plan(c int) (funcs []stFunc, hists []stHistory) {
	ch := f.chunks[c]
	s := f.specs[ch.spec]
	index := map[string]int{}
	fn := func(seq []int) int {
		key := fmt.Sprint(seq)
		if i, ok := index[key]; ok {
			return i
		}
		var res []byte
		for _, a := range seq {
			if f.ops[a].tail {
				res = append([]byte{}, f.ops[a].push...)
			} else {
				res = append(res, f.ops[a].push...)
			}
		}
		index[key] = len(funcs)
		funcs = append(funcs, stFunc{seq: append([]int{}, seq...), name: fmt.Sprintf("f%d", len(funcs)), results: res})
		return len(funcs) - 1
	}
	comps := compositions(s.n, f.depth)
	for _, last := range s.alpha {
		seq := append(append([]int{}, ch.prefix...), last)
	nextComp:
		for _, cuts := range comps {
			h := stHistory{seq: seq, cuts: cuts}
			at := 0
			for _, k := range cuts {
				if !f.validBody(seq[at : at+k]) {
					continue nextComp
				}
				at += k
			}
			at = 0
			for _, k := range cuts {
				h.funcs = append(h.funcs, fn(seq[at:at+k]))
				at += k
			}
			hists = append(hists, h)
		}
	}
	return
}

func (f *stateFamily) argVectors(seq []int) [][]uint64 {
	u0, u1 := false, false
	for _, a := range seq {
		u0 = u0 || f.ops[a].p0
		u1 = u1 || f.ops[a].p1
	}
	var out [][]uint64
	switch {
	case u0:
		for _, v := range f.p0 {
			out = append(out, []uint64{v, p1Vals[0]})
		}
		if u1 {
			out = append(out, []uint64{f.p0[0], p1Vals[1]})
		}
	case u1:
		for _, v := range p1Vals {
			out = append(out, []uint64{f.p0[0], v})
		}
	default:
		out = [][]uint64{{f.p0[0], p1Vals[0]}}
	}
	return out
}

// stRunner keeps per-runtime host modules and logs.
type stRunner struct {
	rts  [2]wazero.Runtime
	logs [2]*hostLog
}

var runners = map[wazero.Runtime]*stRunner{}

func runnerFor(rts [2]wazero.Runtime) *stRunner {
	if r, ok := runners[rts[0]]; ok {
		return r
	}
	r := &stRunner{rts: rts}
	for e := 0; e < 2; e++ {
		r.logs[e] = &hostLog{}
		instantiateHost(rts[e], r.logs[e])
	}
	for k := range runners {
		delete(runners, k) // old runtimes were closed by the caller
	}
	runners[rts[0]] = r
	return r
}

func (f *stateFamily) Run(rts [2]wazero.Runtime, c int, sel *replay, res *chunkRes, verbose bool) {
	funcs, hists := f.plan(c)
	w := newWorld(f.shared)
	params := []byte{i32, i64}
	for _, fn := range funcs {
		a := &wb.Asm{}
		for _, op := range fn.seq {
			f.ops[op].emit(a, w)
		}
		idx := w.m.AddFunc(params, fn.results, nil, a.B)
		w.m.ExportFunc(fn.name, idx)
	}
	bin := w.m.Encode()
	r := runnerFor(rts)
	tw, cls := compileBoth(rts, bin)
	defer tw.close()
	if cls[0] != "ok" || cls[1] != "ok" {
		if cls[0] != "ok" && cls[1] != "ok" && strings.HasPrefix(cls[0], "error:") && strings.HasPrefix(cls[1], "error:") {
			res.Err = fmt.Sprintf("%s chunk %d: generated module rejected by both engines: %s", f.name, c, cls[0])
			return
		}
		res.mismatch(mismatch{Sig: f.name + ":compile-differs", What: fmt.Sprintf("compilation outcome differs for a valid %s module: compiler=%s interpreter=%s", f.name, cls[0], cls[1]),
			Replay: replay{Tier: f.tier, Family: f.name, Chunk: c, Prog: -1}})
		return
	}
	res.Progs += int64(len(funcs))
	// the initial state, for non-triviality accounting (did the history change anything?)
	if mod, err := rts[1].InstantiateModule(bg, tw.code[1], modCfg); err == nil {
		if s, e := takeSnapshot(mod); e == "" {
			s.mem = append([]byte{}, s.mem...)
			tw.initial = &s
		}
		mod.Close(bg)
	}
	if sel == nil && len(hists) > 0 {
		h := hists[len(hists)/2]
		res.Samples = append(res.Samples, map[string]any{"family": f.name, "chunk": c, "history": f.describe(funcs, h)})
	}
	for hi, h := range hists {
		if sel != nil && sel.Prog >= 0 && hi != sel.Prog {
			continue
		}
		for _, args := range f.argVectors(h.seq) {
			if sel != nil && sel.Args != nil && fmt.Sprint(sel.Args) != fmt.Sprint(args) {
				continue
			}
			f.runHistory(r, tw, c, hi, funcs, h, args, res, verbose)
		}
	}
}

func (f *stateFamily) describe(funcs []stFunc, h stHistory) []string {
	var calls []string
	for _, fi := range h.funcs {
		calls = append(calls, "{"+f.bodyName(funcs[fi].seq)+"}")
	}
	return calls
}

func (f *stateFamily) sigOf(funcs []stFunc, h stHistory) string {
	var calls []string
	for _, fi := range h.funcs {
		var ns []string
		for _, a := range funcs[fi].seq {
			n := f.ops[a].name
			ns = append(ns, n)
		}
		calls = append(calls, strings.Join(ns, ";"))
	}
	return sanitizeSig(strings.Join(calls, "|"))
}

func (f *stateFamily) runHistory(r *stRunner, tw *twin, c, hi int, funcs []stFunc, h stHistory, args []uint64, res *chunkRes, verbose bool) {
	var mods [2]api.Module
	for e := 0; e < 2; e++ {
		mod, err := r.rts[e].InstantiateModule(bg, tw.code[e], modCfg)
		if err != nil {
			res.Err = fmt.Sprintf("%s chunk %d: instantiate on %s: %v", f.name, c, engineNames[e], err)
			return
		}
		mods[e] = mod
		r.logs[e].calls = r.logs[e].calls[:0]
	}
	defer mods[0].Close(bg)
	defer mods[1].Close(bg)
	res.Hists++
	report := func(kind, what string) {
		res.mismatch(mismatch{
			Sig:    f.name + ":" + f.sigOf(funcs, h) + ":" + kind,
			What:   fmt.Sprintf("%s history %v args=(p0=0x%x,p1=0x%x): %s", f.name, f.describe(funcs, h), args[0], args[1], what),
			Replay: replay{Tier: f.tier, Family: f.name, Chunk: c, Prog: hi, Args: args, Info: map[string]any{"history": f.describe(funcs, h)}},
		})
	}
	if verbose {
		fmt.Printf("history %v args=(p0=0x%x,p1=0x%x)\n", f.describe(funcs, h), args[0], args[1])
	}
	var sa, sb [8]uint64
	interesting := false
	aborted := false
	for ci, fi := range h.funcs {
		fn := funcs[fi]
		fa, fb := mods[0].ExportedFunction(fn.name), mods[1].ExportedFunction(fn.name)
		nr := nslots(fn.results)
		n := 2
		if nr > n {
			n = nr
		}
		copy(sa[:], args)
		copy(sb[:], args)
		ca := safeCall(fa, sa[:n])
		cb := safeCall(fb, sb[:n])
		res.Calls++
		if verbose {
			fmt.Printf("  call %d {%s}: compiler=%s", ci, f.bodyName(fn.seq), ca)
			if ca == "ok" {
				fmt.Printf(" %s", fmtVals(fn.results, sa[:nr]))
			}
			fmt.Printf("  interpreter=%s", cb)
			if cb == "ok" {
				fmt.Printf(" %s", fmtVals(fn.results, sb[:nr]))
			}
			fmt.Printf("\n    host log: compiler=%q interpreter=%q\n", r.logs[0].String(), r.logs[1].String())
		}
		if ca != cb {
			if ca == stackOverflow || cb == stackOverflow {
				res.inc("tolerated:stack-overflow")
				aborted = true
				break
			}
			kind := "trap"
			if strings.HasPrefix(ca, "panic:") || strings.HasPrefix(cb, "panic:") {
				kind = "panic"
			}
			report(kind, fmt.Sprintf("call %d outcome differs: compiler=%s interpreter=%s", ci, ca, cb))
			return
		}
		if strings.HasPrefix(ca, "panic:") || strings.HasPrefix(ca, "other:") {
			report("panic", "both engines fail with a non-trap error: "+ca)
			return
		}
		res.inc(ca)
		if ca == "ok" {
			if why, _ := valuesAgree(fn.results, nil, sa[:nr], sb[:nr]); why != "" {
				report("result", fmt.Sprintf("call %d %s: compiler=%s interpreter=%s", ci, why, fmtVals(fn.results, sa[:nr]), fmtVals(fn.results, sb[:nr])))
				return
			}
			if nr > 0 {
				interesting = true
			}
		} else {
			interesting = true
		}
		if la, lb := r.logs[0].String(), r.logs[1].String(); la != lb {
			report("hostlog", fmt.Sprintf("host-call log differs after call %d: compiler=%q interpreter=%q", ci, la, lb))
			return
		}
	}
	if aborted {
		return
	}
	s0, e0 := takeSnapshot(mods[0])
	s1, e1 := takeSnapshot(mods[1])
	if e0 != "" || e1 != "" {
		res.Err = "snapshot: " + e0 + e1
		return
	}
	if d := s0.diff(&s1); d != "" {
		report("state", "final state differs: "+d)
		return
	}
	if verbose {
		fmt.Printf("  final state: memory %d pages, digest %016x (equal on both engines)\n", s0.memPages, s0.digest())
	}
	if !interesting && len(r.logs[0].calls) == 0 && tw.initial != nil {
		interesting = tw.initial.diff(&s0) != ""
	}
	if interesting || len(r.logs[0].calls) > 0 {
		hh := fnv.New64a()
		fmt.Fprint(hh, f.name, h.seq, h.cuts, args)
		res.nontrivial(hh.Sum64())
	}
}

func stateFamilies(tier string) []family {
	lFull, lCore, depth := 2, 3, 2
	if tier == "thorough" {
		lFull, lCore, depth = 3, 3, 3
	}
	p0Call := []uint64{0, 1, 2, 4, 9, 65536, 0xffffffff}
	return []family{
		newStateFamily("mem", tier, memOps(), p0Mem, lFull, lCore, depth),
		newStateFamily("glob", tier, globOps(), p0Glob, lFull, lCore, depth),
		newStateFamily("tab", tier, tabOps(), p0Tab, lFull, lCore, depth),
		newStateFamily("bulk", tier, bulkOps(), p0Mem, lFull, lCore, depth),
		newStateFamily("call", tier, callOps(), p0Call, lFull, lCore, depth),
	}
}
