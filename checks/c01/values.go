package main

import "github.com/tetratelabs/wazero/verif/wb"

// Boundary alphabets. The first entry of each alphabet is the "default" value used for
// parameters a program never reads.

var i32Alpha = []uint64{
	0, 1, 2, 0xffffffff, 31, 32, 0x7fffffff, 0x80000000, 0x80000001, 0xfffffffe, 0x0000ff80,
}

var i64Alpha = []uint64{
	0, 1, 0xffffffffffffffff, 63, 64, 0x7fffffff, 0x80000000, 0xffffffff, 0x100000000,
	0x7fffffffffffffff, 0x8000000000000000, 0x8000000000000001, 0xffffffff80000000,
}

var f32Alpha = []uint64{
	0x00000000, // +0
	0x80000000, // -0
	0x3f800000, // 1
	0xbfc00000, // -1.5
	0x3f000000, // 0.5 (nearest ties)
	0x7f800000, // +inf
	0xff800000, // -inf
	0x7fc00000, // canonical quiet NaN
	0xffc00001, // negative quiet NaN with payload
	0x7fa00000, // signalling NaN with payload
	0x00000001, // smallest subnormal
	0x007fffff, // largest subnormal
	0x7f7fffff, // max finite
	0x4f000000, // 2^31
	0x4effffff, // just below 2^31
	0xcf000000, // -2^31
	0x4f800000, // 2^32
	0x5f000000, // 2^63
}

var f64Alpha = []uint64{
	0x0000000000000000,
	0x8000000000000000,
	0x3ff0000000000000, // 1
	0xbff8000000000000, // -1.5
	0x3fe0000000000000, // 0.5
	0x7ff0000000000000, // +inf
	0xfff0000000000000, // -inf
	0x7ff8000000000000, // canonical NaN
	0xfff8000000000001, // negative quiet NaN with payload
	0x7ff4000000000000, // signalling NaN
	0x0000000000000001, // smallest subnormal
	0x000fffffffffffff, // largest subnormal
	0x7fefffffffffffff, // max finite
	0x41e0000000000000, // 2^31
	0x41dfffffffc00000, // 2^31-1
	0xc1e0000000000000, // -2^31
	0xc1e0000000200000, // -2^31-1
	0x41f0000000000000, // 2^32
	0x43e0000000000000, // 2^63
	0x47efffffe0000000, // max f32 as f64 (demote boundary)
}

// constants usable inside generated bodies (a subset of the argument alphabets; 9 per type; the longest
// enumerations use only the first one or two, so the most telling values come first)
var i32Consts = []uint64{0xffffffff, 0x80000000, 0, 1, 31, 32, 0x7fffffff, 0x0000ff80, 2}
var i64Consts = []uint64{0xffffffffffffffff, 0x8000000000000000, 0, 1, 63, 64, 0x7fffffffffffffff, 0xffffffff, 0x100000000}
var f32Consts = []uint64{0x7fc00000, 0x80000000, 0, 0x3f800000, 0xbfc00000, 0x7f800000, 0x7fa00000, 0x00000001, 0x4f000000}
var f64Consts = []uint64{0x7ff8000000000000, 0x8000000000000000, 0, 0x3ff0000000000000, 0xbff8000000000000, 0x7ff0000000000000, 0x7ff4000000000000, 1, 0x41e0000000000000}

func alphaOf(t byte) []uint64 {
	switch t {
	case wb.I32:
		return i32Alpha
	case wb.I64:
		return i64Alpha
	case wb.F32:
		return f32Alpha
	case wb.F64:
		return f64Alpha
	}
	panic("alphaOf")
}

func constsOf(t byte) []uint64 {
	switch t {
	case wb.I32:
		return i32Consts
	case wb.I64:
		return i64Consts
	case wb.F32:
		return f32Consts
	case wb.F64:
		return f64Consts
	}
	panic("constsOf")
}

func tname(t byte) string {
	switch t {
	case wb.I32:
		return "i32"
	case wb.I64:
		return "i64"
	case wb.F32:
		return "f32"
	case wb.F64:
		return "f64"
	case wb.V128:
		return "v128"
	case wb.FuncRef:
		return "funcref"
	case wb.ExternRef:
		return "externref"
	}
	return "?"
}

func tnames(ts []byte) string {
	s := "("
	for i, t := range ts {
		if i > 0 {
			s += ","
		}
		s += tname(t)
	}
	return s + ")"
}

// slots returns the number of uint64 stack slots a value type occupies at the api boundary.
func slots(t byte) int {
	if t == wb.V128 {
		return 2
	}
	return 1
}

func nslots(ts []byte) int {
	n := 0
	for _, t := range ts {
		n += slots(t)
	}
	return n
}

func isNaN32(b uint64) bool { return b&0x7f800000 == 0x7f800000 && b&0x007fffff != 0 }
func isNaN64(b uint64) bool {
	return b&0x7ff0000000000000 == 0x7ff0000000000000 && b&0x000fffffffffffff != 0
}
func isQuiet32(b uint64) bool { return b&0x00400000 != 0 }
func isQuiet64(b uint64) bool { return b&0x0008000000000000 != 0 }
