package main

import (
	"fmt"
	"strings"

	"github.com/tetratelabs/wazero/verif/wb"
)

// expr(L): all well-typed straight-line instruction sequences of exactly n <= L instructions that
// take the empty operand stack to the function's result types.

type ekind uint8

const (
	kPure      ekind = iota // integer operator, comparison, integer<->integer conversion, int->float conversion
	kTrapInt                // integer operator that may trap (div/rem)
	kArith                  // float arithmetic: NaN result payload/sign open
	kSign                   // abs/neg: bit operation, NaN passes through unchanged
	kCopysign               // sign of 2nd operand transplanted onto 1st
	kFCmp                   // float comparison (payload independent)
	kTruncTrap              // trapping float->int truncation (NaN traps whatever the payload)
	kTruncSat               // saturating truncation (NaN -> 0)
	kReintF2I               // reinterpret float bits as integer
	kReintI2F               // reinterpret integer bits as float
	kSelect
	kDrop
	kLocalGet
	kLocalSet
	kLocalTee
	kConst
)

type einstr struct {
	name      string
	enc       []byte
	pop, push []byte
	kind      ekind
	local     int
}

const (
	i32 = wb.I32
	i64 = wb.I64
	f32 = wb.F32
	f64 = wb.F64
)

func numericInstrs() []einstr {
	var t []einstr
	add := func(name string, op byte, kind ekind, push byte, pop ...byte) {
		t = append(t, einstr{name: name, enc: []byte{op}, pop: pop, push: []byte{push}, kind: kind})
	}
	cmpI := []string{"eq", "ne", "lt_s", "lt_u", "gt_s", "gt_u", "le_s", "le_u", "ge_s", "ge_u"}
	cmpF := []string{"eq", "ne", "lt", "gt", "le", "ge"}
	add("i32.eqz", 0x45, kPure, i32, i32)
	for i, n := range cmpI {
		add("i32."+n, byte(0x46+i), kPure, i32, i32, i32)
	}
	add("i64.eqz", 0x50, kPure, i32, i64)
	for i, n := range cmpI {
		add("i64."+n, byte(0x51+i), kPure, i32, i64, i64)
	}
	for i, n := range cmpF {
		add("f32."+n, byte(0x5b+i), kFCmp, i32, f32, f32)
	}
	for i, n := range cmpF {
		add("f64."+n, byte(0x61+i), kFCmp, i32, f64, f64)
	}
	unI := []string{"clz", "ctz", "popcnt"}
	binI := []string{"add", "sub", "mul", "div_s", "div_u", "rem_s", "rem_u", "and", "or", "xor", "shl", "shr_s", "shr_u", "rotl", "rotr"}
	for i, n := range unI {
		add("i32."+n, byte(0x67+i), kPure, i32, i32)
	}
	for i, n := range binI {
		k := kPure
		if strings.HasPrefix(n, "div") || strings.HasPrefix(n, "rem") {
			k = kTrapInt
		}
		add("i32."+n, byte(0x6a+i), k, i32, i32, i32)
	}
	for i, n := range unI {
		add("i64."+n, byte(0x79+i), kPure, i64, i64)
	}
	for i, n := range binI {
		k := kPure
		if strings.HasPrefix(n, "div") || strings.HasPrefix(n, "rem") {
			k = kTrapInt
		}
		add("i64."+n, byte(0x7c+i), k, i64, i64, i64)
	}
	unF := []string{"abs", "neg", "ceil", "floor", "trunc", "nearest", "sqrt"}
	binF := []string{"add", "sub", "mul", "div", "min", "max", "copysign"}
	for w, ft := range []byte{f32, f64} {
		pre := "f32."
		baseU, baseB := byte(0x8b), byte(0x92)
		if w == 1 {
			pre = "f64."
			baseU, baseB = 0x99, 0xa0
		}
		for i, n := range unF {
			k := kArith
			if n == "abs" || n == "neg" {
				k = kSign
			}
			add(pre+n, baseU+byte(i), k, ft, ft)
		}
		for i, n := range binF {
			k := kArith
			if n == "copysign" {
				k = kCopysign
			}
			add(pre+n, baseB+byte(i), k, ft, ft, ft)
		}
	}
	add("i32.wrap_i64", 0xa7, kPure, i32, i64)
	add("i32.trunc_f32_s", 0xa8, kTruncTrap, i32, f32)
	add("i32.trunc_f32_u", 0xa9, kTruncTrap, i32, f32)
	add("i32.trunc_f64_s", 0xaa, kTruncTrap, i32, f64)
	add("i32.trunc_f64_u", 0xab, kTruncTrap, i32, f64)
	add("i64.extend_i32_s", 0xac, kPure, i64, i32)
	add("i64.extend_i32_u", 0xad, kPure, i64, i32)
	add("i64.trunc_f32_s", 0xae, kTruncTrap, i64, f32)
	add("i64.trunc_f32_u", 0xaf, kTruncTrap, i64, f32)
	add("i64.trunc_f64_s", 0xb0, kTruncTrap, i64, f64)
	add("i64.trunc_f64_u", 0xb1, kTruncTrap, i64, f64)
	add("f32.convert_i32_s", 0xb2, kPure, f32, i32)
	add("f32.convert_i32_u", 0xb3, kPure, f32, i32)
	add("f32.convert_i64_s", 0xb4, kPure, f32, i64)
	add("f32.convert_i64_u", 0xb5, kPure, f32, i64)
	add("f32.demote_f64", 0xb6, kArith, f32, f64)
	add("f64.convert_i32_s", 0xb7, kPure, f64, i32)
	add("f64.convert_i32_u", 0xb8, kPure, f64, i32)
	add("f64.convert_i64_s", 0xb9, kPure, f64, i64)
	add("f64.convert_i64_u", 0xba, kPure, f64, i64)
	add("f64.promote_f32", 0xbb, kArith, f64, f32)
	add("i32.reinterpret_f32", 0xbc, kReintF2I, i32, f32)
	add("i64.reinterpret_f64", 0xbd, kReintF2I, i64, f64)
	add("f32.reinterpret_i32", 0xbe, kReintI2F, f32, i32)
	add("f64.reinterpret_i64", 0xbf, kReintI2F, f64, i64)
	add("i32.extend8_s", 0xc0, kPure, i32, i32)
	add("i32.extend16_s", 0xc1, kPure, i32, i32)
	add("i64.extend8_s", 0xc2, kPure, i64, i64)
	add("i64.extend16_s", 0xc3, kPure, i64, i64)
	add("i64.extend32_s", 0xc4, kPure, i64, i64)
	sat := []struct {
		n    string
		o, i byte
	}{{"i32.trunc_sat_f32_s", i32, f32}, {"i32.trunc_sat_f32_u", i32, f32}, {"i32.trunc_sat_f64_s", i32, f64}, {"i32.trunc_sat_f64_u", i32, f64},
		{"i64.trunc_sat_f32_s", i64, f32}, {"i64.trunc_sat_f32_u", i64, f32}, {"i64.trunc_sat_f64_s", i64, f64}, {"i64.trunc_sat_f64_u", i64, f64}}
	for i, s := range sat {
		t = append(t, einstr{name: s.n, enc: []byte{0xfc, byte(i)}, pop: []byte{s.i}, push: []byte{s.o}, kind: kTruncSat})
	}
	for _, ty := range []byte{i32, i64, f32, f64} {
		t = append(t, einstr{name: "select/" + tname(ty), enc: []byte{0x1b}, pop: []byte{ty, ty, i32}, push: []byte{ty}, kind: kSelect})
	}
	for _, ty := range []byte{i32, f64} {
		t = append(t, einstr{name: "select_t/" + tname(ty), enc: []byte{0x1c, 0x01, ty}, pop: []byte{ty, ty, i32}, push: []byte{ty}, kind: kSelect})
	}
	for _, ty := range []byte{i32, i64, f32, f64} {
		t = append(t, einstr{name: "drop/" + tname(ty), enc: []byte{0x1a}, pop: []byte{ty}, kind: kDrop})
	}
	return t
}

// exprSpec is one enumeration: a function type, an exact length, the number of constants per
// type and the operator subset.
type exprSpec struct {
	Name    string
	Params  []byte
	Results []byte
	Locals  []byte // extra locals (one per listed type), addressable by get/set/tee
	Len     int
	NConst  int    // constants per value type taken from the head of the constant alphabets
	Types   []byte // value types whose constants / operators are admitted (nil = all four)
	SetTee  bool   // include local.set / local.tee
}

type exprEnum struct {
	spec   exprSpec
	instrs []einstr
	// candidates indexed by the type on top of the stack (0 = any/empty) to cut the branching
	byTop map[byte][]int
	noPop []int
}

func typeAllowed(ts []byte, t byte) bool {
	if ts == nil {
		return true
	}
	for _, x := range ts {
		if x == t {
			return true
		}
	}
	return false
}

func newExprEnum(s exprSpec) *exprEnum {
	e := &exprEnum{spec: s, byTop: map[byte][]int{}}
	// locals: parameters then extra locals
	all := append(append([]byte{}, s.Params...), s.Locals...)
	for i, t := range all {
		e.instrs = append(e.instrs, einstr{name: fmt.Sprintf("local.get %d", i), enc: (&wb.Asm{}).LocalGet(uint32(i)).B, push: []byte{t}, kind: kLocalGet, local: i})
	}
	for _, t := range []byte{i32, i64, f32, f64} {
		if !typeAllowed(s.Types, t) {
			continue
		}
		cs := constsOf(t)
		for k := 0; k < s.NConst && k < len(cs); k++ {
			e.instrs = append(e.instrs, einstr{name: fmt.Sprintf("%s.const 0x%x", tname(t), cs[k]), enc: (&wb.Asm{}).Const(t, cs[k]).B, push: []byte{t}, kind: kConst})
		}
	}
	if s.SetTee {
		for i, t := range all {
			if i == 1 && len(s.Params) == 2 && s.Params[0] == s.Params[1] {
				continue // set/tee of the second of two symmetric parameters adds nothing new
			}
			e.instrs = append(e.instrs, einstr{name: fmt.Sprintf("local.set %d", i), enc: (&wb.Asm{}).LocalSet(uint32(i)).B, pop: []byte{t}, kind: kLocalSet, local: i})
			e.instrs = append(e.instrs, einstr{name: fmt.Sprintf("local.tee %d", i), enc: (&wb.Asm{}).LocalTee(uint32(i)).B, pop: []byte{t}, push: []byte{t}, kind: kLocalTee, local: i})
		}
	}
next:
	for _, in := range numericInstrs() {
		for _, t := range in.pop {
			if !typeAllowed(s.Types, t) {
				continue next
			}
		}
		for _, t := range in.push {
			if !typeAllowed(s.Types, t) {
				continue next
			}
		}
		e.instrs = append(e.instrs, in)
	}
	for i, in := range e.instrs {
		if len(in.pop) == 0 {
			e.noPop = append(e.noPop, i)
		} else {
			top := in.pop[len(in.pop)-1]
			e.byTop[top] = append(e.byTop[top], i)
		}
	}
	return e
}

// enumerate calls yield for every valid sequence (as indexes into e.instrs) in a fixed order.
// yield returns false to stop.
func (e *exprEnum) enumerate(yield func(seq []int) bool) {
	n := e.spec.Len
	seq := make([]int, 0, n)
	stack := make([]byte, 0, n+1)
	res := e.spec.Results
	stopped := false
	var rec func()
	try := func(idx int) {
		in := &e.instrs[idx]
		np := len(in.pop)
		if np > len(stack) {
			return
		}
		for k := 0; k < np; k++ {
			if stack[len(stack)-np+k] != in.pop[k] {
				return
			}
		}
		saved := append([]byte{}, stack[len(stack)-np:]...)
		stack = append(stack[:len(stack)-np], in.push...)
		seq = append(seq, idx)
		rem := n - len(seq)
		h := len(stack)
		if h-2*rem <= len(res) && h+rem >= len(res) {
			if rem == 0 {
				if string(stack) == string(res) {
					if !yield(seq) {
						stopped = true
					}
				}
			} else {
				rec()
			}
		}
		seq = seq[:len(seq)-1]
		stack = append(stack[:len(stack)-len(in.push)], saved...)
	}
	rec = func() {
		for _, idx := range e.noPop {
			if stopped {
				return
			}
			try(idx)
		}
		if len(stack) > 0 {
			for _, idx := range e.byTop[stack[len(stack)-1]] {
				if stopped {
					return
				}
				try(idx)
			}
		}
	}
	rec()
}

func (e *exprEnum) count() int {
	c := 0
	e.enumerate(func([]int) bool { c++; return true })
	return c
}

// build turns an instruction sequence into a Prog, computing the taint of each result.
func (e *exprEnum) build(seq []int) *Prog {
	s := e.spec
	p := &Prog{Params: s.Params, Results: s.Results, Locals: s.Locals, Uses: make([]bool, len(s.Params))}
	nl := len(s.Params) + len(s.Locals)
	lt := make([]taint, nl)
	var st []taint
	var names, sig []string
	seen := map[string]bool{}
	for _, idx := range seq {
		in := &e.instrs[idx]
		p.Body = append(p.Body, in.enc...)
		names = append(names, in.name)
		np := len(in.pop)
		args := st[len(st)-np:]
		worst := clean
		for _, a := range args {
			worst = maxTaint(worst, a)
		}
		var out taint
		switch in.kind {
		case kLocalGet:
			out = lt[in.local]
			if in.local < len(p.Uses) {
				p.Uses[in.local] = true
			}
		case kConst:
			out = clean
		case kLocalSet, kLocalTee:
			lt[in.local] = args[0]
			out = args[0]
		case kDrop:
		case kPure, kReintI2F:
			out = worst
			if worst == nanopen { // cannot happen for integer inputs; defensive
				out = wild
			}
		case kTrapInt:
			out = worst
			if worst == wild {
				p.Wild = true
			}
		case kArith:
			out = nanopen
			if worst == wild {
				out = wild
			}
		case kSign:
			out = worst
		case kCopysign:
			out = args[0]
			if args[1] != clean {
				out = wild
			}
		case kFCmp, kTruncSat:
			out = clean
			if worst == wild {
				out = wild
			}
		case kTruncTrap:
			out = clean
			if worst == wild {
				out = wild
				p.Wild = true
			}
		case kReintF2I:
			out = worst
			if worst != clean {
				out = wild
			}
		case kSelect:
			out = maxTaint(args[0], args[1])
			if args[2] != clean {
				out = wild
			}
		}
		st = st[:len(st)-np]
		for range in.push {
			st = append(st, out)
		}
		if in.kind != kLocalGet && in.kind != kConst {
			nm := in.name
			if in.kind == kLocalSet || in.kind == kLocalTee {
				nm = nm[:9]
			}
			if !seen[nm] {
				seen[nm] = true
				sig = append(sig, nm)
			}
		}
	}
	p.ResTaint = append([]taint{}, st...)
	p.Desc = strings.Join(names, "; ")
	p.SigOps = strings.Join(sig, ",")
	if p.SigOps == "" {
		p.SigOps = "moves-only"
	}
	return p
}
