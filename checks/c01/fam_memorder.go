package main

import (
	"fmt"

	"github.com/tetratelabs/wazero"
	"github.com/tetratelabs/wazero/verif/wb"
)

// memorder: a memory read must not be moved, duplicated or dropped across an instruction that can change memory
// (and vice versa). For every load kind L (every scalar width/sign, v128.load, every atomic load) and every
// memory-modifying (or otherwise non-reorderable) instruction M — plain stores of every width, every atomic
// store / rmw / cmpxchg, memory.fill/copy/init, memory.grow, direct / indirect / host calls that write memory,
// table.set/grow, global.set, v128.store and the lane stores — acting on the SAME address (and on an overlapping
// one, offset +1/-1, and through a different but equal address value), functions of these shapes are generated:
//
//	right   x=L(a); M(a,v); return op(k, x)          x used once, as the RIGHT operand (load folding position)
//	left    x=L(a); M(a,v); return op(x, k)
//	twice   x=L(a); M(a,v); return op(x, x)
//	select  x=L(a); M(a,v); return select(x, k, c)
//	br_if   x=L(a); M(a,v); return block(T){x; c; br_if 0; drop; k}
//	mlml    M(a,v); x=L(a); M(a,w); y=L(a); return x, y
//	sml     store(a,v); M(a,w); return L(a)          store-side analogue
//
// with and without a leading wide access on the same base (which makes the later bounds checks elidable, so that
// no trap check separates load and use) and with and without an intervening non-strict instruction.

type moLoad struct {
	name   string
	t      byte
	w      int
	atomic bool
	simd   bool
	op     uint32 // opcode (plain: single byte; atomic/simd: sub-opcode)
	align  uint32
}

func moLoads() []moLoad {
	var ls []moLoad
	for _, l := range loadDefs {
		ls = append(ls, moLoad{name: l.name, t: l.t, w: l.w, op: uint32(l.op)})
	}
	ls = append(ls, moLoad{name: "v128.load", t: v128, w: 16, simd: true, op: 0})
	for _, a := range atomOps() {
		if a.kind == 0 {
			ls = append(ls, moLoad{name: a.name, t: a.t, w: a.w, atomic: true, op: a.op, align: a.align})
		}
	}
	return ls
}

func (l moLoad) emit(a *wb.Asm, off uint64) {
	switch {
	case l.atomic:
		a.AtomicMem(l.op, l.align, off)
	case l.simd:
		a.SimdMem(l.op, 0, off)
	default:
		a.Mem(byte(l.op), 0, off)
	}
}

// moMod is a memory-modifying (or non-reorderable) instruction. emit leaves nothing on the stack.
// addr pushes the i32 address; off is the static offset (folded into the address for instructions without memarg).
type moMod struct {
	name    string
	hasAddr bool
	emit    func(a *wb.Asm, w *moWorld, addr func(), off uint64, val uint32)
}

type moWorld struct {
	hPoke, cStore uint32
	tStore        uint32
	gI64          uint32
}

func moVal(a *wb.Asm, t byte, l uint32) {
	a.LocalGet(l)
	switch t {
	case i32:
		a.Op(0xa7)
	case f32:
		a.Op(0xa7).Op(0xbe)
	case f64:
		a.Op(0xbf)
	case v128:
		a.Simd(18)
	}
}

func moMods() []moMod {
	var ms []moMod
	addrPlus := func(a *wb.Asm, addr func(), off uint64) {
		addr()
		if off != 0 {
			a.I32Const(int32(off)).Op(0x6a)
		}
	}
	for _, s := range storeDefs {
		s := s
		ms = append(ms, moMod{name: s.name, hasAddr: true, emit: func(a *wb.Asm, w *moWorld, addr func(), off uint64, val uint32) {
			addr()
			moVal(a, s.t, val)
			a.Mem(s.op, 0, off)
		}})
	}
	for _, o := range atomOps() {
		o := o
		switch o.kind {
		case 1:
			ms = append(ms, moMod{name: o.name, hasAddr: true, emit: func(a *wb.Asm, w *moWorld, addr func(), off uint64, val uint32) {
				addr()
				moVal(a, o.t, val)
				a.AtomicMem(o.op, o.align, off)
			}})
		case 2:
			ms = append(ms, moMod{name: o.name, hasAddr: true, emit: func(a *wb.Asm, w *moWorld, addr func(), off uint64, val uint32) {
				addr()
				moVal(a, o.t, val)
				a.AtomicMem(o.op, o.align, off).Drop()
			}})
		case 3:
			ms = append(ms, moMod{name: o.name, hasAddr: true, emit: func(a *wb.Asm, w *moWorld, addr func(), off uint64, val uint32) {
				addr()
				// expected = what a plain load of that width sees now, so that the exchange succeeds
				addr()
				switch {
				case o.t == i32 && o.w == 4:
					a.Mem(0x28, 0, off)
				case o.t == i32 && o.w == 2:
					a.Mem(0x2f, 0, off)
				case o.t == i32 && o.w == 1:
					a.Mem(0x2d, 0, off)
				case o.w == 8:
					a.Mem(0x29, 0, off)
				case o.w == 4:
					a.Mem(0x35, 0, off)
				case o.w == 2:
					a.Mem(0x33, 0, off)
				default:
					a.Mem(0x31, 0, off)
				}
				moVal(a, o.t, val)
				a.AtomicMem(o.op, o.align, off).Drop()
			}})
		}
	}
	ms = append(ms, moMod{name: "memory.fill", hasAddr: true, emit: func(a *wb.Asm, w *moWorld, addr func(), off uint64, val uint32) {
		addrPlus(a, addr, off)
		moVal(a, i32, val)
		a.I32Const(4).MemoryFill()
	}})
	ms = append(ms, moMod{name: "memory.copy", hasAddr: true, emit: func(a *wb.Asm, w *moWorld, addr func(), off uint64, val uint32) {
		addrPlus(a, addr, off)
		moVal(a, i32, val)
		a.I32Const(0x7f8).Op(0x71) // source inside the pattern area, value dependent
		a.I32Const(8).MemoryCopy()
	}})
	ms = append(ms, moMod{name: "memory.init", hasAddr: true, emit: func(a *wb.Asm, w *moWorld, addr func(), off uint64, val uint32) {
		addrPlus(a, addr, off)
		a.I32Const(0).I32Const(8).MemoryInit(1)
	}})
	ms = append(ms, moMod{name: "memory.grow(1)", emit: func(a *wb.Asm, w *moWorld, addr func(), off uint64, val uint32) { a.I32Const(1).MemoryGrow().Drop() }})
	ms = append(ms, moMod{name: "memory.grow(0)", emit: func(a *wb.Asm, w *moWorld, addr func(), off uint64, val uint32) { a.I32Const(0).MemoryGrow().Drop() }})
	ms = append(ms, moMod{name: "call c_store", hasAddr: true, emit: func(a *wb.Asm, w *moWorld, addr func(), off uint64, val uint32) {
		addrPlus(a, addr, off)
		a.LocalGet(val).Call(w.cStore)
	}})
	ms = append(ms, moMod{name: "call_indirect c_store", hasAddr: true, emit: func(a *wb.Asm, w *moWorld, addr func(), off uint64, val uint32) {
		addrPlus(a, addr, off)
		a.LocalGet(val).I32Const(0).CallIndirect(w.tStore, 0)
	}})
	ms = append(ms, moMod{name: "call h_poke", hasAddr: true, emit: func(a *wb.Asm, w *moWorld, addr func(), off uint64, val uint32) {
		addrPlus(a, addr, off)
		a.Call(w.hPoke).Drop()
	}})
	ms = append(ms, moMod{name: "table.set", emit: func(a *wb.Asm, w *moWorld, addr func(), off uint64, val uint32) {
		a.I32Const(1).RefNull(funcref).TableSet(0)
	}})
	ms = append(ms, moMod{name: "table.grow", emit: func(a *wb.Asm, w *moWorld, addr func(), off uint64, val uint32) {
		a.RefNull(funcref).I32Const(1).TableGrow(0).Drop()
	}})
	ms = append(ms, moMod{name: "global.set", emit: func(a *wb.Asm, w *moWorld, addr func(), off uint64, val uint32) { a.LocalGet(val).GlobalSet(w.gI64) }})
	ms = append(ms, moMod{name: "v128.store", hasAddr: true, emit: func(a *wb.Asm, w *moWorld, addr func(), off uint64, val uint32) {
		addr()
		moVal(a, v128, val)
		a.SimdMem(11, 0, off)
	}})
	for i, wd := range []int{8, 16, 32, 64} {
		i := i
		ms = append(ms, moMod{name: fmt.Sprintf("v128.store%d_lane", wd), hasAddr: true, emit: func(a *wb.Asm, w *moWorld, addr func(), off uint64, val uint32) {
			addr()
			moVal(a, v128, val)
			a.SimdMem(uint32(88+i), 0, off).Raw(1)
		}})
	}
	return ms
}

// relations between the address of L and the address of M
const (
	relSame   = iota // same address value, same offset
	relPlus1         // M one byte above L
	relMinus1        // M one byte below L
	relOther         // M through a different parameter holding the same address
)

var moRelNames = []string{"same", "+1", "-1", "equal-value"}
var moShapes = []string{"right", "left", "twice", "select", "br_if", "mlml", "sml"}

type moDesc struct {
	l, m   int
	rel    int
	shape  int
	op     int  // index into the type's operator list
	pre    bool // leading wide access on the same base
	filler bool // non-strict instruction between M and the use
}

type moOp struct {
	name string
	enc  []byte
	res  byte // result type (0 = same as operand)
	nan  bool
}

func moOpsFor(t byte) []moOp {
	switch t {
	case i32:
		return []moOp{{"i32.add", []byte{0x6a}, 0, false}, {"i32.and", []byte{0x71}, 0, false}, {"i32.xor", []byte{0x73}, 0, false}, {"i32.lt_u", []byte{0x49}, i32, false}}
	case i64:
		return []moOp{{"i64.add", []byte{0x7c}, 0, false}, {"i64.and", []byte{0x83}, 0, false}, {"i64.xor", []byte{0x85}, 0, false}, {"i64.lt_u", []byte{0x54}, i32, false}}
	case f32:
		return []moOp{{"f32.add", []byte{0x92}, 0, true}, {"f32.mul", []byte{0x94}, 0, true}}
	case f64:
		return []moOp{{"f64.add", []byte{0xa0}, 0, true}, {"f64.mul", []byte{0xa2}, 0, true}}
	}
	return []moOp{{"i32x4.add", []byte{0xfd, 174, 1}, 0, false}, {"v128.xor", []byte{0xfd, 81}, 0, false}}
}

// local indexes of the generated functions
const (
	moA  = 0 // i32 address
	moV  = 1 // i64 value
	moW  = 2 // i64 second value
	moA2 = 3 // i32, the driver always passes the same address again
	moX  = 4
	moY  = 5
)

func moPre(m *wb.Module, shared bool) *moWorld {
	w := &moWorld{}
	w.hPoke = m.ImportFunc("env", "h_poke", []byte{i32}, []byte{i32})
	m.Mem = &wb.Limits{Min: 1, Max: 2, HasMax: true, Shared: shared}
	w.gI64 = m.AddGlobal(i64, true, wb.CI64(0))
	w.cStore = m.AddFunc([]byte{i32, i64}, nil, nil, (&wb.Asm{}).LocalGet(0).LocalGet(1).Mem(0x37, 0, 0).B)
	w.tStore = m.Type([]byte{i32, i64}, nil)
	m.Tables = []wb.Table{{Elem: funcref, Lim: wb.Limits{Min: 2, Max: 64, HasMax: true}}}
	m.Elems = []wb.Elem{{Mode: 0, Offset: wb.CI32(0), Funcs: []uint32{w.cStore}}}
	pat := make([]byte, 4096)
	for i := range pat {
		pat[i] = byte(i*37 + 11)
	}
	tail := make([]byte, 256)
	for i := range tail {
		tail[i] = byte(i*29 + 3)
	}
	m.Datas = []wb.Data{
		{Offset: wb.CI32(0), Bytes: pat},
		{Passive: true, Bytes: []byte{0xc1, 0xc2, 0xc3, 0xc4, 0xc5, 0xc6, 0xc7, 0xc8}},
		{Offset: wb.CI32(pageSize - 256), Bytes: tail},
	}
	m.DataCount = true
	return w
}

var moArgVecs = func() [][]uint64 {
	var out [][]uint64
	for _, a := range []uint64{64, 257, pageSize - 48} {
		for _, vw := range [][2]uint64{{0x0102030405060708, 0xf1f2f3f4f5f6f7f8}, {0xffffffffffffffff, 0x0000000000000001}} {
			out = append(out, []uint64{a, vw[0], vw[1], a})
		}
	}
	return out
}()

type moFamily struct {
	tier   string
	shared bool // run on a shared memory (thorough tier only, as a second family)
	loads  []moLoad
	mods   []moMod
	descs  []moDesc
}

func newMoFamily(tier string, shared bool) *moFamily {
	f := &moFamily{tier: tier, shared: shared, loads: moLoads(), mods: moMods()}
	for li, l := range f.loads {
		nops := len(moOpsFor(l.t))
		for mi, m := range f.mods {
			rels := []int{relSame}
			if m.hasAddr {
				rels = []int{relSame, relPlus1, relMinus1, relOther}
			}
			// right operand with the first operator: every address relation, with/without pre-access and filler
			for _, r := range rels {
				for _, pre := range []bool{false, true} {
					for _, fl := range []bool{false, true} {
						f.descs = append(f.descs, moDesc{l: li, m: mi, rel: r, shape: 0, op: 0, pre: pre, filler: fl})
					}
				}
			}
			for op := 1; op < nops; op++ {
				for _, pre := range []bool{false, true} {
					f.descs = append(f.descs, moDesc{l: li, m: mi, shape: 0, op: op, pre: pre})
				}
			}
			for _, pre := range []bool{false, true} {
				f.descs = append(f.descs, moDesc{l: li, m: mi, shape: 1, op: 0, pre: pre})
				f.descs = append(f.descs, moDesc{l: li, m: mi, shape: 1, op: nops - 1, pre: pre})
				f.descs = append(f.descs, moDesc{l: li, m: mi, shape: 2, op: 0, pre: pre})
				f.descs = append(f.descs, moDesc{l: li, m: mi, shape: 3, pre: pre})
				f.descs = append(f.descs, moDesc{l: li, m: mi, shape: 4, pre: pre})
			}
			last := rels[len(rels)-1]
			f.descs = append(f.descs, moDesc{l: li, m: mi, rel: relSame, shape: 5, pre: true})
			if last != relSame {
				f.descs = append(f.descs, moDesc{l: li, m: mi, rel: relOther, shape: 5, pre: true})
			}
			f.descs = append(f.descs, moDesc{l: li, m: mi, rel: relSame, shape: 6, pre: true})
			if last != relSame {
				f.descs = append(f.descs, moDesc{l: li, m: mi, rel: relPlus1, shape: 6, pre: false})
			}
		}
	}
	return f
}

// matching plain store for the store-side shape
func moStoreFor(l moLoad) (op byte, simd bool) {
	switch {
	case l.t == v128:
		return 0, true
	case l.t == f32:
		return 0x38, false
	case l.t == f64:
		return 0x39, false
	case l.t == i32 && l.w == 4:
		return 0x36, false
	case l.t == i32 && l.w == 2:
		return 0x3b, false
	case l.t == i32:
		return 0x3a, false
	case l.w == 8:
		return 0x37, false
	case l.w == 4:
		return 0x3e, false
	case l.w == 2:
		return 0x3d, false
	}
	return 0x3c, false
}

func (f *moFamily) build(w *moWorld, d moDesc) *Prog {
	l, m := f.loads[d.l], f.mods[d.m]
	a := &wb.Asm{}
	base := uint64(8) // static offset of L; M sits at base, base+1 or base-1
	lOff, mOff := base, base
	mAddr := func() { a.LocalGet(moA) }
	switch d.rel {
	case relPlus1:
		mOff = base + 1
	case relMinus1:
		mOff = base - 1
	case relOther:
		mAddr = func() { a.LocalGet(moA2) }
	}
	lAddr := func() { a.LocalGet(moA) }
	if d.pre {
		// a wide access on the same base values: every later access below base+32 needs no bounds check of its own
		a.LocalGet(moA).Mem(0x29, 0, 24).Drop()
		a.LocalGet(moA2).Mem(0x29, 0, 24).Drop()
	}
	filler := func() {
		if d.filler {
			a.LocalGet(moW).I64Const(5).Op(0x7c).LocalSet(moW)
		}
	}
	ops := moOpsFor(l.t)
	var results []byte
	var taints []taint
	shape := moShapes[d.shape]
	opName := ""
	switch shape {
	case "right", "left", "twice":
		o := ops[d.op]
		opName = o.name
		lAddr()
		l.emit(a, lOff)
		a.LocalSet(moX)
		m.emit(a, w, mAddr, mOff, moV)
		filler()
		switch shape {
		case "right":
			moVal(a, l.t, moW)
			a.LocalGet(moX)
		case "left":
			a.LocalGet(moX)
			moVal(a, l.t, moW)
		case "twice":
			a.LocalGet(moX).LocalGet(moX)
		}
		a.Raw(o.enc...)
		rt := l.t
		if o.res != 0 {
			rt = o.res
		}
		results = []byte{rt}
		taints = []taint{clean}
		if o.nan {
			taints[0] = nanopen
		}
	case "select":
		lAddr()
		l.emit(a, lOff)
		a.LocalSet(moX)
		m.emit(a, w, mAddr, mOff, moV)
		a.LocalGet(moX)
		moVal(a, l.t, moW)
		a.LocalGet(moA2).Select()
		results, taints = []byte{l.t}, []taint{clean}
	case "br_if":
		lAddr()
		l.emit(a, lOff)
		a.LocalSet(moX)
		m.emit(a, w, mAddr, mOff, moV)
		a.Block(l.t).LocalGet(moX).LocalGet(moA2).BrIf(0).Drop()
		moVal(a, l.t, moW)
		a.End()
		results, taints = []byte{l.t}, []taint{clean}
	case "mlml":
		m.emit(a, w, mAddr, mOff, moV)
		lAddr()
		l.emit(a, lOff)
		a.LocalSet(moX)
		m.emit(a, w, mAddr, mOff, moW)
		lAddr()
		l.emit(a, lOff)
		a.LocalSet(moY)
		a.LocalGet(moX).LocalGet(moY)
		results, taints = []byte{l.t, l.t}, []taint{clean, clean}
	case "sml":
		sop, simd := moStoreFor(l)
		lAddr()
		moVal(a, l.t, moV)
		if simd {
			a.SimdMem(11, 0, lOff)
		} else {
			a.Mem(sop, 0, lOff)
		}
		m.emit(a, w, mAddr, mOff, moW)
		lAddr()
		l.emit(a, lOff)
		results, taints = []byte{l.t}, []taint{clean}
	}
	desc := fmt.Sprintf("%s L=%s M=%s addr=%s", shape, l.name, m.name, moRelNames[d.rel])
	if opName != "" {
		desc += " op=" + opName
	}
	if d.pre {
		desc += " pre-access"
	}
	if d.filler {
		desc += " filler"
	}
	return &Prog{Params: []byte{i32, i64, i64, i32}, Results: results, Locals: []byte{l.t, l.t}, Body: a.B, ResTaint: taints,
		Desc: desc, SigOps: fmt.Sprintf("%s/%s/%s", shape, l.name, m.name), ArgVecs: moArgVecs}
}

func (f *moFamily) Name() string {
	if f.shared {
		return "memorder_shared"
	}
	return "memorder"
}
func (f *moFamily) Chunks() int { return (len(f.descs) + batchSize - 1) / batchSize }
func (f *moFamily) Bounds() map[string]any {
	var ls, ms []string
	for _, l := range f.loads {
		ls = append(ls, l.name)
	}
	for _, m := range f.mods {
		ms = append(ms, m.name)
	}
	return map[string]any{"loads": ls, "modifiers": ms, "address_relations": moRelNames, "shapes": moShapes, "programs": len(f.descs), "argument_vectors": len(moArgVecs),
		"memory": map[bool]string{false: "non-shared", true: "shared"}[f.shared] + " 1..2 pages, position-dependent pattern in bytes 0..4095 and in the last 256 bytes"}
}

func (f *moFamily) Run(rts [2]wazero.Runtime, c int, sel *replay, res *chunkRes, verbose bool) {
	runnerFor(rts) // host module "env"
	lo := c * batchSize
	hi := lo + batchSize
	if hi > len(f.descs) {
		hi = len(f.descs)
	}
	scratch := &wb.Module{}
	w := moPre(scratch, f.shared)
	var progs []*Prog
	for _, d := range f.descs[lo:hi] {
		progs = append(progs, f.build(w, d))
	}
	only := -1
	var args []uint64
	if sel != nil {
		only, args = sel.Prog, sel.Args
	}
	if sel == nil {
		res.Samples = append(res.Samples, map[string]any{"family": f.Name(), "chunk": c, "program": progs[len(progs)/2].describe()})
	}
	runStateless(slOpts{fam: f.Name(), tier: f.tier, chunk: c, pre: func(m *wb.Module) { moPre(m, f.shared) }, memCompare: true}, rts, progs, only, args, res, verbose)
}
