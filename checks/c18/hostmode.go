package main

// The host side of a call as a dimension of the exploration (added after seeded change c18-9).
//
// The property quantifies over "all host environments". Besides the process environment (E0..E2) the
// host decides, for every InstantiateModule and every Call, WHICH context.Context it passes, and how
// the runtime was configured to treat that context. None of this is module configuration: a module
// created from wazero.NewModuleConfig() must behave according to the default model whatever context
// the host happens to use (as long as the context does not end the call: see ctxCanceled below).
//
//   context kinds (ctxKindNames): what a host can hand to api.Function.Call
//   runtime flavours (rtFlavorNames): RuntimeConfig default / WithCloseOnContextDone(true)
//
// Two ways of enumeration:
//   * every word of every older family is executed under ALL context kinds, spread over its 12
//     instances (3 environments x 2 engines x 2 instances), see ctxKindAt — no extra instances needed;
//   * the host-mode families (exec.go) put an explicit host-mode letter in front: every main letter and
//     every poll-list letter twice, and every ordered pair of core (thorough: main) letters, under every
//     host mode in all four instances of all three environments.
//
// Oracle: the model knows nothing of contexts, so any difference is a deviation; and a call watchdog
// (callWatch) reports any single WASI call that does not return within callWatchdog — the only way to
// see that "the guest really slept" without comparing short times: every clock subscription of the
// alphabet asks for ONE HOUR, a call takes microseconds when the property holds.

import (
	"context"
	"encoding/json"
	"fmt"
	"os"
	"sync/atomic"
	"time"
)

const (
	ctxBackground = iota
	ctxValue
	ctxCancel
	ctxTimeout
	ctxDeadline
	ctxValueOnCancel
	ctxWithoutCancel
	ctxCustomDone
	ctxCanceled
	ctxExpired
	nCtxKinds
)

var ctxKindNames = [nCtxKinds]string{
	"background",      // context.Background(): Done() == nil
	"value",           // WithValue(Background): Done() == nil
	"cancel",          // WithCancel, never cancelled during the run: Done() != nil
	"timeout",         // WithTimeout(24 h): Done() != nil, has a deadline
	"deadline",        // WithDeadline(now + 24 h)
	"value-on-cancel", // WithValue(WithCancel): the cancellable context is not the outermost one
	"without-cancel",  // context.WithoutCancel(WithCancel): Done() == nil again
	"custom-done",     // a Context implemented by the host itself: Done() != nil, never closed, no deadline
	"canceled",        // WithCancel, cancelled before use: Done() closed, Err() == Canceled
	"expired",         // WithDeadline in the past: Done() closed, Err() == DeadlineExceeded
}

const (
	rtDefault = iota
	rtCloseOnDone
	nRTFlavors
)

var rtFlavorNames = [nRTFlavors]string{"default", "close-on-context-done"}

// hostLetters: every context kind x every runtime flavour, except the two already-finished contexts
// under WithCloseOnContextDone(true) — there the documented behaviour is that the call is refused and
// the module closed (ExitCodeContextCanceled / ExitCodeDeadlineExceeded), which is not a default of the
// module configuration and is not modelled.
func hostLetters() []letter {
	var out []letter
	for rt := 0; rt < nRTFlavors; rt++ {
		for k := 0; k < nCtxKinds; k++ {
			if rt == rtCloseOnDone && (k == ctxCanceled || k == ctxExpired) {
				continue
			}
			out = append(out, letter{Name: "host[ctx=" + ctxKindNames[k] + ",runtime=" + rtFlavorNames[rt] + "]", Fn: "host", Host: true, HostCtx: k, HostRT: rt})
		}
	}
	return out
}

type ctxKey struct{}

// customDone is a host-written Context: not one of the standard library's types (so nothing can
// recognise it by type), Done() non-nil and never closed.
type customDone struct {
	context.Context
	ch chan struct{}
}

func (c customDone) Done() <-chan struct{} { return c.ch }

// makeContexts builds one long-lived context per kind (a worker's lifetime; 24 h is far beyond any
// budget of this check). The returned function releases them.
func makeContexts() (ctxs [nCtxKinds]context.Context, release func()) {
	bg := context.Background()
	var cancels []context.CancelFunc
	with := func(c context.Context, f context.CancelFunc) context.Context {
		cancels = append(cancels, f)
		return c
	}
	ctxs[ctxBackground] = bg
	ctxs[ctxValue] = context.WithValue(bg, ctxKey{}, "c18")
	ctxs[ctxCancel] = with(context.WithCancel(bg))
	ctxs[ctxTimeout] = with(context.WithTimeout(bg, 24*time.Hour))
	ctxs[ctxDeadline] = with(context.WithDeadline(bg, time.Now().Add(24*time.Hour)))
	ctxs[ctxValueOnCancel] = context.WithValue(with(context.WithCancel(bg)), ctxKey{}, "c18")
	ctxs[ctxWithoutCancel] = context.WithoutCancel(with(context.WithCancel(bg)))
	ctxs[ctxCustomDone] = customDone{bg, make(chan struct{})}
	c, f := context.WithCancel(bg)
	f()
	ctxs[ctxCanceled] = c
	ctxs[ctxExpired] = with(context.WithDeadline(bg, time.Unix(1, 0)))
	<-ctxs[ctxExpired].Done()
	return ctxs, func() {
		for _, f := range cancels {
			f()
		}
	}
}

// envIndexOf: E0 -> 0, E1 -> 1, E2 (and anything else) -> 2.
func envIndexOf(envID string) int {
	switch envID {
	case "E0":
		return 0
	case "E1":
		return 1
	}
	return 2
}

// hostOf returns the host-mode letter at the head of the word (nil if there is none) and the calls.
func hostOf(alpha []letter, word []int) (*letter, []int) {
	if len(word) > 0 && alpha[word[0]].Host {
		return &alpha[word[0]], word[1:]
	}
	return nil, word
}

// ctxKindAt: the context kind used by instance inst (0..3 in instNames order) of environment env for
// call number step of a word. With a host-mode letter: that letter's kind, everywhere. Otherwise the 12
// instance slots of a word are spread over the 10 kinds: E0 uses kinds 0-3, E1 4-7, E2 starts at 8,9,0,1
// and moves on by one kind with every call (a host may use a different context for every call). So
// compiler/A of E0 — whose trace is the one digested across processes — is always called with
// context.Background(), as in all earlier versions of this check.
func ctxKindAt(host *letter, env, inst, step int) int {
	if host != nil {
		return host.HostCtx
	}
	k := 4*env + inst
	if env == 2 {
		k += step
	}
	return k % nCtxKinds
}

// ---------------------------------------------------------------- call watchdog (inside the child)

const callWatchdog = 45 * time.Second // one WASI call of this alphabet takes microseconds; its longest requested sleep is one hour

// callSlot is written by a worker around every single call of the real code and read by the child's
// monitor goroutine. seq is odd while a call is in flight.
type callSlot struct {
	seq  atomic.Int64
	word []int
	step int
	inst int
	kind int
	rt   int
}

func (c *callSlot) enter(word []int, step, inst, kind, rt int) {
	c.word, c.step, c.inst, c.kind, c.rt = word, step, inst, kind, rt
	c.seq.Add(1)
}

func (c *callSlot) leave() { c.seq.Add(1) }

type stuckReport struct {
	Word    []string `json:"word"`
	Step    int      `json:"step"`
	Fn      string   `json:"fn"`
	Letter  string   `json:"letter"`
	Inst    string   `json:"instance"`
	Ctx     string   `json:"host_context"`
	Runtime string   `json:"runtime"`
	Seconds float64  `json:"seconds"`
}

func (s *stuckReport) signature() string {
	return fmt.Sprintf("%s:blocks-in-real-time:host-context=%s:runtime=%s", s.Fn, s.Ctx, s.Runtime)
}

// callWatch is polled by the child's monitor: it reports a call that the monitor itself has seen in
// flight, unchanged, for callWatchdog.
type callWatch struct {
	sp    *space
	slots []*callSlot
	seen  []int64
	since []time.Time
	polls []int // observations of the same call in flight (guards against a freeze of the whole process)
}

func newCallWatch(sp *space, ws []*worker) *callWatch {
	cw := &callWatch{sp: sp, seen: make([]int64, len(ws)), since: make([]time.Time, len(ws)), polls: make([]int, len(ws))}
	for _, w := range ws {
		cw.slots = append(cw.slots, &w.slot)
	}
	return cw
}

func (cw *callWatch) poll(now time.Time) *stuckReport {
	for i, s := range cw.slots {
		q := s.seq.Load()
		if q%2 == 0 || q != cw.seen[i] {
			cw.seen[i], cw.since[i], cw.polls[i] = q, now, 0
			continue
		}
		cw.polls[i]++
		if d := now.Sub(cw.since[i]); d >= callWatchdog && cw.polls[i] >= 60 {
			_, calls := hostOf(cw.sp.alpha, s.word)
			l := &cw.sp.alpha[calls[s.step]]
			return &stuckReport{Word: cw.sp.names(s.word), Step: s.step, Fn: l.Fn, Letter: l.Name, Inst: instNames[s.inst],
				Ctx: ctxKindNames[s.kind], Runtime: rtFlavorNames[s.rt], Seconds: d.Seconds()}
		}
	}
	return nil
}

// startMonitor: heartbeat for the parent's stall watchdog, orphan check, call watchdog.
func startMonitor(out string, beat *atomic.Int64, cw *callWatch) {
	go func() {
		last := int64(-1)
		parent := os.Getppid()
		for {
			time.Sleep(500 * time.Millisecond)
			if os.Getppid() != parent {
				os.Exit(4) // the supervising process is gone
			}
			if v := beat.Load(); v != last {
				last = v
				os.WriteFile(out+".hb", []byte(fmt.Sprint(v)), 0o644)
			}
			if st := cw.poll(time.Now()); st != nil {
				b, _ := json.Marshal(st)
				os.WriteFile(out+".stuck.tmp", b, 0o644)
				os.Rename(out+".stuck.tmp", out+".stuck")
				os.Exit(5) // the stuck goroutine cannot be interrupted; the verdict is settled
			}
		}
	}()
}
