package main

// Reference model of a WASI instance under wazero.NewModuleConfig() defaults. Plain Go; it imports
// nothing from wazero. Constants were taken by READING internal/sys/sys.go, internal/sys/stdio.go,
// internal/platform/time.go, internal/platform/crypto.go and the WASI snapshot-01 specification
// (errno numbers, rights bits, struct layouts):
//
//   args, environ            none
//   fd 0                     open, every read is EOF (0 bytes)
//   fd 1, 2                  open, every write is accepted and discarded
//   fd >= 3                  not open (no pre-opens, no sockets), and nothing can ever be opened
//   realtime clock           1640995200000000000 ns (2022-01-01T00:00:00Z) + 1 ms per reading, resolution 1000 ns
//   monotonic clock          0 + 1 ms per reading, resolution 1 ns
//   sleep, yield             return immediately, touch nothing
//   random                   math/rand stream with seed 42, consumed through (*rand.Rand).Read
//
// all of it per instance, every instance starting from the same values.
//
// Outcomes that the statement of C18 does not fix but that a byte-exact trace needs (what an
// unsupported operation on a stdio descriptor returns, the file type reported for stdio, the order of
// argument checks) were pinned by a calibration run against the unchanged tree; they are listed in
// NOTES.md. They are all functions of the model state only, never of the host.

import (
	"encoding/binary"
	"io/fs"
	"math/rand"
	"path"
)

const (
	eBADF        = 8
	eINVAL       = 28
	eNAMETOOLONG = 37
	eNOSYS       = 52
	eNOTDIR      = 54
	eNOTSUP      = 58
	ePERM        = 63
)

const (
	kindRet  = 0 // the call returned an errno
	kindExit = 1 // proc_exit: the instance ended with an exit code
	kindTrap = 2 // anything else (never predicted by the model)
)

const (
	modelEpochNanos = uint64(1640995200) * 1000 * 1000 * 1000
	modelStepNanos  = uint64(1000 * 1000)
	modelSeed       = 42
)

// rights of a non-directory descriptor (WASI snapshot-01 bit numbers).
const modelFileRights = uint64(1<<0 | 1<<1 | 1<<2 | 1<<3 | 1<<4 | 1<<5 | 1<<6 | 1<<7 | 1<<8 | 1<<21 | 1<<22 | 1<<23 | 1<<27)

type model struct {
	mem   []byte
	open  [3]bool
	wallN uint64 // realtime readings taken so far
	nanoN uint64 // monotonic readings taken so far
	rng   *rand.Rand
	randN uint64 // random bytes handed out so far
}

func newModel() *model {
	return &model{mem: initialWindow(), open: [3]bool{true, true, true}}
}

var mle = binary.LittleEndian

func (m *model) isOpen(fd uint64) bool {
	f := int32(uint32(fd))
	return f >= 0 && f <= 2 && m.open[f]
}

func (m *model) buf(p, n uint64) []byte {
	if p+n > winSize {
		panic("model: pointer outside the window (alphabet is not well-formed)")
	}
	return m.mem[p : p+n]
}
func (m *model) put32(p uint64, v uint32) { mle.PutUint32(m.buf(p, 4), v) }
func (m *model) put64(p uint64, v uint64) { mle.PutUint64(m.buf(p, 8), v) }

func (m *model) wallNow() uint64 {
	v := modelEpochNanos + m.wallN*modelStepNanos
	m.wallN++
	return v
}

func (m *model) iovLens(iovs, n uint64) []uint32 {
	var o []uint32
	for i := uint64(0); i < n; i++ {
		o = append(o, mle.Uint32(m.buf(iovs+8*i+4, 4)))
	}
	return o
}

// atPath: what every path_* function does before anything else: no descriptor is a directory.
func (m *model) atPath(fd, p, n uint64) uint32 {
	s := string(m.buf(p, n))
	if !fs.ValidPath(path.Clean(s)) { // absolute or escaping paths are refused before the descriptor is looked at
		return ePERM
	}
	if !m.isOpen(fd) {
		return eBADF
	}
	return eNOTDIR
}

// setTimesFlags: validation of fst_flags; a *_NOW flag takes one realtime reading.
func (m *model) setTimesFlags(f uint64) uint32 {
	aSet, aNow, mSet, mNow := f&1 != 0, f&2 != 0, f&4 != 0, f&8 != 0
	took := false
	if aSet && aNow {
		return eINVAL
	} else if !aSet && aNow {
		m.wallNow()
		took = true
	}
	if mSet && mNow {
		return eINVAL
	} else if !mSet && mNow && !took {
		m.wallNow()
	}
	return 0
}

// step applies one letter and returns (kind, value).
func (m *model) step(l *letter) (byte, uint32) {
	a := l.Args
	if l.Setup != nil {
		copy(m.buf(pSubList, uint64(len(l.Setup))), l.Setup)
	}
	ret := func(e uint32) (byte, uint32) { return kindRet, e }
	switch l.Fn {
	case "args_get", "environ_get":
		return ret(0) // nothing to write
	case "args_sizes_get", "environ_sizes_get":
		m.put32(a[0], 0)
		m.put32(a[1], 0)
		return ret(0)
	case "clock_res_get":
		switch a[0] {
		case 0:
			m.put64(a[1], 1000)
		case 1:
			m.put64(a[1], 1)
		default:
			return ret(eINVAL)
		}
		return ret(0)
	case "clock_time_get":
		switch a[0] {
		case 0:
			m.put64(a[2], m.wallNow())
		case 1:
			m.put64(a[2], m.nanoN*modelStepNanos)
			m.nanoN++
		default:
			return ret(eINVAL)
		}
		return ret(0)
	case "fd_advise":
		if !m.isOpen(a[0]) {
			return ret(eBADF)
		}
		if byte(a[3]) > 5 {
			return ret(eINVAL)
		}
		return ret(0)
	case "fd_allocate":
		if !m.isOpen(a[0]) {
			return ret(eBADF)
		}
		if tail := int64(a[1] + a[2]); tail < 0 {
			return ret(eINVAL)
		} else if tail == 0 {
			return ret(0)
		}
		return ret(eNOSYS) // a stdio stream cannot be extended
	case "fd_close":
		if !m.isOpen(a[0]) {
			return ret(eBADF)
		}
		m.open[a[0]] = false
		return ret(0)
	case "fd_datasync", "fd_sync":
		if !m.isOpen(a[0]) {
			return ret(eBADF)
		}
		return ret(0)
	case "fd_fdstat_get":
		if !m.isOpen(a[0]) {
			return ret(eBADF)
		}
		b := m.buf(a[1], 24)
		mle.PutUint16(b[0:], 1) // filetype: device without the character bit
		mle.PutUint16(b[2:], 0) // fdflags
		mle.PutUint32(b[4:], 0)
		mle.PutUint64(b[8:], modelFileRights)
		mle.PutUint64(b[16:], 0)
		return ret(0)
	case "fd_fdstat_set_flags":
		if a[1]&(2|8|16) != 0 {
			return ret(eINVAL)
		}
		if !m.isOpen(a[0]) {
			return ret(eBADF)
		}
		return ret(eNOSYS)
	case "fd_fdstat_set_rights", "proc_raise":
		return ret(eNOSYS)
	case "fd_filestat_get":
		if !m.isOpen(a[0]) {
			return ret(eBADF)
		}
		b := m.buf(a[1], 64)
		for i := range b {
			b[i] = 0
		}
		mle.PutUint64(b[16:], 1) // filetype
		mle.PutUint64(b[24:], 1) // nlink
		return ret(0)
	case "fd_filestat_set_size":
		if !m.isOpen(a[0]) {
			return ret(eBADF)
		}
		return ret(eNOSYS)
	case "fd_filestat_set_times":
		if !m.isOpen(a[0]) {
			return ret(eBADF)
		}
		panic("model: fd_filestat_set_times on an open stdio descriptor is outside the model")
	case "fd_pread", "fd_pwrite":
		if !m.isOpen(a[0]) {
			return ret(eBADF)
		}
		for _, l := range m.iovLens(a[1], a[2]) {
			if l != 0 {
				return ret(eBADF) // stdio streams have no positions
			}
		}
		m.put32(a[4], 0)
		return ret(0)
	case "fd_read":
		if !m.isOpen(a[0]) {
			return ret(eBADF)
		}
		for _, l := range m.iovLens(a[1], a[2]) {
			if l == 0 {
				continue
			}
			if a[0] != 0 {
				return ret(eBADF) // stdout/stderr are not readable
			}
			break // stdin: end of file
		}
		m.put32(a[3], 0)
		return ret(0)
	case "fd_write":
		if !m.isOpen(a[0]) {
			return ret(eBADF)
		}
		var sum uint32
		for _, l := range m.iovLens(a[1], a[2]) {
			if a[0] == 0 {
				return ret(eBADF) // stdin is not writable
			}
			sum += l
		}
		m.put32(a[3], sum) // accepted, discarded
		return ret(0)
	case "fd_prestat_get":
		if !m.isOpen(a[0]) {
			return ret(eBADF)
		}
		m.put64(a[1], 0) // stdio entries report an empty pre-open name (calibrated)
		return ret(0)
	case "fd_prestat_dir_name":
		if !m.isOpen(a[0]) {
			return ret(eBADF)
		}
		if a[2] > 0 {
			return ret(eNAMETOOLONG)
		}
		return ret(0)
	case "fd_readdir":
		if uint32(a[2]) < 24 {
			return ret(eINVAL)
		}
		return ret(eBADF) // closed, or not a directory
	case "fd_renumber":
		if !m.isOpen(a[0]) || int32(uint32(a[1])) < 0 {
			return ret(eBADF)
		}
		return ret(eNOTSUP) // stdio descriptors cannot be renumbered
	case "fd_seek", "fd_tell":
		if !m.isOpen(a[0]) {
			return ret(eBADF)
		}
		return ret(eNOSYS)
	case "path_create_directory", "path_remove_directory", "path_unlink_file":
		return ret(m.atPath(a[0], a[1], a[2]))
	case "path_filestat_get":
		return ret(m.atPath(a[0], a[2], a[3]))
	case "path_filestat_set_times":
		if e := m.setTimesFlags(a[6]); e != 0 {
			return ret(e)
		}
		return ret(m.atPath(a[0], a[2], a[3]))
	case "path_link":
		if e := m.atPath(a[0], a[2], a[3]); e != 0 {
			return ret(e)
		}
		return ret(m.atPath(a[4], a[5], a[6]))
	case "path_open":
		return ret(m.atPath(a[0], a[2], a[3]))
	case "path_readlink":
		if a[2] == 0 || a[4] == 0 {
			return ret(eINVAL)
		}
		return ret(m.atPath(a[0], a[1], a[2]))
	case "path_rename":
		if e := m.atPath(a[0], a[1], a[2]); e != 0 {
			return ret(e)
		}
		return ret(m.atPath(a[3], a[4], a[5]))
	case "path_symlink":
		if !m.isOpen(a[2]) {
			return ret(eBADF)
		}
		return ret(eNOTDIR)
	case "poll_oneoff":
		return ret(m.poll(a[0], a[1], a[2], a[3]))
	case "proc_exit":
		return kindExit, uint32(a[0])
	case "sched_yield":
		return ret(0)
	case "random_get":
		if a[1] > 0 {
			if m.rng == nil { // created on first use only because seeding is the most expensive part of the model
				m.rng = rand.New(rand.NewSource(modelSeed))
			}
			m.rng.Read(m.buf(a[0], a[1]))
			m.randN += a[1]
		}
		return ret(0)
	case "sock_accept", "sock_recv", "sock_shutdown":
		return ret(eBADF) // no sockets
	case "sock_send":
		if a[3] != 0 {
			return ret(eNOTSUP)
		}
		return ret(eBADF)
	}
	panic("model: no semantics for " + l.Fn)
}

func (m *model) poll(in, out, n, pn uint64) uint32 {
	if n == 0 {
		return eINVAL
	}
	subs := m.buf(in, n*48)
	evs := m.buf(out, n*32)
	for i := range evs {
		evs[i] = 0
	}
	m.put32(pn, uint32(n))
	written := uint64(0)
	emit := func(sub []byte, errno byte) {
		e := evs[written*32:]
		copy(e[:8], sub[:8])
		e[8], e[9] = errno, 0
		mle.PutUint32(e[10:], uint32(sub[8]))
		written++
	}
	var waitingOnStdin [][]byte
	for i := uint64(0); i < n; i++ {
		sub := subs[i*48 : i*48+48]
		switch sub[8] {
		case 0: // clock
			switch mle.Uint16(sub[40:]) {
			case 0:
			case 1:
				return eNOTSUP
			default:
				return eINVAL
			}
			emit(sub, 0)
		case 1: // fd_read
			fd := mle.Uint32(sub[16:])
			if int32(fd) < 0 {
				return eBADF
			}
			if !m.isOpen(uint64(fd)) {
				emit(sub, eBADF)
			} else {
				waitingOnStdin = append(waitingOnStdin, sub)
			}
		case 2: // fd_write
			fd := mle.Uint32(sub[16:])
			if int32(fd) < 0 {
				return eBADF
			}
			if m.isOpen(uint64(fd)) {
				emit(sub, eNOTSUP)
			} else {
				emit(sub, eBADF)
			}
		default:
			return eINVAL
		}
	}
	if written == n {
		return 0 // the sleep for the clock subscription returns immediately
	}
	if !m.open[0] {
		return eBADF
	}
	for _, sub := range waitingOnStdin { // stdin at EOF is always ready
		emit(sub, 0)
	}
	return 0
}

// modelTrace returns the predicted trace of a word: per executed step 1 kind byte, 4 value bytes and
// the window.
func modelTrace(alpha []letter, word []int) []byte {
	m := newModel()
	out := make([]byte, 0, len(word)*(5+winSize))
	_, word = hostOf(alpha, word) // a host-mode letter is no call, and the defaults do not depend on it
	for _, li := range word {
		k, v := m.step(&alpha[li])
		out = append(out, k, byte(v), byte(v>>8), byte(v>>16), byte(v>>24))
		out = append(out, m.mem...)
		if k != kindRet {
			break
		}
	}
	return out
}
