package main

import (
	"encoding/binary"
	"fmt"
	"strings"

	"github.com/tetratelabs/wazero/verif/wb"
)

// ---------------------------------------------------------------- guest memory layout
//
// Every pointer any letter passes lies inside the first winSize bytes of guest memory ("the window").
// The trace records the whole window after every call, so a stray write anywhere in it is seen.
const (
	winSize = 0x340

	pR1      = 0x000 // 8-byte result slot
	pR2      = 0x008 // 8-byte result slot
	pOUT     = 0x010 // 64-byte output buffer
	pOUT2    = 0x060 // 64-byte second output buffer (poll events)
	pIovR8   = 0x0B0 // iovec{OUT, 8}
	pIovR64  = 0x0B8 // iovec{OUT, 64}
	pIovW17  = 0x0C0 // iovec{MSG, 17}
	pIovW64  = 0x0C8 // iovec{MSG64, 64}
	pPathA   = 0x0D0 // "a"
	pPathB   = 0x0D8 // "b"
	pPathDot = 0x0E0 // "."
	pPathAbs = 0x0E8 // "/etc/hostname"
	pSubClk  = 0x100 // subscription: clock monotonic, relative timeout one hour
	pSubRd   = 0x130 // subscription: fd_read on fd 0 (contiguous with pSubClk => a 2-element array)
	pSubWr   = 0x160 // subscription: fd_write on fd 1
	pMsg     = 0x190 // marker text written to stdout/stderr
	pMsg64   = 0x1B0 // 64 bytes of marker text
	pSubList = 0x200 // 4 x 48 bytes: subscription array of the poll-list letters (written before the call)
	pEvList  = 0x2C0 // 4 x 32 bytes: their event area
)

const (
	pathAbs   = "/etc/hostname"
	guestMsg  = "C18-GUEST-OUTPUT\n" // 17 bytes; must never reach the host's stdout/stderr
	hourNanos = uint64(3600) * 1000 * 1000 * 1000
)

// initialWindow is the content of the window in a fresh instance (one active data segment).
// It is test input shared by the guest and the model, not a constant of the implementation.
func initialWindow() []byte {
	w := make([]byte, winSize)
	for i := range w {
		w[i] = 0xA5 // outputs start non-zero so that a write of zeros is visible
	}
	le := binary.LittleEndian
	iov := func(at int, p, l uint32) {
		le.PutUint32(w[at:], p)
		le.PutUint32(w[at+4:], l)
	}
	iov(pIovR8, pOUT, 8)
	iov(pIovR64, pOUT, 64)
	iov(pIovW17, pMsg, uint32(len(guestMsg)))
	iov(pIovW64, pMsg64, 64)
	str := func(at int, s string, room int) {
		for i := 0; i < room; i++ {
			w[at+i] = 0
		}
		copy(w[at:], s)
	}
	str(pPathA, "a", 8)
	str(pPathB, "b", 8)
	str(pPathDot, ".", 8)
	str(pPathAbs, pathAbs, 24)
	sub := func(at int, user uint64, tag byte) {
		for i := 0; i < 48; i++ {
			w[at+i] = 0
		}
		le.PutUint64(w[at:], user)
		w[at+8] = tag
	}
	sub(pSubClk, 0x1111111111111111, 0)
	le.PutUint32(w[pSubClk+16:], 1)         // clock id: monotonic
	le.PutUint64(w[pSubClk+24:], hourNanos) // timeout (relative)
	sub(pSubRd, 0x2222222222222222, 1)
	le.PutUint32(w[pSubRd+16:], 0) // fd 0
	sub(pSubWr, 0x3333333333333333, 2)
	le.PutUint32(w[pSubWr+16:], 1) // fd 1
	str(pMsg, guestMsg, 32)
	m64 := ""
	for len(m64) < 64 {
		m64 += "C18-GUEST-OUTPUT-64;"
	}
	str(pMsg64, m64[:63]+"\n", 64)
	return w
}

// ---------------------------------------------------------------- WASI signature table (46 functions)

type wasiFn struct {
	name   string
	params string // one char per parameter: 'i' = i32, 'l' = i64
	noRet  bool   // proc_exit
}

var wasiFns = []wasiFn{
	{"args_get", "ii", false},
	{"args_sizes_get", "ii", false},
	{"environ_get", "ii", false},
	{"environ_sizes_get", "ii", false},
	{"clock_res_get", "ii", false},
	{"clock_time_get", "ili", false},
	{"fd_advise", "illi", false},
	{"fd_allocate", "ill", false},
	{"fd_close", "i", false},
	{"fd_datasync", "i", false},
	{"fd_fdstat_get", "ii", false},
	{"fd_fdstat_set_flags", "ii", false},
	{"fd_fdstat_set_rights", "ill", false},
	{"fd_filestat_get", "ii", false},
	{"fd_filestat_set_size", "il", false},
	{"fd_filestat_set_times", "illi", false},
	{"fd_pread", "iiili", false},
	{"fd_prestat_get", "ii", false},
	{"fd_prestat_dir_name", "iii", false},
	{"fd_pwrite", "iiili", false},
	{"fd_read", "iiii", false},
	{"fd_readdir", "iiili", false},
	{"fd_renumber", "ii", false},
	{"fd_seek", "ilii", false},
	{"fd_sync", "i", false},
	{"fd_tell", "ii", false},
	{"fd_write", "iiii", false},
	{"path_create_directory", "iii", false},
	{"path_filestat_get", "iiiii", false},
	{"path_filestat_set_times", "iiiilli", false},
	{"path_link", "iiiiiii", false},
	{"path_open", "iiiiillii", false},
	{"path_readlink", "iiiiii", false},
	{"path_remove_directory", "iii", false},
	{"path_rename", "iiiiii", false},
	{"path_symlink", "iiiii", false},
	{"path_unlink_file", "iii", false},
	{"poll_oneoff", "iiii", false},
	{"proc_exit", "i", true},
	{"proc_raise", "i", false},
	{"random_get", "ii", false},
	{"sched_yield", "", false},
	{"sock_accept", "iii", false},
	{"sock_recv", "iiiiii", false},
	{"sock_send", "iiiii", false},
	{"sock_shutdown", "ii", false},
}

// ---------------------------------------------------------------- letters

type letter struct {
	Name  string   // e.g. "fd_read(0,iov64)"
	Fn    string   // WASI function
	Args  []uint64 // well-formed arguments (all pointers inside the window)
	Setup []byte   // poll-list letters: subscription array the guest memory holds at pSubList when the call is made
	Main  bool     // member of the main alphabet (all words of depth 3)
	Core  bool     // member of the reduced alphabet used for the deepest words
	List  bool     // member of the poll-list family
	fn    int      // index into wasiFns

	// Host-mode letters (hostmode.go) perform no WASI call: as the first letter of a word they fix the
	// host side of all following calls — the kind of context.Context the host passes to
	// InstantiateModule and to every Call, and the flavour of the runtime.
	Host    bool
	HostCtx int // index into ctxKindNames
	HostRT  int // index into rtFlavorNames
}

// Subscription atoms of the poll-list letters: every list (with repetition) of 0..4 atoms is a letter.
// Userdata are pairwise distinct so that the ORDER of the events in the out area is observable.
var pollAtoms = []struct {
	name string
	tag  byte
	fd   uint32 // fd_read / fd_write
	abs  bool   // clock: subscription_clock_abstime
}{
	{"clkR", 0, 0, false}, // monotonic, relative, one hour
	{"clkA", 0, 0, true},  // realtime, absolute
	{"rd0", 1, 0, false}, {"rd1", 1, 1, false}, {"rd2", 1, 2, false}, {"rd3", 1, 3, false},
	{"wr0", 2, 0, false}, {"wr1", 2, 1, false}, {"wr2", 2, 2, false}, {"wr3", 2, 3, false},
}

func pollAtomBytes(k int, pos int) []byte {
	a := pollAtoms[k]
	b := make([]byte, 48)
	le := binary.LittleEndian
	le.PutUint64(b, 0xC180000000000000|uint64(k+1)<<8|uint64(pos+1)) // distinct per atom and per position
	b[8] = a.tag
	switch {
	case a.tag == 0 && a.abs:
		le.PutUint32(b[16:], 0)                       // realtime
		le.PutUint64(b[24:], 1640995200*1000000000+5) // an absolute time
		le.PutUint16(b[40:], 1)
	case a.tag == 0:
		le.PutUint32(b[16:], 1)
		le.PutUint64(b[24:], hourNanos)
	default:
		le.PutUint32(b[16:], a.fd)
	}
	return b
}

// pollListLetters: all atom lists of length 0..4, in every order, with repetition (11 111 letters).
func pollListLetters(fn int) []letter {
	var out []letter
	var rec func(prefix []int)
	rec = func(prefix []int) {
		var names []string
		var setup []byte
		for pos, k := range prefix {
			names = append(names, pollAtoms[k].name)
			setup = append(setup, pollAtomBytes(k, pos)...)
		}
		out = append(out, letter{Name: "poll_oneoff[" + strings.Join(names, ",") + "]", Fn: "poll_oneoff",
			Args: []uint64{pSubList, pEvList, uint64(len(prefix)), pR1}, Setup: setup, List: true, fn: fn})
		if len(prefix) == 4 {
			return
		}
		for k := range pollAtoms {
			rec(append(append([]int{}, prefix...), k))
		}
	}
	rec(nil)
	return out
}

func buildAlphabet() []letter {
	var ls []letter
	seenFn := map[string]bool{}
	add := func(core bool, fn string, label string, args ...uint64) {
		idx := -1
		for i, f := range wasiFns {
			if f.name == fn {
				idx = i
			}
		}
		if idx < 0 {
			panic("unknown WASI function " + fn)
		}
		if len(args) != len(wasiFns[idx].params) {
			panic(fmt.Sprintf("%s: %d args for signature %q", fn, len(args), wasiFns[idx].params))
		}
		if !seenFn[fn] {
			core = true // the first choice of every function is always in the core alphabet
			seenFn[fn] = true
		}
		ls = append(ls, letter{Name: fn + "(" + label + ")", Fn: fn, Args: args, Main: true, Core: core, fn: idx})
	}
	const (
		atimSet = 1
		atimNow = 2
		mtimSet = 4
		mtimNow = 8
	)
	add(true, "args_get", "OUT,OUT2", pOUT, pOUT2)
	add(false, "args_get", "R1,R2", pR1, pR2)
	add(true, "args_sizes_get", "R1,R2", pR1, pR2)
	add(false, "args_sizes_get", "OUT,OUT+4", pOUT, pOUT+4)
	add(true, "environ_get", "OUT,OUT2", pOUT, pOUT2)
	add(false, "environ_get", "R1,R2", pR1, pR2)
	add(true, "environ_sizes_get", "R1,R2", pR1, pR2)
	add(false, "environ_sizes_get", "OUT,OUT+4", pOUT, pOUT+4)
	for id := uint64(0); id < 4; id++ {
		add(id < 2, "clock_res_get", fmt.Sprintf("id=%d,R1", id), id, pR1)
	}
	for id := uint64(0); id < 4; id++ {
		add(id < 2, "clock_time_get", fmt.Sprintf("id=%d,R1", id), id, 1000*id, pR1)
	}
	add(true, "fd_advise", "1,normal", 1, 0, 0, 0)
	add(false, "fd_advise", "3,normal", 3, 0, 8, 0)
	add(true, "fd_allocate", "1,0,8", 1, 0, 8)
	add(false, "fd_allocate", "3,0,8", 3, 0, 8)
	add(true, "fd_close", "0", 0)
	add(true, "fd_close", "1", 1)
	add(false, "fd_close", "3", 3)
	add(true, "fd_datasync", "1", 1)
	add(false, "fd_datasync", "3", 3)
	add(true, "fd_fdstat_get", "0,OUT", 0, pOUT)
	add(false, "fd_fdstat_get", "1,OUT", 1, pOUT)
	add(false, "fd_fdstat_get", "3,OUT", 3, pOUT)
	add(true, "fd_fdstat_set_flags", "0,0", 0, 0)
	add(false, "fd_fdstat_set_flags", "3,NONBLOCK", 3, 4)
	add(true, "fd_fdstat_set_rights", "1,0,0", 1, 0, 0)
	add(false, "fd_fdstat_set_rights", "3,~0,~0", 3, ^uint64(0), ^uint64(0))
	add(true, "fd_filestat_get", "0,OUT", 0, pOUT)
	add(false, "fd_filestat_get", "2,OUT", 2, pOUT)
	add(false, "fd_filestat_get", "3,OUT", 3, pOUT)
	add(true, "fd_filestat_set_size", "1,8", 1, 8)
	add(false, "fd_filestat_set_size", "3,0", 3, 0)
	add(true, "fd_filestat_set_times", "3,ATIM_NOW|MTIM_NOW", 3, 0, 0, atimNow|mtimNow)
	add(false, "fd_filestat_set_times", "3,ATIM|MTIM", 3, 64, 8, atimSet|mtimSet)
	add(true, "fd_pread", "0,iov8,off=0,R1", 0, pIovR8, 1, 0, pR1)
	add(false, "fd_pread", "3,iov64,off=8,R1", 3, pIovR64, 1, 8, pR1)
	add(true, "fd_prestat_get", "3,OUT", 3, pOUT)
	add(false, "fd_prestat_get", "0,OUT", 0, pOUT)
	add(false, "fd_prestat_get", "4,OUT", 4, pOUT)
	add(true, "fd_prestat_dir_name", "3,OUT,8", 3, pOUT, 8)
	add(false, "fd_prestat_dir_name", "0,OUT,0", 0, pOUT, 0)
	add(true, "fd_pwrite", "1,iov17,off=0,R1", 1, pIovW17, 1, 0, pR1)
	add(false, "fd_pwrite", "3,iov64,off=8,R1", 3, pIovW64, 1, 8, pR1)
	add(true, "fd_read", "0,iov8,R1", 0, pIovR8, 1, pR1)
	add(true, "fd_read", "0,iov8+iov64,R1", 0, pIovR8, 2, pR1)
	add(false, "fd_read", "3,iov64,R1", 3, pIovR64, 1, pR1)
	add(true, "fd_readdir", "0,OUT,64,0,R1", 0, pOUT, 64, 0, pR1)
	add(false, "fd_readdir", "3,OUT,8,0,R1", 3, pOUT, 8, 0, pR1)
	add(true, "fd_renumber", "0,3", 0, 3)
	add(false, "fd_renumber", "3,0", 3, 0)
	add(true, "fd_seek", "0,0,SET,R1", 0, 0, 0, pR1)
	add(false, "fd_seek", "3,8,CUR,R1", 3, 8, 1, pR1)
	add(true, "fd_sync", "2", 2)
	add(false, "fd_sync", "3", 3)
	add(true, "fd_tell", "1,R1", 1, pR1)
	add(false, "fd_tell", "3,R1", 3, pR1)
	add(true, "fd_write", "1,iov17,R1", 1, pIovW17, 1, pR1)
	add(false, "fd_write", "2,iov17+iov64,R1", 2, pIovW17, 2, pR1)
	add(false, "fd_write", "3,iov64,R1", 3, pIovW64, 1, pR1)
	add(true, "path_create_directory", "3,a", 3, pPathA, 1)
	add(false, "path_create_directory", "0,a", 0, pPathA, 1)
	add(true, "path_filestat_get", "3,follow,a,OUT", 3, 1, pPathA, 1, pOUT)
	add(false, "path_filestat_get", "3,0,/etc/hostname,OUT", 3, 0, pPathAbs, uint64(len(pathAbs)), pOUT)
	add(true, "path_filestat_set_times", "3,a,ATIM_NOW|MTIM_NOW", 3, 1, pPathA, 1, 0, 0, atimNow|mtimNow)
	add(false, "path_filestat_set_times", "3,a,ATIM|MTIM", 3, 0, pPathA, 1, 64, 8, atimSet|mtimSet)
	add(true, "path_link", "3,a,3,b", 3, 0, pPathA, 1, 3, pPathB, 1)
	add(false, "path_link", "0,a,3,b", 0, 0, pPathA, 1, 3, pPathB, 1)
	add(true, "path_open", "3,a,rd,R1", 3, 1, pPathA, 1, 0, 2, 0, 0, pR1)
	add(false, "path_open", "3,.,DIRECTORY,R1", 3, 1, pPathDot, 1, 2, 0, 0, 0, pR1)
	add(false, "path_open", "3,/etc/hostname,rd,R1", 3, 1, pPathAbs, uint64(len(pathAbs)), 0, 2, 0, 0, pR1)
	add(true, "path_readlink", "3,a,OUT,64,R1", 3, pPathA, 1, pOUT, 64, pR1)
	add(false, "path_readlink", "0,a,OUT,0,R1", 0, pPathA, 1, pOUT, 0, pR1)
	add(true, "path_remove_directory", "3,a", 3, pPathA, 1)
	add(false, "path_remove_directory", "1,a", 1, pPathA, 1)
	add(true, "path_rename", "3,a,3,b", 3, pPathA, 1, 3, pPathB, 1)
	add(false, "path_rename", "2,a,3,b", 2, pPathA, 1, 3, pPathB, 1)
	add(true, "path_symlink", "a,3,b", pPathA, 1, 3, pPathB, 1)
	add(false, "path_symlink", "a,0,b", pPathA, 1, 0, pPathB, 1)
	add(true, "path_unlink_file", "3,a", 3, pPathA, 1)
	add(false, "path_unlink_file", "0,/etc/hostname", 0, pPathAbs, uint64(len(pathAbs)))
	add(true, "poll_oneoff", "clock-1h,OUT2,1,R1", pSubClk, pOUT2, 1, pR1)
	add(true, "poll_oneoff", "clock-1h+fd_read(0),OUT2,2,R1", pSubClk, pOUT2, 2, pR1)
	add(false, "poll_oneoff", "fd_write(1),OUT2,1,R1", pSubWr, pOUT2, 1, pR1)
	add(true, "proc_exit", "0", 0)
	add(false, "proc_exit", "42", 42)
	add(true, "proc_raise", "0", 0)
	add(false, "proc_raise", "9", 9)
	add(true, "random_get", "OUT,8", pOUT, 8)
	add(true, "random_get", "OUT,64", pOUT, 64)
	add(false, "random_get", "OUT,0", pOUT, 0)
	add(true, "sched_yield", "")
	add(true, "sock_accept", "3,0,R1", 3, 0, pR1)
	add(false, "sock_accept", "0,NONBLOCK,R1", 0, 4, pR1)
	add(true, "sock_recv", "3,iov64,R1,R2", 3, pIovR64, 1, 0, pR1, pR2)
	add(false, "sock_recv", "0,iov8,R1,R2", 0, pIovR8, 1, 0, pR1, pR2)
	add(true, "sock_send", "1,iov17,R1", 1, pIovW17, 1, 0, pR1)
	add(false, "sock_send", "3,iov17,flags=1,R1", 3, pIovW17, 1, 1, pR1)
	add(true, "sock_shutdown", "3,RD|WR", 3, 3)
	add(false, "sock_shutdown", "0,RD", 0, 1)
	for _, f := range wasiFns {
		if !seenFn[f.name] {
			panic("no letter for " + f.name)
		}
	}
	// poll-list letters; two of them are members of the main alphabet as well.
	pollFn := -1
	for i, f := range wasiFns {
		if f.name == "poll_oneoff" {
			pollFn = i
		}
	}
	for _, l := range pollListLetters(pollFn) {
		switch l.Name {
		case "poll_oneoff[rd2,rd0,rd1]":
			l.Main, l.Core = true, true
		case "poll_oneoff[]":
			l.Main = true
		}
		ls = append(ls, l)
	}
	ls = append(ls, hostLetters()...)
	return ls
}

// ---------------------------------------------------------------- the guest

// Scratch area outside the traced window: the patterns the "stack dirtier" loads.
const (
	pDirtFF = 0x400 // 256 bytes of 0xFF
	pDirtA5 = 0x500 // 256 bytes of 0xA5
)

// Call shapes. Every WASI import can be reached in three ways (all exported):
//
//	"<fn>"     direct:  export wrapper -> import
//	"<fn>.ff"  hostile: dirty(0xFF..) ; forward1 -> wrapper -> import
//	"<fn>.a5"  hostile: dirty(0xA5..) ; forward2 -> forward1 -> wrapper -> import
//
// dirty(base, n) loads 32 distinct i64 values (all ones / 0xA5..) from memory into locals, calls a leaf
// and itself (n more levels) while they are live — so the compiler has to spill them to the native
// stack — and xors them together afterwards. When it has returned, the stack area below the caller is
// full of non-zero 64-bit words; the forwarders (functions that only pass their parameters on) then put
// the host-call argument slots of the import into that area. A host function that forgets to truncate a
// 32-bit parameter sees the residue in the upper half of its slot. The model does not know about shapes:
// defaults must not depend on what was on the stack before.
const (
	shapeDirect = 0
	shapeFF     = 1
	shapeA5     = 2
)

var shapeSuffix = [3]string{"", ".ff", ".a5"}
var shapeLabel = [3]string{"direct", "after stack dirtier 0xFF.. via 1 forwarder", "after stack dirtier 0xA5.. via 2 forwarders"}

// buildGuest returns ONE fixed module: it imports all 46 WASI functions and exports, for each, a
// wrapper with the same signature (named like the import), two "hostile stack" variants of it (see the
// call shapes above) and the memory. One page of memory whose first winSize bytes are initialised by a
// data segment.
func buildGuest() []byte {
	m := &wb.Module{}
	m.Mem = &wb.Limits{Min: 1, Max: 1, HasMax: true}
	vt := func(s string) []byte {
		var o []byte
		for _, c := range s {
			if c == 'l' {
				o = append(o, wb.I64)
			} else {
				o = append(o, wb.I32)
			}
		}
		return o
	}
	imps := make([]uint32, len(wasiFns))
	for i, f := range wasiFns {
		var res []byte
		if !f.noRet {
			res = []byte{wb.I32}
		}
		imps[i] = m.ImportFunc("wasi_snapshot_preview1", f.name, vt(f.params), res)
	}
	// leaf(x) = x ; dirty(base, n): see the comment on the call shapes.
	leaf := m.AddFunc([]byte{wb.I64}, []byte{wb.I64}, nil, (&wb.Asm{}).LocalGet(0).B)
	const nDirty = 32
	dirtyLocals := make([]byte, nDirty+1)
	for i := range dirtyLocals {
		dirtyLocals[i] = wb.I64
	}
	dirty := m.NumImportedFuncs() + uint32(len(m.Funcs)) // its own index (it recurses)
	{
		const acc = 2 + nDirty
		a := &wb.Asm{}
		for i := 0; i < nDirty; i++ {
			a.LocalGet(0).Mem(0x29, 3, uint64(8*i)).LocalSet(uint32(2 + i)) // i64.load
		}
		a.LocalGet(2).Call(leaf).LocalSet(acc)
		a.LocalGet(1).If(wb.Void)
		a.LocalGet(acc).LocalGet(0).LocalGet(1).I32Const(1).Op(0x6b).Call(dirty).Op(0x85).LocalSet(acc) // acc ^= dirty(base, n-1)
		a.End()
		for i := 0; i < nDirty; i++ {
			a.LocalGet(acc).LocalGet(uint32(2 + i)).Op(0x85).LocalSet(acc)
		}
		a.LocalGet(acc)
		if got := m.AddFunc([]byte{wb.I32, wb.I32}, []byte{wb.I64}, dirtyLocals, a.B); got != dirty {
			panic("dirty index")
		}
	}
	for i, f := range wasiFns {
		var res []byte
		if !f.noRet {
			res = []byte{wb.I32}
		}
		forward := func(to uint32) uint32 {
			a := &wb.Asm{}
			for p := range f.params {
				a.LocalGet(uint32(p))
			}
			a.Call(to)
			return m.AddFunc(vt(f.params), res, nil, a.B)
		}
		wrapper := forward(imps[i])
		m.ExportFunc(f.name, wrapper)
		fwd1 := forward(wrapper)
		fwd2 := forward(fwd1)
		hostile := func(base int32, to uint32) uint32 {
			a := (&wb.Asm{}).I32Const(base).I32Const(2).Call(dirty).Drop()
			for p := range f.params {
				a.LocalGet(uint32(p))
			}
			a.Call(to)
			return m.AddFunc(vt(f.params), res, nil, a.B)
		}
		m.ExportFunc(f.name+shapeSuffix[shapeFF], hostile(pDirtFF, fwd1))
		m.ExportFunc(f.name+shapeSuffix[shapeA5], hostile(pDirtA5, fwd2))
	}
	m.Exports = append(m.Exports, wb.Export{Name: "memory", Kind: wb.KindMemory, Idx: 0})
	pat := make([]byte, 512)
	for i := range pat {
		pat[i] = 0xFF
		if i >= 256 {
			pat[i] = 0xA5
		}
	}
	m.Datas = []wb.Data{{Offset: wb.CI32(0), Bytes: initialWindow()}, {Offset: wb.CI32(pDirtFF), Bytes: pat}}
	return m.Encode()
}
