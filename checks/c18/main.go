// C18 — default configuration exposes nothing of the host and runs reproducibly.
//
// Exhaustive enumeration of WASI call sequences ("words") run by one fixed guest under
// wazero.NewModuleConfig(): every word of depth 3 over an alphabet of 46 WASI functions x 2-4 well-formed
// argument choices (thorough: additionally depth 4 over a core alphabet), plus long single-letter words.
// Every word is executed in child processes that differ in environment variables, working directory,
// argv, stdin content, TZ and start time; inside each child on both engines and in two simultaneously
// live instances per engine (one calling WASI from a clean stack, one after a guest "stack dirtier"
// through frameless forwarders, see alphabet.go). Oracle: the byte-exact trace (errno + guest-memory window after every call)
// equals an independent model of the documented defaults (model.go); children additionally emit one
// digest per word, which the parent compares with the model's digest and across children.
//
// All executions of real code happen in the children: their stdin/stdout/stderr are owned by the
// parent (a regular file / capture files), so a default that wrongly reaches for the host's stdio can
// neither block the check nor hide.
package main

import (
	"bytes"
	"encoding/binary"
	"encoding/json"
	"fmt"
	"os"
	"os/exec"
	"path/filepath"
	"runtime"
	"runtime/debug"
	"sort"
	"strconv"
	"strings"
	"sync"
	"sync/atomic"
	"time"

	"github.com/tetratelabs/wazero/verif/fw"
)

const (
	chunkWords    = 4096
	probeWatchdog = 90 * time.Second  // parent-side backstop for the sleep probes / a replayed word (the child's own call watchdog, hostmode.go, fires after 45 s)
	stallWatchdog = 120 * time.Second // not a single word (a fraction of a millisecond of CPU) finished in any thread
	maxDiags      = 24
	maxCapture    = 256 << 10 // bytes on a child's stdout+stderr (expected: none) after which it is stopped
	startStagger  = 1200 * time.Millisecond
)

// ---------------------------------------------------------------- child

type diag struct {
	Index int64    `json:"index"`
	Word  []string `json:"word"`
	Inst  string   `json:"instance"`
	Who   string   `json:"who"` // "every-instance-alike" | "instances-disagree"
	stepDiff
}

type childSummary struct {
	Env       string           `json:"env"`
	Done      int64            `json:"done"` // indices processed (prefix of the space)
	Words     int64            `json:"words"`
	Skipped   int64            `json:"skipped"`
	Instances int64            `json:"instances"`
	Steps     int64            `json:"steps"`
	Capped    bool             `json:"capped"`
	Aborted   bool             `json:"aborted"`
	BadWords  int64            `json:"bad_words"`
	Diags     []diag           `json:"diags"`
	Outcomes  map[string]int64 `json:"outcomes"`
	Explain   []string         `json:"explain,omitempty"`
	Error     string           `json:"error,omitempty"`
	Pid       int              `json:"pid"`
	StartUnix int64            `json:"start_unix"`
}

func childFail(out string, s *childSummary, format string, a ...any) {
	s.Error = fmt.Sprintf(format, a...)
	writeJSON(out+".json", s)
	os.Exit(3)
}

func writeJSON(p string, v any) {
	b, _ := json.Marshal(v)
	os.WriteFile(p+".tmp", b, 0o644)
	os.Rename(p+".tmp", p)
}

// tuneGC: every instance allocates a 64 KiB memory; with the default GC target the collector runs
// every few dozen instances and the workers spend their time on its locks. Collect by limit instead.
func tuneGC(limit int64) {
	debug.SetGCPercent(-1)
	debug.SetMemoryLimit(limit)
}

func childMain() {
	tuneGC(1 << 30)
	out := os.Getenv("C18_OUT")
	sum := &childSummary{Env: os.Getenv("C18_ENVID"), Outcomes: map[string]int64{}, Pid: os.Getpid(), StartUnix: time.Now().Unix()}
	threads, _ := strconv.Atoi(os.Getenv("C18_THREADS"))
	if threads < 1 {
		threads = 1
	}
	deadline, _ := strconv.ParseInt(os.Getenv("C18_DEADLINE"), 10, 64)
	sp := newSpace(os.Getenv("C18_TIER"))
	guest := buildGuest()
	workers := make([]*worker, threads)
	for i := range workers {
		w, err := newWorker(sp.alpha, guest, os.Getenv("C18_ENVID"))
		if err != nil {
			childFail(out, sum, "%v", err)
		}
		workers[i] = w
	}

	var beat atomic.Int64 // words finished, published twice a second for the parent's stall watchdog
	startMonitor(out, &beat, newCallWatch(sp, workers))

	// explicit word list (replay / explain mode)
	if js := os.Getenv("C18_WORDS"); js != "" {
		var lists [][]string
		if err := json.Unmarshal([]byte(js), &lists); err != nil {
			childFail(out, sum, "C18_WORDS: %v", err)
		}
		for i, names := range lists {
			word, err := sp.byNames(names)
			if err != nil {
				childFail(out, sum, "%v", err)
			}
			os.WriteFile(out+".probe0", nil, 0o644)
			trs, err := workers[0].runWord(word)
			if err != nil {
				childFail(out, sum, "%v", err)
			}
			want := modelTrace(sp.alpha, word)
			if d := judge(sp, workers[0].env, int64(i), word, trs, want); d != nil {
				sum.BadWords++
				sum.Diags = append(sum.Diags, *d)
			}
			sum.Words++
			sum.Instances += 4
			sum.Explain = append(sum.Explain, explain(sp, workers[0].env, workers[0].describeShapes(), word, trs, want)...)
		}
		os.WriteFile(out+".probe1", nil, 0o644)
		sum.Done = int64(len(lists))
		writeJSON(out+".json", sum)
		return
	}

	// sleep probes: the defaults promise that a one-hour relative clock subscription returns at once —
	// whatever context the host calls with (no host-mode letter, then every host mode).
	os.WriteFile(out+".probe0", nil, 0o644)
	probe, _ := sp.byNames([]string{"poll_oneoff(clock-1h,OUT2,1,R1)"})
	if len(probe) != 1 {
		childFail(out, sum, "probe letter missing")
	}
	probes := [][]int{probe}
	for i := range sp.alpha {
		if sp.alpha[i].Host {
			probes = append(probes, []int{i, probe[0]})
		}
	}
	for _, p := range probes {
		if _, err := workers[0].runWord(p); err != nil {
			childFail(out, sum, "%v", err)
		}
	}
	os.WriteFile(out+".probe1", nil, 0o644)

	df, err := os.Create(out + ".dig")
	if err != nil {
		childFail(out, sum, "%v", err)
	}
	digs := make([]uint64, chunkWords)
	raw := make([]byte, 8*chunkWords)
	var mu sync.Mutex
	for base := int64(0); base < sp.total; base += chunkWords {
		if deadline > 0 && time.Now().Unix() > deadline {
			sum.Capped = true
			break
		}
		n := int64(chunkWords)
		if base+n > sp.total {
			n = sp.total - base
		}
		var next atomic.Int64
		var wg sync.WaitGroup
		var chunkDiags []diag
		var failure atomic.Value
		for t := 0; t < threads; t++ {
			wg.Add(1)
			go func(w *worker) {
				defer wg.Done()
				buf := make([]int, 0, 1100)
				var words, skipped, steps, bad int64
				oc := map[string]int64{}
				var myDiags []diag
				for {
					k := next.Add(1) - 1
					if k >= n {
						break
					}
					word := sp.word(base+k, buf)
					if word == nil {
						digs[k] = 0
						skipped++
						continue
					}
					trs, err := w.runWord(word)
					if err != nil {
						failure.Store(err.Error())
						return
					}
					beat.Add(1)
					want := modelTrace(sp.alpha, word)
					digs[k] = digest(trs[0])
					words++
					if !(bytes.Equal(trs[0], want) && bytes.Equal(trs[1], want) && bytes.Equal(trs[2], want) && bytes.Equal(trs[3], want)) {
						bad++
						if len(myDiags) < maxDiags {
							if d := judge(sp, w.env, base+k, word, trs, want); d != nil {
								myDiags = append(myDiags, *d)
							}
						}
					}
					const rec = 5 + winSize
					for o := 0; o+rec <= len(trs[0]); o += rec {
						steps++
						oc[outcomeString(trs[0][o], binary.LittleEndian.Uint32(trs[0][o+1:]))]++
						if trs[0][o] != kindRet {
							break
						}
					}
				}
				mu.Lock()
				sum.Words += words
				sum.Skipped += skipped
				sum.Steps += steps
				sum.Instances += 4 * words
				sum.BadWords += bad
				for k, v := range oc {
					sum.Outcomes[k] += v
				}
				chunkDiags = append(chunkDiags, myDiags...)
				mu.Unlock()
			}(workers[t])
		}
		wg.Wait()
		if f := failure.Load(); f != nil {
			childFail(out, sum, "%v", f)
		}
		sort.Slice(chunkDiags, func(i, j int) bool { return chunkDiags[i].Index < chunkDiags[j].Index })
		for _, d := range chunkDiags {
			if len(sum.Diags) < maxDiags {
				sum.Diags = append(sum.Diags, d)
			}
		}
		for i := int64(0); i < n; i++ {
			binary.LittleEndian.PutUint64(raw[8*i:], digs[i])
		}
		if _, err := df.Write(raw[:8*n]); err != nil {
			childFail(out, sum, "%v", err)
		}
		sum.Done = base + n
		if len(sum.Diags) >= maxDiags {
			sum.Aborted = true // enough deviations collected: the verdict is settled, do not grind through the rest
			break
		}
	}
	df.Close()
	for _, w := range workers {
		w.close()
	}
	writeJSON(out+".json", sum)
}

// judge classifies a word whose traces are not all equal to the model trace.
func judge(sp *space, env int, idx int64, word []int, trs [4][]byte, want []byte) *diag {
	var best *stepDiff
	bestInst := -1
	for i := 0; i < 4; i++ {
		if d := firstDiff(sp.alpha, word, trs[i], want); d != nil && (best == nil || d.Step < best.Step) {
			best, bestInst = d, i
		}
	}
	if best == nil {
		return nil
	}
	who := "every-instance-alike"
	for i := 1; i < 4; i++ {
		if !bytes.Equal(trs[i], trs[0]) {
			who = "instances-disagree"
		}
	}
	in := instNames[bestInst]
	if bestInst%2 == 1 {
		in += " (reaches WASI through the hostile-stack shapes)"
	}
	host, _ := hostOf(sp.alpha, word)
	in += ", host context " + ctxKindNames[ctxKindAt(host, env, bestInst, best.Step)]
	return &diag{Index: idx, Word: sp.names(word), Inst: in, Who: who, stepDiff: *best}
}

func explain(sp *space, env int, shapes string, word []int, trs [4][]byte, want []byte) []string {
	var o []string
	const rec = 5 + winSize
	o = append(o, "word: "+strings.Join(sp.names(word), " ; "))
	o = append(o, "call shapes: "+shapes)
	host, calls := hostOf(sp.alpha, word)
	for k := range calls {
		var ks []string
		for i := 0; i < 4; i++ {
			ks = append(ks, instNames[i]+"="+ctxKindNames[ctxKindAt(host, env, i, k)])
		}
		o = append(o, fmt.Sprintf("host contexts of call %d: %s", k, strings.Join(ks, " ")))
	}
	word = calls
	for k := 0; k*rec+rec <= len(want); k++ {
		w := want[k*rec:]
		o = append(o, fmt.Sprintf("  step %d %s: model %s R1=%x R2=%x OUT=%x", k, sp.alpha[word[k]].Name,
			outcomeString(w[0], binary.LittleEndian.Uint32(w[1:])), w[5+pR1:5+pR1+8], w[5+pR2:5+pR2+8], w[5+pOUT:5+pOUT+16]))
		for i := 0; i < 4; i++ {
			if k*rec+rec > len(trs[i]) {
				o = append(o, fmt.Sprintf("    %-14s (no such step)", instNames[i]))
				continue
			}
			g := trs[i][k*rec:]
			o = append(o, fmt.Sprintf("    %-14s %s R1=%x R2=%x OUT=%x", instNames[i], outcomeString(g[0], binary.LittleEndian.Uint32(g[1:])),
				g[5+pR1:5+pR1+8], g[5+pR2:5+pR2+8], g[5+pOUT:5+pOUT+16]))
		}
	}
	for i := 0; i < 4; i++ {
		if d := firstDiff(sp.alpha, word, trs[i], want); d != nil {
			o = append(o, fmt.Sprintf("  %s deviates at step %d (%s, %s): %s", instNames[i], d.Step, d.Fn, d.Aspect, d.Detail))
		} else {
			o = append(o, fmt.Sprintf("  %s equals the model", instNames[i]))
		}
	}
	return o
}

// ---------------------------------------------------------------- host environments

type hostEnv struct {
	id      string
	env     []string
	dir     string
	args    []string
	stdin   string // path of a regular file
	threads int
	what    string
}

func makeEnvs(tmp string) []*hostEnv {
	mustWrite := func(name string, data []byte) string {
		p := filepath.Join(tmp, name)
		if err := os.WriteFile(p, data, 0o644); err != nil {
			die("%v", err)
		}
		return p
	}
	deep := filepath.Join(tmp, "cwd-E1", "deep", "er")
	if err := os.MkdirAll(deep, 0o755); err != nil {
		die("%v", err)
	}
	cwd, _ := os.Getwd()
	text := bytes.Repeat([]byte("HOST-STDIN-CONTENT-E0 must never be readable by a default-configured guest\n"), 64)
	bin := make([]byte, 1<<16)
	for i := range bin {
		bin[i] = byte(i*7 + 1)
	}
	e0 := &hostEnv{id: "E0", dir: "/", args: []string{"--host-argument-E0"},
		env:   []string{"PATH=/usr/bin:/bin", "HOME=/c18-home-E0", "TZ=UTC", "LANG=C", "C18_HOST_SECRET=leak-marker-E0"},
		stdin: mustWrite("stdin-E0", text), what: "minimal environment, cwd=/, 1 extra argument, stdin=4.7 KiB text, TZ=UTC"}
	e1env := []string{"TZ=Asia/Tokyo", "USER=somebody-else", "C18_HOST_SECRET=leak-marker-E1-of-another-length", "LC_ALL=ja_JP.UTF-8"}
	for i := 0; i < 24; i++ {
		e1env = append(e1env, fmt.Sprintf("C18_FILLER_%02d=value-%d", i, i*i))
	}
	e1 := &hostEnv{id: "E1", dir: deep, args: []string{"alpha", "beta", "--seed=7", "gamma delta"}, env: e1env,
		stdin: mustWrite("stdin-E1", nil), what: "28 variables, cwd=deep temp dir, 4 extra arguments, stdin=empty, TZ=Asia/Tokyo"}
	e2 := &hostEnv{id: "E2", dir: cwd, env: append(append([]string{}, os.Environ()...), "TZ=America/New_York", "C18_HOST_SECRET=leak-marker-E2"),
		stdin: mustWrite("stdin-E2", bin), what: "the invoking process's full environment, its cwd, no extra arguments, stdin=64 KiB binary, TZ=America/New_York"}
	envs := []*hostEnv{e0, e1, e2}
	n := runtime.NumCPU()
	for i, e := range envs {
		e.threads = n / len(envs)
		if i < n%len(envs) {
			e.threads++
		}
		if e.threads < 1 {
			e.threads = 1
		}
	}
	return envs
}

type childProc struct {
	env      *hostEnv
	out      string
	cmd      *exec.Cmd
	done     chan error
	started  time.Time
	phase    int
	lastSize int64
	lastMove time.Time
	killed   string // reason
	sum      childSummary
}

func startChild(self, tier, tmp string, e *hostEnv, deadline time.Time, words string) *childProc {
	c := &childProc{env: e, out: filepath.Join(tmp, "out-"+e.id), done: make(chan error, 1)}
	c.cmd = exec.Command(self, append([]string{tier}, e.args...)...)
	c.cmd.Env = nil
	for _, kv := range e.env { // the invoking environment may itself carry our control variables (never trust it)
		if !strings.HasPrefix(kv, "C18_CHILD=") && !strings.HasPrefix(kv, "C18_WORDS=") && !strings.HasPrefix(kv, "GOMAXPROCS=") {
			c.cmd.Env = append(c.cmd.Env, kv)
		}
	}
	c.cmd.Env = append(c.cmd.Env, "C18_CHILD=1", "C18_TIER="+tier, "C18_ENVID="+e.id, "C18_OUT="+c.out,
		"C18_THREADS="+strconv.Itoa(e.threads), "GOMAXPROCS="+strconv.Itoa(e.threads+1), "C18_DEADLINE="+strconv.FormatInt(deadline.Unix(), 10))
	if words != "" {
		c.cmd.Env = append(c.cmd.Env, "C18_WORDS="+words)
	}
	c.cmd.Dir = e.dir
	in, err := os.Open(e.stdin)
	if err != nil {
		die("%v", err)
	}
	so, _ := os.Create(c.out + ".stdout")
	se, _ := os.Create(c.out + ".stderr")
	c.cmd.Stdin, c.cmd.Stdout, c.cmd.Stderr = in, so, se
	if err := c.cmd.Start(); err != nil {
		die("start child %s: %v", e.id, err)
	}
	in.Close()
	so.Close()
	se.Close()
	c.started = time.Now()
	c.lastMove = c.started
	go func() { c.done <- c.cmd.Wait() }()
	return c
}

func captured(c *childProc) (n int64) {
	for _, sfx := range []string{".stdout", ".stderr"} {
		if st, err := os.Stat(c.out + sfx); err == nil {
			n += st.Size()
		}
	}
	return
}

// die is fw.Fatalf after removing the temp dir (harness errors must not leave files in /tmp either).
var tmpRoot string

func die(format string, a ...any) {
	if tmpRoot != "" {
		os.RemoveAll(tmpRoot)
	}
	fw.Fatalf(format, a...)
}

func exists(p string) bool { _, err := os.Stat(p); return err == nil }

// supervise waits for the children, applying the two watchdogs. It returns when all have ended.
func supervise(cs []*childProc) {
	live := len(cs)
	ended := make([]bool, len(cs))
	for live > 0 {
		time.Sleep(100 * time.Millisecond)
		for i, c := range cs {
			if ended[i] {
				continue
			}
			select {
			case <-c.done:
				ended[i] = true
				live--
				continue
			default:
			}
			now := time.Now()
			if c.killed != "" {
				continue
			}
			switch c.phase {
			case 0: // starting up (compiling the guest)
				if exists(c.out + ".probe0") {
					c.phase, c.lastMove = 1, now
				} else if now.Sub(c.started) > stallWatchdog {
					c.killed = "startup"
					c.cmd.Process.Kill()
				}
			case 1: // inside the sleep probe (or, in replay mode, inside the word)
				if exists(c.out + ".probe1") {
					c.phase, c.lastMove = 2, now
				} else if now.Sub(c.lastMove) > probeWatchdog {
					c.killed = "probe"
					c.cmd.Process.Kill()
				}
			case 2: // enumerating: the count of finished words must keep growing
				var size int64
				if b, err := os.ReadFile(c.out + ".hb"); err == nil {
					size, _ = strconv.ParseInt(string(b), 10, 64)
				}
				if captured(c) > maxCapture { // something floods the child's stdout/stderr: settle it now, do not fill the disk
					c.killed = "output"
					c.cmd.Process.Kill()
				} else if size != c.lastSize {
					c.lastSize, c.lastMove = size, now
				} else if now.Sub(c.lastMove) > stallWatchdog {
					c.killed = "stall"
					c.cmd.Process.Kill()
				}
			}
		}
	}
}

// readStuck returns the report a child left when its call watchdog fired (nil otherwise).
func readStuck(c *childProc) *stuckReport {
	b, err := os.ReadFile(c.out + ".stuck")
	if err != nil {
		return nil
	}
	st := &stuckReport{}
	if json.Unmarshal(b, st) != nil {
		die("child %s: unreadable stuck report %q", c.env.id, b)
	}
	return st
}

func readSummary(c *childProc) error {
	b, err := os.ReadFile(c.out + ".json")
	if err != nil {
		return err
	}
	return json.Unmarshal(b, &c.sum)
}

const guestMarker = "C18-GUEST-OUTPUT"

// ---------------------------------------------------------------- parent

type replayCase struct {
	Env  string   `json:"env"`
	Word []string `json:"word"`
	Tier string   `json:"tier"`
}

func sigOf(d *diag) string {
	return fmt.Sprintf("%s:%s-differs-from-default-model:%s", d.Fn, d.Aspect, d.Who)
}

func main() {
	if os.Getenv("C18_CHILD") == "1" {
		childMain()
		return
	}
	if len(os.Args) > 1 && os.Args[1] == "replay" {
		replayMain()
		return
	}
	if len(os.Args) > 2 && os.Args[2] == "try" {
		tryMain(os.Args[3:])
		return
	}
	run := fw.Start("C18", "exploration")
	self, err := os.Executable()
	if err != nil {
		die("%v", err)
	}
	tmp, err := os.MkdirTemp("", "c18-")
	if err != nil {
		die("%v", err)
	}
	tmpRoot = tmp
	code := parentMain(run, self, tmp)
	os.RemoveAll(tmp)
	code()
}

// parentMain returns the function that finishes the run (so that the temp dir is removed first).
func parentMain(run *fw.Run, self, tmp string) func() {
	tuneGC(1 << 30)
	sp := newSpace(run.Tier)
	envs := makeEnvs(tmp)
	var cs []*childProc
	t0 := time.Now()
	for i, e := range envs {
		if i > 0 {
			time.Sleep(time.Until(t0.Add(time.Duration(i) * startStagger)))
		}
		cs = append(cs, startChild(self, run.Tier, tmp, e, run.Deadline, ""))
	}

	// model digests, computed while the children run (a quarter of the cores at most: the children own the rest)
	md := make([]uint64, sp.total)
	var modelWords atomic.Int64
	modelDone := make(chan struct{})
	go func() {
		nchunks := int((sp.total + chunkWords - 1) / chunkWords)
		fw.Parallel(nchunks, 3, func(c int) {
			buf := make([]int, 0, 1100)
			lo, hi := int64(c)*chunkWords, int64(c+1)*chunkWords
			if hi > sp.total {
				hi = sp.total
			}
			var n int64
			for i := lo; i < hi; i++ {
				if w := sp.word(i, buf); w != nil {
					md[i] = digest(modelTrace(sp.alpha, w))
					n++
				}
			}
			modelWords.Add(n)
		})
		close(modelDone)
	}()
	supervise(cs)
	<-modelDone

	outcomes := fw.NewCounter()
	samples := fw.NewSampler(12)
	var evaluations, steps int64
	common := sp.total
	perEnv := map[string]any{}
	for _, c := range cs {
		so, _ := os.ReadFile(c.out + ".stdout")
		se, _ := os.ReadFile(c.out + ".stderr")
		leak := bytes.Contains(so, []byte(guestMarker)) || bytes.Contains(se, []byte(guestMarker))
		if leak {
			which := "stdout"
			if !bytes.Contains(so, []byte(guestMarker)) {
				which = "stderr"
			}
			run.Violation("fd_write:guest-output-reaches-host-"+which,
				fmt.Sprintf("environment %s: bytes written by the default-configured guest to fd 1/2 appeared on the host process's %s (%d bytes captured) instead of being discarded", c.env.id, which, len(so)+len(se)),
				replayCase{c.env.id, []string{"fd_write(1,iov17,R1)", "fd_write(2,iov17+iov64,R1)"}, run.Tier})
			outcomes.Inc("guest-output-on-host-stdio")
		}
		if st := readStuck(c); st != nil {
			run.Violation(st.signature(),
				fmt.Sprintf("environment %s, %s, word %q: call %d (%s) did not return within %.0f s when the host called it with a context of kind %q on a runtime of flavour %q; under default configuration no WASI call may wait in real time (the longest sleep this alphabet asks for is one hour, a call takes microseconds)",
					c.env.id, st.Inst, st.Word, st.Step, st.Letter, st.Seconds, st.Ctx, st.Runtime),
				replayCase{c.env.id, st.Word, run.Tier})
			outcomes.Inc("call-blocked-in-real-time")
			common = 0
			continue
		}
		switch c.killed {
		case "output":
			if !leak {
				die("child %s flooded its stdout/stderr: %s", c.env.id, fw.FirstLines(string(so)+string(se), 6))
			}
			common = 0
			continue
		case "probe":
			run.Violation("poll_oneoff:clock-subscription-sleeps-in-real-time",
				fmt.Sprintf("environment %s: poll_oneoff with a one-hour relative clock subscription did not return within %v under default configuration (the default sleep must return immediately)", c.env.id, probeWatchdog),
				replayCase{c.env.id, []string{"poll_oneoff(clock-1h,OUT2,1,R1)"}, run.Tier})
			outcomes.Inc("hang")
			common = 0
			continue
		case "stall", "startup":
			done := int64(0)
			if st, err := os.Stat(c.out + ".dig"); err == nil {
				done = st.Size() / 8
			}
			at := sp.nextWord(min64(done, sp.total-1))
			run.Violation("hang:no-progress-for-"+stallWatchdog.String(),
				fmt.Sprintf("environment %s: no word finished for %v after index %d (%s); words of the stalled chunk start at %v", c.env.id, stallWatchdog, done, c.killed, sp.names(at)),
				replayCase{c.env.id, sp.names(at), run.Tier})
			outcomes.Inc("hang")
			common = 0
			continue
		}
		if err := readSummary(c); err != nil {
			die("child %s left no summary (%v); stderr: %s", c.env.id, err, fw.FirstLines(string(se), 6))
		}
		if c.sum.Error != "" {
			die("child %s: %s", c.env.id, c.sum.Error)
		}
		if !leak && (len(so) > 0 || len(se) > 0) {
			die("child %s wrote to its stdout/stderr: %s", c.env.id, fw.FirstLines(string(so)+string(se), 6))
		}
		if c.sum.Capped {
			run.Capped("budget")
		}
		if c.sum.Aborted {
			run.Capped("stopped-after-" + strconv.Itoa(maxDiags) + "-deviating-words")
		}
		if c.sum.Done < common {
			common = c.sum.Done
		}
		evaluations += c.sum.Instances
		steps += c.sum.Steps
		for k, v := range c.sum.Outcomes {
			outcomes.AddN(k, v)
		}
		for i := range c.sum.Diags {
			d := &c.sum.Diags[i]
			run.Violation(sigOf(d), fmt.Sprintf("environment %s, %s, word %q: step %d (%s): %s [%s; %d words of this environment deviate from the model]",
				c.env.id, d.Inst, d.Word, d.Step, d.Fn, d.Detail, d.Who, c.sum.BadWords), replayCase{c.env.id, d.Word, run.Tier})
		}
		perEnv[c.env.id] = map[string]any{"what": c.env.what, "threads": c.env.threads, "pid": c.sum.Pid, "start_unix": c.sum.StartUnix,
			"words": c.sum.Words, "instances": c.sum.Instances, "wasi_calls_traced": c.sum.Steps, "words_deviating_from_model": c.sum.BadWords}
	}

	// (iii): one digest per word from every child, against the model's digest and against each other.
	var vsModel, cross int64
	var words int64
	var firstBad int64 = -1
	var distinct int64
	if common > 0 {
		streams := make([][]byte, len(cs))
		for i, c := range cs {
			b, err := os.ReadFile(c.out + ".dig")
			if err != nil || int64(len(b)) < 8*common {
				die("child %s: digest stream short (%d bytes, need %d): %v", c.env.id, len(b), 8*common, err)
			}
			streams[i] = b
		}
		uniq := make([]uint64, 0, common)
		for i := int64(0); i < common; i++ {
			d0 := binary.LittleEndian.Uint64(streams[0][8*i:])
			if md[i] != 0 {
				words++
				uniq = append(uniq, d0)
			}
			for k := range streams {
				dk := binary.LittleEndian.Uint64(streams[k][8*i:])
				if dk != md[i] {
					vsModel++
					if firstBad < 0 {
						firstBad = i
					}
				}
				if dk != d0 {
					cross++
				}
			}
		}
		sort.Slice(uniq, func(i, j int) bool { return uniq[i] < uniq[j] })
		for i := range uniq {
			if i == 0 || uniq[i] != uniq[i-1] {
				distinct++
			}
		}
		if vsModel > 0 && run.Violations() == 0 {
			run.Violation("digest:differs-from-model-without-in-process-diagnosis",
				fmt.Sprintf("%d per-word digests differ from the model digest (first at index %d) although no child diagnosed a deviation", vsModel, firstBad),
				replayCase{"E0", sp.names(sp.nextWord(firstBad)), run.Tier})
		}
		for i := int64(0); i < common; i += common/11 + 1 {
			if w := sp.word(i, nil); w != nil {
				samples.Add(map[string]any{"index": i, "word": sp.names(w), "digest": fmt.Sprintf("%016x", md[i])})
			}
		}
		for _, c := range cs {
			if c.sum.Words != words && c.sum.Done == common {
				die("child %s executed %d words, parent counts %d", c.env.id, c.sum.Words, words)
			}
		}
	}
	if common < sp.total {
		run.Capped("not-all-words-finished")
	}

	fams := []map[string]any{}
	for _, f := range sp.families {
		fams = append(fams, map[string]any{"family": f.name, "letters": len(f.letters), "depth": f.depth, "power": f.power, "pair_repetitions": f.pairs, "prefixes": len(f.prefixes), "host_modes": len(f.host), "indices": f.count})
	}
	om := outcomes.Map()
	return func() {
		run.Finish(fw.Coverage{
			Evaluations: evaluations, DistinctNontriv: words,
			Rule:    "evaluation = one fresh default-configured instance executing one word (every word runs in 3 host environments x 2 engines x 2 simultaneously live instances: A calls the export wrappers from a clean stack, B runs a guest stack dirtier before every call and reaches the import through frameless forwarders; the host passes contexts of all 10 kinds, spread over these 12 instances or fixed by a leading host-mode letter, which may also select a WithCloseOnContextDone runtime); distinct = canonical words of maximal length (letters after proc_exit are not spelled out; every proper prefix is covered by the per-step trace of its extensions); all are non-trivial (each performs >=1 WASI call whose errno and memory window are compared); distinct_traces counts how many of them are observationally different",
			Samples: samples.List(), Exhaustive: true, Outcomes: om,
			Bounds: map[string]any{"wasi_functions": len(wasiFns), "letters": len(sp.alpha) - sp.nHost, "poll_list_letters": sp.nList, "main_letters": sp.nMain, "host_mode_letters": sp.nHost, "host_context_kinds": ctxKindNames[:], "runtime_flavors": rtFlavorNames[:], "families": fams, "indices": sp.total,
				"window_bytes": winSize, "environments": len(cs), "engines": 2, "instances_per_engine": 2, "call_shapes": len(shapeSuffix)},
			Extra: map[string]any{"environments": perEnv, "wasi_calls_traced": steps, "distinct_traces": distinct,
				"digests_compared": common * int64(len(cs)), "digests_differing_from_model": vsModel, "digests_differing_across_processes": cross,
				"model_words": modelWords.Load()},
		}, []string{
			"the model's constants were read from internal/sys/sys.go, internal/sys/stdio.go, internal/platform/time.go and crypto.go; the random stream is math/rand seeded with 42 consumed through (*rand.Rand).Read (Go standard library, trusted)",
			"outcomes the statement does not fix (errno of unsupported operations on stdio descriptors, their reported file type, argument-check order) were calibrated against the unchanged tree; they depend on model state only",
			"\"different wall-clock times\" is exercised only by starting the child processes 1.2 s apart; the kernel clock cannot be faked for a static Go binary",
			"real sleep is detected by a 45 s watchdog inside every child on every single WASI call (every clock subscription of the alphabet requests one hour; a call takes microseconds when the property holds), backed by a 90 s parent-side watchdog on the probes; a child in which no word at all finishes for 120 s is reported as a hang",
			"host contexts: 10 kinds built from the standard library plus one host-written Context; every context stays alive for the whole run except the two kinds that are finished before use, and those two are not combined with WithCloseOnContextDone(true) (the documented result there is a refused call, not a module default)",
			"fd_filestat_set_times on an open stdio descriptor is excluded from the alphabet (see NOTES.md)",
		})
	}
}

func min64(a, b int64) int64 {
	if a < b {
		return a
	}
	return b
}

// ---------------------------------------------------------------- replay

func replayMain() {
	if len(os.Args) < 3 {
		fw.Fatalf("usage: replay <file>")
	}
	b, err := os.ReadFile(os.Args[2])
	if err != nil {
		fw.Fatalf("%v", err)
	}
	var doc struct {
		Signature string     `json:"signature"`
		Replay    replayCase `json:"replay"`
	}
	if err := json.Unmarshal(b, &doc); err != nil {
		fw.Fatalf("%v", err)
	}
	os.Exit(runCase(doc.Signature, doc.Replay))
}

// tryMain: `try <env> <letter>...` executes one word given on the command line (development aid).
func tryMain(args []string) {
	if len(args) < 2 {
		fmt.Println("usage: try <E0|E1|E2> <letter> [<letter>...]   letters:")
		for _, l := range buildAlphabet() {
			if l.Main {
				fmt.Println("  ", l.Name)
			}
		}
		fmt.Println("   poll_oneoff[<0..4 of clkR,clkA,rd0..rd3,wr0..wr3, comma separated>]")
		fmt.Println("   optional first letter: host[ctx=<" + strings.Join(ctxKindNames[:], "|") + ">,runtime=<" + strings.Join(rtFlavorNames[:], "|") + ">]")
		os.Exit(2)
	}
	os.Exit(runCase("(command line)", replayCase{Env: args[0], Word: args[1:], Tier: "quick"}))
}

func runCase(sig string, rc replayCase) int {
	self, _ := os.Executable()
	tmp, err := os.MkdirTemp("", "c18-replay-")
	if err != nil {
		fw.Fatalf("%v", err)
	}
	tmpRoot = tmp
	defer os.RemoveAll(tmp)
	var env *hostEnv
	for _, e := range makeEnvs(tmp) {
		if e.id == rc.Env {
			env = e
		}
	}
	if env == nil {
		fmt.Println("unknown environment", rc.Env)
		return 2
	}
	env.threads = 1
	tier := rc.Tier
	if tier == "" {
		tier = "quick"
	}
	wl, _ := json.Marshal([][]string{rc.Word})
	fmt.Printf("replaying %s in environment %s (%s)\n", sig, env.id, env.what)
	c := startChild(self, tier, tmp, env, time.Now().Add(time.Hour), string(wl))
	supervise([]*childProc{c})
	so, _ := os.ReadFile(c.out + ".stdout")
	se, _ := os.ReadFile(c.out + ".stderr")
	fail := false
	if st := readStuck(c); st != nil {
		fmt.Printf("%s: call %d (%s) did not return within %.0f s (host context %s, runtime %s)\nRESULT: still fails (%s)\n", st.Inst, st.Step, st.Letter, st.Seconds, st.Ctx, st.Runtime, st.signature())
		return 1
	}
	if c.killed != "" {
		fmt.Printf("the word did not finish within %v (killed: %s)\n", probeWatchdog, c.killed)
		return 1
	}
	if bytes.Contains(so, []byte(guestMarker)) || bytes.Contains(se, []byte(guestMarker)) {
		fmt.Printf("guest output reached the host: stdout=%q stderr=%q\n", so, se)
		fail = true
	}
	if err := readSummary(c); err != nil {
		fmt.Printf("child left no summary: %v; stderr: %s\n", err, se)
		return 2
	}
	if c.sum.Error != "" {
		fmt.Println("harness error in child:", c.sum.Error)
		return 2
	}
	for _, l := range c.sum.Explain {
		fmt.Println(l)
	}
	if len(c.sum.Diags) > 0 {
		fail = true
	}
	if fail {
		fmt.Println("RESULT: still fails")
		return 1
	}
	fmt.Println("RESULT: trace equals the model in all four instances")
	return 0
}
