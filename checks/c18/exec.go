package main

import (
	"context"
	"crypto/sha256"
	"encoding/binary"
	"errors"
	"fmt"
	"strings"

	"github.com/tetratelabs/wazero"
	"github.com/tetratelabs/wazero/api"
	"github.com/tetratelabs/wazero/imports/wasi_snapshot_preview1"
	wsys "github.com/tetratelabs/wazero/sys"
)

// ---------------------------------------------------------------- the space of words

// family: all words of exactly `depth` letters over the sub-alphabet `letters` (indices into the full
// alphabet); or — when power > 0 — the words l^power for each letter l; or — when pairs > 0 — the
// words (l1 l2)^pairs for each ordered pair of letters.
type family struct {
	name     string
	letters  []int
	depth    int
	power    int
	pairs    int
	prefixes []int // with power > 0: index / len(letters) selects no prefix (0) or prefixes[k-1]
	host     []int // host-mode families: every word starts with one of these host-mode letters (index / words-per-mode)
	count    int64
	exits    map[int]bool // sub-alphabet positions of proc_exit letters
}

type space struct {
	nMain    int
	nList    int
	nHost    int
	alpha    []letter
	families []family
	total    int64
}

func newSpace(tier string) *space {
	s := &space{alpha: buildAlphabet()}
	var all, core []int
	var lists, prefixes, hosts, single []int
	for i, l := range s.alpha {
		if l.Host {
			hosts = append(hosts, i)
		}
		if l.Main || l.List {
			single = append(single, i)
		}
		if l.Main {
			all = append(all, i)
		}
		if l.Core {
			core = append(core, i)
		}
		if l.List {
			lists = append(lists, i)
		}
		if l.Name == "fd_close(0)" || l.Name == "fd_close(1)" {
			prefixes = append(prefixes, i)
		}
	}
	addWords := func(name string, letters []int, depth int) {
		f := family{name: name, letters: letters, depth: depth, count: 1, exits: map[int]bool{}}
		for p, li := range letters {
			if s.alpha[li].Fn == "proc_exit" {
				f.exits[p] = true
			}
		}
		for i := 0; i < depth; i++ {
			f.count *= int64(len(letters))
		}
		s.families = append(s.families, f)
	}
	nc := int64(len(core))
	if tier == "thorough" {
		addWords("all-letters^3", all, 3)
		addWords("core-letters^4", core, 4)
		s.families = append(s.families, family{name: "letter^512", letters: all, power: 512, count: int64(len(all))})
		s.families = append(s.families, family{name: "(core-letter core-letter)^64", letters: core, pairs: 64, count: nc * nc})
	} else {
		addWords("all-letters^3", all, 3)
		s.families = append(s.families, family{name: "letter^64", letters: all, power: 64, count: int64(len(all))})
		s.families = append(s.families, family{name: "(core-letter core-letter)^16", letters: core, pairs: 16, count: nc * nc})
	}
	s.nMain, s.nList = len(all), len(lists)
	// poll-list family (both tiers): [nothing | fd_close(0) | fd_close(1)] followed by the list letter x6.
	s.families = append(s.families, family{name: "[-|fd_close(0)|fd_close(1)] poll-list-letter^6", letters: lists, prefixes: prefixes, power: 6,
		count: int64(len(lists)) * int64(1+len(prefixes))})
	// host-mode families (both tiers): host-mode letter, then every main / poll-list letter twice; host-mode
	// letter, then every ordered pair of core (thorough: main) letters.
	s.nHost = len(hosts)
	nh := int64(len(hosts))
	s.families = append(s.families, family{name: "host-mode (main-or-poll-list-letter)^2", letters: single, host: hosts, power: 2, count: nh * int64(len(single))})
	if tier == "thorough" {
		s.families = append(s.families, family{name: "host-mode main-letter main-letter", letters: all, host: hosts, depth: 2, count: nh * int64(len(all)) * int64(len(all))})
	} else {
		s.families = append(s.families, family{name: "host-mode core-letter core-letter", letters: core, host: hosts, depth: 2, count: nh * nc * nc})
	}
	for _, f := range s.families {
		s.total += f.count
	}
	return s
}

// word decodes index i. It returns nil for an index that is a non-canonical spelling of a shorter word
// (letters after a proc_exit are never executed: only the spelling padded with letter 0 is kept, cut
// after the proc_exit).
func (s *space) word(i int64, buf []int) []int {
	for fi := range s.families {
		f := &s.families[fi]
		if i >= f.count {
			i -= f.count
			continue
		}
		buf = buf[:0]
		if len(f.host) > 0 {
			n := int64(len(f.letters))
			per := n
			if f.depth == 2 {
				per = n * n
			}
			buf = append(buf, f.host[i/per])
			r := i % per
			if f.depth == 2 {
				a, b := f.letters[r/n], f.letters[r%n]
				buf = append(buf, a)
				if s.alpha[a].Fn == "proc_exit" { // the second letter is never executed: keep one spelling
					if r%n != 0 {
						return nil
					}
					return buf
				}
				return append(buf, b)
			}
			for k := 0; k < f.power; k++ {
				buf = append(buf, f.letters[r])
			}
			return buf
		}
		if f.power > 0 {
			n := int64(len(f.letters))
			if pk := i / n; pk > 0 {
				buf = append(buf, f.prefixes[pk-1])
			}
			for k := 0; k < f.power; k++ {
				buf = append(buf, f.letters[i%n])
			}
			return buf
		}
		if f.pairs > 0 {
			n := int64(len(f.letters))
			for k := 0; k < f.pairs; k++ {
				buf = append(buf, f.letters[i/n], f.letters[i%n])
			}
			return buf
		}
		n := int64(len(f.letters))
		digits := make([]int, f.depth)
		for p := f.depth - 1; p >= 0; p-- {
			digits[p] = int(i % n)
			i /= n
		}
		for p, d := range digits {
			buf = append(buf, f.letters[d])
			if f.exits[d] && p < f.depth-1 {
				for _, r := range digits[p+1:] {
					if r != 0 {
						return nil
					}
				}
				return buf
			}
		}
		return buf
	}
	panic("word index out of range")
}

// nextWord returns the first executed word at or after index i.
func (s *space) nextWord(i int64) []int {
	for ; i < s.total; i++ {
		if w := s.word(i, nil); w != nil {
			return w
		}
	}
	return s.word(0, nil)
}

func (s *space) names(w []int) []string {
	o := make([]string, len(w))
	for i, li := range w {
		o[i] = s.alpha[li].Name
	}
	return o
}

func (s *space) byNames(names []string) ([]int, error) {
	var w []int
outer:
	for _, n := range names {
		for i := range s.alpha {
			if s.alpha[i].Name == n {
				w = append(w, i)
				continue outer
			}
		}
		return nil, fmt.Errorf("unknown letter %q", n)
	}
	return w, nil
}

func digest(trace []byte) uint64 {
	h := sha256.Sum256(trace)
	d := binary.LittleEndian.Uint64(h[:8])
	if d == 0 {
		d = 1 // 0 is reserved for "index skipped"
	}
	return d
}

// ---------------------------------------------------------------- running a word on the real code

var engineNames = [2]string{"compiler", "interpreter"}
var instNames = [4]string{"compiler/A", "compiler/B", "interpreter/A", "interpreter/B"}

type worker struct {
	// shapeB selects how instance B of every engine reaches the WASI imports (instance A is always
	// direct): shapeFF, shapeA5, or -1 = alternate FF/A5 from call to call.
	shapeB int
	env    int // index of the host environment (selects the context kinds of words without a host-mode letter)
	ctx    context.Context
	ctxs   [nCtxKinds]context.Context // one long-lived context per kind (hostmode.go)
	unctx  func()
	rts    [nRTFlavors][2]wazero.Runtime
	codes  [nRTFlavors][2]wazero.CompiledModule
	alpha  []letter
	slot   callSlot // the call in flight, for the child's call watchdog
}

func newWorker(alpha []letter, guest []byte, envID string) (*worker, error) {
	w := &worker{ctx: context.Background(), alpha: alpha, shapeB: shapeModeOf(envID), env: envIndexOf(envID)}
	w.ctxs, w.unctx = makeContexts()
	for f := 0; f < nRTFlavors; f++ {
		for e, cfg := range []wazero.RuntimeConfig{wazero.NewRuntimeConfigCompiler(), wazero.NewRuntimeConfigInterpreter()} {
			if f == rtCloseOnDone {
				cfg = cfg.WithCloseOnContextDone(true)
			}
			rt := wazero.NewRuntimeWithConfig(w.ctx, cfg)
			if _, err := wasi_snapshot_preview1.Instantiate(w.ctx, rt); err != nil {
				return nil, fmt.Errorf("wasi (%s, runtime %s): %v", engineNames[e], rtFlavorNames[f], err)
			}
			code, err := rt.CompileModule(w.ctx, guest)
			if err != nil {
				return nil, fmt.Errorf("guest rejected (%s, runtime %s): %v", engineNames[e], rtFlavorNames[f], err)
			}
			w.rts[f][e], w.codes[f][e] = rt, code
		}
	}
	return w, nil
}

func (w *worker) close() {
	for _, rts := range w.rts {
		for _, rt := range rts {
			rt.Close(w.ctx)
		}
	}
	w.unctx()
}

type inst struct {
	mod  api.Module
	mem  api.Memory
	done bool
	tr   []byte
}

// runWord executes the word in four fresh instances — two per engine, the two of one engine alive at
// the same time, created from one wazero.NewModuleConfig() value and stepped alternately. Instance A
// calls the export wrappers directly, instance B goes through the hostile-stack shapes (alphabet.go).
// It returns the four traces in instNames order.
//
// The host side (hostmode.go): the runtime flavour is the host-mode letter's (default without one); the
// context handed to InstantiateModule and to every Call is of kind ctxKindAt(host letter, environment,
// instance, step).
func (w *worker) runWord(word []int) (out [4][]byte, err error) {
	host, calls := hostOf(w.alpha, word)
	rt := rtDefault
	if host != nil {
		rt = host.HostRT
	}
	for e := 0; e < 2; e++ {
		var is [2]*inst
		cfg := wazero.NewModuleConfig() // A and B are created from the SAME configuration value
		for k := 0; k < 2; k++ {
			kind := ctxKindAt(host, w.env, 2*e+k, 0)
			mod, ierr := w.rts[rt][e].InstantiateModule(w.ctxs[kind], w.codes[rt][e], cfg)
			if ierr != nil {
				return out, fmt.Errorf("instantiate (%s, runtime %s, host context %s): %v", engineNames[e], rtFlavorNames[rt], ctxKindNames[kind], ierr)
			}
			is[k] = &inst{mod: mod, mem: mod.Memory(), tr: make([]byte, 0, len(calls)*(5+winSize))}
		}
		for j, li := range calls {
			for k := 0; k < 2; k++ {
				if !is[k].done {
					kind := ctxKindAt(host, w.env, 2*e+k, j)
					w.slot.enter(word, j, 2*e+k, kind, rt)
					w.stepInst(is[k], &w.alpha[li], w.shapeOf(k, j), w.ctxs[kind])
					w.slot.leave()
				}
			}
		}
		for k := 0; k < 2; k++ {
			is[k].mod.Close(w.ctx)
			out[2*e+k] = is[k].tr
		}
	}
	return out, nil
}

// shapeOf: call shape of instance k (0 = A, 1 = B) at step j.
func (w *worker) shapeOf(k, j int) int {
	switch {
	case k == 0:
		return shapeDirect
	case w.shapeB >= 0:
		return w.shapeB
	case j%2 == 0:
		return shapeFF
	}
	return shapeA5
}

// shapeModeOf: E0 -> B always 0xFF.., E1 -> B always 0xA5.., E2 (and anything else) -> alternating.
func shapeModeOf(envID string) int {
	switch envID {
	case "E0":
		return shapeFF
	case "E1":
		return shapeA5
	}
	return -1
}

func (w *worker) describeShapes() string {
	switch w.shapeB {
	case shapeFF, shapeA5:
		return "instance A: " + shapeLabel[shapeDirect] + "; instance B: " + shapeLabel[w.shapeB]
	}
	return "instance A: " + shapeLabel[shapeDirect] + "; instance B: alternately " + shapeLabel[shapeFF] + " / " + shapeLabel[shapeA5]
}

func (w *worker) stepInst(in *inst, l *letter, shape int, ctx context.Context) {
	if l.Setup != nil && !in.mem.Write(pSubList, l.Setup) { // the subscription array the guest "has built" for this call
		panic("window not writable")
	}
	res, err := in.mod.ExportedFunction(l.Fn+shapeSuffix[shape]).Call(ctx, l.Args...)
	kind, val, extra := byte(kindRet), uint32(0), ""
	var ee *wsys.ExitError
	switch {
	case err == nil && len(res) == 1:
		val = uint32(res[0])
	case err == nil:
		kind, extra = kindTrap, fmt.Sprintf("returned %d results without exiting", len(res))
	case errors.As(err, &ee):
		kind, val = kindExit, ee.ExitCode()
	default:
		kind, extra = kindTrap, firstLine(err.Error())
	}
	in.tr = append(in.tr, kind, byte(val), byte(val>>8), byte(val>>16), byte(val>>24))
	win, ok := in.mem.Read(0, winSize)
	if !ok {
		kind, extra = kindTrap, extra+" [window unreadable]"
		in.tr[len(in.tr)-5] = kind
		win = make([]byte, winSize)
	}
	in.tr = append(in.tr, win...)
	if kind != kindRet {
		in.done = true
		in.tr = append(in.tr, extra...)
	}
}

func firstLine(s string) string {
	if i := strings.IndexByte(s, '\n'); i >= 0 {
		s = s[:i]
	}
	return s
}

// ---------------------------------------------------------------- comparing a trace with the model

var regions = []struct {
	name     string
	from, to int
}{
	{"R1", pR1, pR2}, {"R2", pR2, pOUT}, {"OUT", pOUT, pOUT + 64}, {"guard", pOUT + 64, pOUT2}, {"OUT2", pOUT2, pOUT2 + 64},
	{"guard", pOUT2 + 64, pIovR8}, {"iovecs", pIovR8, pPathA}, {"paths", pPathA, pSubClk}, {"subscriptions", pSubClk, pMsg}, {"messages", pMsg, pSubList},
	{"sublist", pSubList, pEvList}, {"evlist", pEvList, winSize},
}

func regionOf(off int) string {
	for _, r := range regions {
		if off >= r.from && off < r.to {
			return fmt.Sprintf("%s+%d", r.name, off-r.from)
		}
	}
	return fmt.Sprint(off)
}

type stepDiff struct {
	Step   int    `json:"step"`
	Fn     string `json:"fn"`
	Aspect string `json:"aspect"` // "outcome" | "errno" | "output" | "length"
	Detail string `json:"detail"`
}

func outcomeString(kind byte, val uint32) string {
	switch kind {
	case kindRet:
		return fmt.Sprintf("errno=%d", val)
	case kindExit:
		return fmt.Sprintf("exit(%d)", val)
	}
	return "trap"
}

// firstDiff finds the first step at which got deviates from want (the model trace).
func firstDiff(alpha []letter, word []int, got, want []byte) *stepDiff {
	const rec = 5 + winSize
	_, word = hostOf(alpha, word) // steps count calls
	for k := 0; ; k++ {
		g0, w0 := k*rec, k*rec
		gEnd, wEnd := g0 >= len(got), w0 >= len(want)
		if gEnd && wEnd {
			return nil
		}
		fn := "?"
		if k < len(word) {
			fn = alpha[word[k]].Fn
		}
		if gEnd != wEnd || len(got) < g0+rec || len(want) < w0+rec {
			return &stepDiff{k, fn, "length", fmt.Sprintf("trace has %d bytes, model predicts %d", len(got), len(want))}
		}
		gk, gv := got[g0], binary.LittleEndian.Uint32(got[g0+1:])
		wk, wv := want[w0], binary.LittleEndian.Uint32(want[w0+1:])
		if gk != wk {
			d := fmt.Sprintf("got %s, model predicts %s", outcomeString(gk, gv), outcomeString(wk, wv))
			if gk == kindTrap {
				d += ": " + string(got[g0+rec:])
			}
			return &stepDiff{k, fn, "outcome", d}
		}
		if gv != wv {
			asp := "errno"
			if gk == kindExit {
				asp = "outcome"
			}
			return &stepDiff{k, fn, asp, fmt.Sprintf("got %s, model predicts %s", outcomeString(gk, gv), outcomeString(wk, wv))}
		}
		gw, ww := got[g0+5:g0+rec], want[w0+5:w0+rec]
		for i := 0; i < winSize; i++ {
			if gw[i] != ww[i] {
				j := i
				for j < winSize && j < i+16 {
					j++
				}
				return &stepDiff{k, fn, "output", fmt.Sprintf("window differs from %s: got %x, model predicts %x", regionOf(i), gw[i:j], ww[i:j])}
			}
		}
		if gk != kindRet {
			return nil
		}
	}
}
