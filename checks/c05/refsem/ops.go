package refsem

import "fmt"

// VT is a WebAssembly value type.
type VT uint8

const (
	I32 VT = iota
	I64
	F32
	F64
	V128
)

func (t VT) String() string { return [...]string{"i32", "i64", "f32", "f64", "v128"}[t] }

// Bytes is the storage size of the type.
func (t VT) Bytes() int { return [...]int{4, 8, 4, 8, 16}[t] }

// Shape tells the enumerator how to read an operand: the lane kind whose boundary
// alphabet is relevant (it has no influence on the semantics).
type Shape uint8

const (
	SI8 Shape = iota
	SI16
	SI32
	SI64
	SF32
	SF64
	SCount // scalar i32 shift count for a vector shift
	SCond  // select condition
	SNone
)

func (s Shape) Bits() uint { return [...]uint{8, 16, 32, 64, 32, 64, 32, 32, 0}[s] }

// Op is one numeric instruction (with its immediates, if any).
type Op struct {
	Name    string
	Enc     []byte // complete instruction encoding
	Pre     []byte // instructions placed before the operands (only used by composite consumer forms built by the harness)
	In      []VT
	Out     VT
	Shapes  [3]Shape
	OutF    *Format // non-nil when the result consists of floating point lanes (NaN classes apply)
	Partial bool    // may trap
	Eval    func(a, b, c V) Res
}

func uleb(v uint32) []byte {
	var b []byte
	for {
		c := byte(v & 0x7f)
		v >>= 7
		if v != 0 {
			b = append(b, c|0x80)
		} else {
			return append(b, c)
		}
	}
}

func simd(sub uint32, imm ...byte) []byte {
	return append(append([]byte{0xfd}, uleb(sub)...), imm...)
}

func itype(w uint) VT {
	if w == 32 {
		return I32
	}
	return I64
}
func ishape(w uint) Shape {
	switch w {
	case 8:
		return SI8
	case 16:
		return SI16
	case 32:
		return SI32
	}
	return SI64
}
func ftype(f Format) VT {
	if f == B32 {
		return F32
	}
	return F64
}
func fshape(f Format) Shape {
	if f == B32 {
		return SF32
	}
	return SF64
}
func fptr(f Format) *Format {
	if f == B32 {
		return &B32
	}
	return &B64
}

// Ops returns every numeric instruction covered by the reference.
func Ops() []*Op {
	var ops []*Op
	add := func(o *Op) { ops = append(ops, o) }

	// ------------------------------------------------------------------ scalar integers
	for _, w := range []uint{32, 64} {
		w := w
		t, sh := itype(w), ishape(w)
		p := fmt.Sprintf("i%d.", w)
		base := byte(0x45)
		if w == 64 {
			base = 0x50
		}
		add(&Op{Name: p + "eqz", Enc: []byte{base}, In: []VT{t}, Out: I32, Shapes: [3]Shape{sh},
			Eval: func(a, _, _ V) Res { return rv(IEqz(w, a.Lo)) }})
		for i, c := range []struct {
			n string
			f func(uint, uint64, uint64) uint64
		}{{"eq", IEq}, {"ne", INe}, {"lt_s", ILtS}, {"lt_u", ILtU}, {"gt_s", IGtS}, {"gt_u", IGtU}, {"le_s", ILeS}, {"le_u", ILeU}, {"ge_s", IGeS}, {"ge_u", IGeU}} {
			c := c
			add(&Op{Name: p + c.n, Enc: []byte{base + 1 + byte(i)}, In: []VT{t, t}, Out: I32, Shapes: [3]Shape{sh, sh},
				Eval: func(a, b, _ V) Res { return rv(c.f(w, a.Lo, b.Lo)) }})
		}
		base = 0x67
		if w == 64 {
			base = 0x79
		}
		for i, c := range []struct {
			n string
			f func(uint, uint64) uint64
		}{{"clz", IClz}, {"ctz", ICtz}, {"popcnt", IPopcnt}} {
			c := c
			add(&Op{Name: p + c.n, Enc: []byte{base + byte(i)}, In: []VT{t}, Out: t, Shapes: [3]Shape{sh},
				Eval: func(a, _, _ V) Res { return rv(c.f(w, a.Lo)) }})
		}
		base += 3
		tot := func(f func(uint, uint64, uint64) uint64) func(uint, uint64, uint64) (uint64, Trap) {
			return func(w uint, a, b uint64) (uint64, Trap) { return f(w, a, b), TrapNone }
		}
		for i, c := range []struct {
			n       string
			f       func(uint, uint64, uint64) (uint64, Trap)
			partial bool
		}{{"add", tot(IAdd), false}, {"sub", tot(ISub), false}, {"mul", tot(IMul), false},
			{"div_s", IDivS, true}, {"div_u", IDivU, true}, {"rem_s", IRemS, true}, {"rem_u", IRemU, true},
			{"and", tot(IAnd), false}, {"or", tot(IOr), false}, {"xor", tot(IXor), false},
			{"shl", tot(IShl), false}, {"shr_s", tot(IShrS), false}, {"shr_u", tot(IShrU), false},
			{"rotl", tot(IRotl), false}, {"rotr", tot(IRotr), false}} {
			c := c
			add(&Op{Name: p + c.n, Enc: []byte{base + byte(i)}, In: []VT{t, t}, Out: t, Shapes: [3]Shape{sh, sh}, Partial: c.partial,
				Eval: func(a, b, _ V) Res { return rt(c.f(w, a.Lo, b.Lo)) }})
		}
	}

	// ------------------------------------------------------------------ scalar floats
	for _, f := range []Format{B32, B64} {
		f := f
		t, sh := ftype(f), fshape(f)
		p := fmt.Sprintf("f%d.", f.W())
		base := byte(0x5b)
		if f == B64 {
			base = 0x61
		}
		for i, c := range []struct {
			n string
			f func(a, b uint64) uint64
		}{{"eq", f.Eq}, {"ne", f.Ne}, {"lt", f.Lt}, {"gt", f.Gt}, {"le", f.Le}, {"ge", f.Ge}} {
			c := c
			add(&Op{Name: p + c.n, Enc: []byte{base + byte(i)}, In: []VT{t, t}, Out: I32, Shapes: [3]Shape{sh, sh},
				Eval: func(a, b, _ V) Res { return rv(c.f(a.Lo, b.Lo)) }})
		}
		base = 0x8b
		if f == B64 {
			base = 0x99
		}
		ex := func(g func(uint64) uint64) func(uint64) (uint64, NaNClass) {
			return func(a uint64) (uint64, NaNClass) { return g(a), NotNaN }
		}
		for i, c := range []struct {
			n string
			f func(a uint64) (uint64, NaNClass)
		}{{"abs", ex(f.Abs)}, {"neg", ex(f.Neg)}, {"ceil", f.Ceil}, {"floor", f.Floor}, {"trunc", f.Trunc}, {"nearest", f.Nearest}, {"sqrt", f.Sqrt}} {
			c := c
			add(&Op{Name: p + c.n, Enc: []byte{base + byte(i)}, In: []VT{t}, Out: t, Shapes: [3]Shape{sh}, OutF: fptr(f),
				Eval: func(a, _, _ V) Res { return rf(c.f(a.Lo)) }})
		}
		base += 7
		for i, c := range []struct {
			n string
			f func(a, b uint64) (uint64, NaNClass)
		}{{"add", f.Add}, {"sub", f.Sub}, {"mul", f.Mul}, {"div", f.Div}, {"min", f.Min}, {"max", f.Max},
			{"copysign", func(a, b uint64) (uint64, NaNClass) { return f.Copysign(a, b), NotNaN }}} {
			c := c
			add(&Op{Name: p + c.n, Enc: []byte{base + byte(i)}, In: []VT{t, t}, Out: t, Shapes: [3]Shape{sh, sh}, OutF: fptr(f),
				Eval: func(a, b, _ V) Res { return rf(c.f(a.Lo, b.Lo)) }})
		}
	}

	// ------------------------------------------------------------------ conversions
	un := func(name string, enc []byte, in, out VT, ish Shape, outF *Format, partial bool, f func(a uint64) Res) {
		add(&Op{Name: name, Enc: enc, In: []VT{in}, Out: out, Shapes: [3]Shape{ish}, OutF: outF, Partial: partial,
			Eval: func(a, _, _ V) Res { return f(a.Lo) }})
	}
	un("i32.wrap_i64", []byte{0xa7}, I64, I32, SI64, nil, false, func(a uint64) Res { return rv(a & Mask(32)) })
	type tr struct {
		f      Format
		w      uint
		signed bool
	}
	truncs := []tr{{B32, 32, true}, {B32, 32, false}, {B64, 32, true}, {B64, 32, false}, {B32, 64, true}, {B32, 64, false}, {B64, 64, true}, {B64, 64, false}}
	su := func(s bool) string {
		if s {
			return "s"
		}
		return "u"
	}
	for i, c := range truncs {
		c := c
		enc := byte(0xa8 + i)
		if i >= 4 {
			enc = byte(0xae + i - 4)
		}
		un(fmt.Sprintf("i%d.trunc_f%d_%s", c.w, c.f.W(), su(c.signed)), []byte{enc}, ftype(c.f), itype(c.w), fshape(c.f), nil, true,
			func(a uint64) Res { return rt(c.f.TruncToInt(a, c.w, c.signed)) })
		un(fmt.Sprintf("i%d.trunc_sat_f%d_%s", c.w, c.f.W(), su(c.signed)), []byte{0xfc, byte(i)}, ftype(c.f), itype(c.w), fshape(c.f), nil, false,
			func(a uint64) Res { return rv(c.f.TruncSatToInt(a, c.w, c.signed)) })
	}
	un("i64.extend_i32_s", []byte{0xac}, I32, I64, SI32, nil, false, func(a uint64) Res { return rv(IExtendS(32, 64, a)) })
	un("i64.extend_i32_u", []byte{0xad}, I32, I64, SI32, nil, false, func(a uint64) Res { return rv(IExtendU(32, 64, a)) })
	for i, c := range []tr{{B32, 32, true}, {B32, 32, false}, {B32, 64, true}, {B32, 64, false}} {
		c := c
		un(fmt.Sprintf("f32.convert_i%d_%s", c.w, su(c.signed)), []byte{byte(0xb2 + i)}, itype(c.w), F32, ishape(c.w), &B32, false,
			func(a uint64) Res { return rv(B32.ConvertInt(a, c.w, c.signed)) })
		un(fmt.Sprintf("f64.convert_i%d_%s", c.w, su(c.signed)), []byte{byte(0xb7 + i)}, itype(c.w), F64, ishape(c.w), &B64, false,
			func(a uint64) Res { return rv(B64.ConvertInt(a, c.w, c.signed)) })
	}
	un("f32.demote_f64", []byte{0xb6}, F64, F32, SF64, &B32, false, func(a uint64) Res { return rf(B32.Convert(B64, a)) })
	un("f64.promote_f32", []byte{0xbb}, F32, F64, SF32, &B64, false, func(a uint64) Res { return rf(B64.Convert(B32, a)) })
	un("i32.reinterpret_f32", []byte{0xbc}, F32, I32, SF32, nil, false, func(a uint64) Res { return rv(a & Mask(32)) })
	un("i64.reinterpret_f64", []byte{0xbd}, F64, I64, SF64, nil, false, func(a uint64) Res { return rv(a) })
	un("f32.reinterpret_i32", []byte{0xbe}, I32, F32, SF32, &B32, false, func(a uint64) Res { return rv(a & Mask(32)) })
	un("f64.reinterpret_i64", []byte{0xbf}, I64, F64, SF64, &B64, false, func(a uint64) Res { return rv(a) })
	un("i32.extend8_s", []byte{0xc0}, I32, I32, SI32, nil, false, func(a uint64) Res { return rv(IExtendS(8, 32, a)) })
	un("i32.extend16_s", []byte{0xc1}, I32, I32, SI32, nil, false, func(a uint64) Res { return rv(IExtendS(16, 32, a)) })
	un("i64.extend8_s", []byte{0xc2}, I64, I64, SI64, nil, false, func(a uint64) Res { return rv(IExtendS(8, 64, a)) })
	un("i64.extend16_s", []byte{0xc3}, I64, I64, SI64, nil, false, func(a uint64) Res { return rv(IExtendS(16, 64, a)) })
	un("i64.extend32_s", []byte{0xc4}, I64, I64, SI64, nil, false, func(a uint64) Res { return rv(IExtendS(32, 64, a)) })

	// ------------------------------------------------------------------ value moves that must be bit exact
	// select (untyped 0x1b for numeric and vector operands) and the identity (exercised through
	// parameter passing, constants and load/store in the respective operand forms).
	for _, c := range []struct {
		t  VT
		sh Shape
		f  *Format
	}{{I32, SI32, nil}, {I64, SI64, nil}, {F32, SF32, &B32}, {F64, SF64, &B64}, {V128, SF32, nil}} {
		add(&Op{Name: c.t.String() + ".select", Enc: []byte{0x1b}, In: []VT{c.t, c.t, I32}, Out: c.t, Shapes: [3]Shape{c.sh, c.sh, SCond}, OutF: c.f,
			Eval: func(a, b, cnd V) Res {
				if cnd.Lo&Mask(32) != 0 {
					return Res{V: a}
				}
				return Res{V: b}
			}})
		add(&Op{Name: c.t.String() + ".move", Enc: nil, In: []VT{c.t}, Out: c.t, Shapes: [3]Shape{c.sh}, OutF: c.f,
			Eval: func(a, _, _ V) Res { return Res{V: a} }})
	}

	ops = append(ops, vectorOps()...)
	return ops
}

// ShuffleMasks is the finite set of i8x16.shuffle immediates that is enumerated.
func ShuffleMasks() [][16]byte {
	var ms [][16]byte
	gen := func(f func(i int) int) {
		var m [16]byte
		for i := range m {
			m[i] = byte(f(i) & 31)
		}
		ms = append(ms, m)
	}
	gen(func(i int) int { return i })
	gen(func(i int) int { return 16 + i })
	gen(func(i int) int { return 15 - i })
	gen(func(i int) int { return 31 - i })
	for _, k := range []int{0, 7, 15, 16, 31} {
		k := k
		gen(func(i int) int { return k })
	}
	gen(func(i int) int { return i/2 + 16*(i%2) })                // interleave low bytes
	gen(func(i int) int { return 8 + i/2 + 16*(i%2) })            // interleave high bytes
	gen(func(i int) int { return (i/4)*2 + i%2 + 16*((i/2)%2) })   // interleave low 16-bit
	gen(func(i int) int { return 8 + (i/4)*2 + i%2 + 16*((i/2)%2) })
	gen(func(i int) int { return (i/8)*4 + i%4 + 16*((i/4)%2) })   // interleave low 32-bit
	gen(func(i int) int { return 8 + (i/8)*4 + i%4 + 16*((i/4)%2) })
	gen(func(i int) int { return i%8 + 16*(i/8) })                 // low halves
	gen(func(i int) int { return 8 + i%8 + 16*(i/8) })             // high halves
	gen(func(i int) int { return 2 * i })                          // even bytes
	gen(func(i int) int { return 2*i + 1 })                        // odd bytes
	for _, k := range []int{1, 4, 8, 12, 15, 17, 24} {             // byte rotations across both operands
		k := k
		gen(func(i int) int { return i + k })
	}
	gen(func(i int) int { return (i + 8) % 16 }) // swap halves of a
	gen(func(i int) int { return i*5 + 3 })
	gen(func(i int) int { return i*7 + 1 })
	gen(func(i int) int { return i*11 + 30 })
	gen(func(i int) int { return i*13 + 16 })
	gen(func(i int) int { return (i % 4) * 9 })
	gen(func(i int) int { return i ^ 21 })
	return ms
}

func vectorOps() []*Op {
	var ops []*Op
	add := func(o *Op) { ops = append(ops, o) }
	shN := func(sh Shape) string {
		switch sh {
		case SI8:
			return "i8x16"
		case SI16:
			return "i16x8"
		case SI32:
			return "i32x4"
		case SI64:
			return "i64x2"
		case SF32:
			return "f32x4"
		}
		return "f64x2"
	}
	allOnes := func(w uint, b uint64) uint64 {
		if b != 0 {
			return Mask(w)
		}
		return 0
	}

	// shuffle, swizzle, splat
	for _, m := range ShuffleMasks() {
		m := m
		add(&Op{Name: fmt.Sprintf("i8x16.shuffle/%x", m[:]), Enc: simd(0x0d, m[:]...), In: []VT{V128, V128}, Out: V128, Shapes: [3]Shape{SI8, SI8},
			Eval: func(a, b, _ V) Res {
				var r V
				for i := 0; i < 16; i++ {
					k := int(m[i])
					if k < 16 {
						r.SetLane(8, i, a.Byte(k))
					} else {
						r.SetLane(8, i, b.Byte(k-16))
					}
				}
				return Res{V: r}
			}})
	}
	add(&Op{Name: "i8x16.swizzle", Enc: simd(0x0e), In: []VT{V128, V128}, Out: V128, Shapes: [3]Shape{SI8, SI8},
		Eval: func(a, b, _ V) Res {
			var r V
			for i := 0; i < 16; i++ {
				k := b.Byte(i)
				if k < 16 {
					r.SetLane(8, i, a.Byte(int(k)))
				}
			}
			return Res{V: r}
		}})
	for i, c := range []struct {
		sh Shape
		t  VT
	}{{SI8, I32}, {SI16, I32}, {SI32, I32}, {SI64, I64}, {SF32, F32}, {SF64, F64}} {
		c := c
		w := c.sh.Bits()
		ssh := c.sh
		if c.sh == SI8 || c.sh == SI16 {
			ssh = SI32 // the scalar operand is an i32 whose upper bits must be ignored
		}
		add(&Op{Name: shN(c.sh) + ".splat", Enc: simd(uint32(0x0f + i)), In: []VT{c.t}, Out: V128, Shapes: [3]Shape{ssh},
			Eval: func(a, _, _ V) Res {
				var r V
				for l := 0; l < int(128/w); l++ {
					r.SetLane(w, l, a.Lo)
				}
				return Res{V: r}
			}})
	}
	// extract / replace lane
	type lk struct {
		sh      Shape
		t       VT
		ext     []uint32 // extract opcodes (s,u) or single
		replace uint32
	}
	for _, c := range []lk{{SI8, I32, []uint32{0x15, 0x16}, 0x17}, {SI16, I32, []uint32{0x18, 0x19}, 0x1a}, {SI32, I32, []uint32{0x1b}, 0x1c},
		{SI64, I64, []uint32{0x1d}, 0x1e}, {SF32, F32, []uint32{0x1f}, 0x20}, {SF64, F64, []uint32{0x21}, 0x22}} {
		c := c
		w := c.sh.Bits()
		var of *Format
		if c.sh == SF32 {
			of = &B32
		} else if c.sh == SF64 {
			of = &B64
		}
		for l := 0; l < int(128/w); l++ {
			l := l
			for k, sub := range c.ext {
				signed := len(c.ext) == 2 && k == 0
				n := shN(c.sh) + ".extract_lane"
				if len(c.ext) == 2 {
					n += []string{"_s", "_u"}[k]
				}
				add(&Op{Name: fmt.Sprintf("%s/%d", n, l), Enc: simd(sub, byte(l)), In: []VT{V128}, Out: c.t, Shapes: [3]Shape{c.sh}, OutF: of,
					Eval: func(a, _, _ V) Res {
						x := a.Lane(w, l)
						if signed {
							x = IExtendS(w, 32, x)
						}
						return rv(x)
					}})
			}
			ssh := c.sh
			if c.sh == SI8 || c.sh == SI16 {
				ssh = SI32
			}
			add(&Op{Name: fmt.Sprintf("%s.replace_lane/%d", shN(c.sh), l), Enc: simd(c.replace, byte(l)), In: []VT{V128, c.t}, Out: V128, Shapes: [3]Shape{c.sh, ssh},
				Eval: func(a, b, _ V) Res {
					a.SetLane(w, l, b.Lo)
					return Res{V: a}
				}})
		}
	}

	// integer comparisons
	type icmp struct {
		n string
		f func(uint, uint64, uint64) uint64
	}
	cmps := []icmp{{"eq", IEq}, {"ne", INe}, {"lt_s", ILtS}, {"lt_u", ILtU}, {"gt_s", IGtS}, {"gt_u", IGtU}, {"le_s", ILeS}, {"le_u", ILeU}, {"ge_s", IGeS}, {"ge_u", IGeU}}
	for k, sh := range []Shape{SI8, SI16, SI32} {
		w := sh.Bits()
		for i, c := range cmps {
			c := c
			add(&Op{Name: shN(sh) + "." + c.n, Enc: simd(uint32(0x23 + 10*k + i)), In: []VT{V128, V128}, Out: V128, Shapes: [3]Shape{sh, sh},
				Eval: func(a, b, _ V) Res {
					return lanewise2(w, a, b, func(x, y uint64) uint64 { return allOnes(w, c.f(w, x, y)) })
				}})
		}
	}
	for i, c := range []icmp{{"eq", IEq}, {"ne", INe}, {"lt_s", ILtS}, {"gt_s", IGtS}, {"le_s", ILeS}, {"ge_s", IGeS}} {
		c := c
		add(&Op{Name: "i64x2." + c.n, Enc: simd(uint32(0xd6 + i)), In: []VT{V128, V128}, Out: V128, Shapes: [3]Shape{SI64, SI64},
			Eval: func(a, b, _ V) Res {
				return lanewise2(64, a, b, func(x, y uint64) uint64 { return allOnes(64, c.f(64, x, y)) })
			}})
	}
	// float comparisons
	for k, f := range []Format{B32, B64} {
		f := f
		w := f.W()
		for i, c := range []struct {
			n string
			f func(a, b uint64) uint64
		}{{"eq", f.Eq}, {"ne", f.Ne}, {"lt", f.Lt}, {"gt", f.Gt}, {"le", f.Le}, {"ge", f.Ge}} {
			c := c
			add(&Op{Name: shN(fshape(f)) + "." + c.n, Enc: simd(uint32(0x41 + 6*k + i)), In: []VT{V128, V128}, Out: V128, Shapes: [3]Shape{fshape(f), fshape(f)},
				Eval: func(a, b, _ V) Res {
					return lanewise2(w, a, b, func(x, y uint64) uint64 { return allOnes(w, c.f(x, y)) })
				}})
		}
	}

	// v128 bitwise
	add(&Op{Name: "v128.not", Enc: simd(0x4d), In: []VT{V128}, Out: V128, Shapes: [3]Shape{SI8},
		Eval: func(a, _, _ V) Res { return Res{V: V{^a.Lo, ^a.Hi}} }})
	add(&Op{Name: "v128.and", Enc: simd(0x4e), In: []VT{V128, V128}, Out: V128, Shapes: [3]Shape{SI8, SI8},
		Eval: func(a, b, _ V) Res { return Res{V: V{a.Lo & b.Lo, a.Hi & b.Hi}} }})
	add(&Op{Name: "v128.andnot", Enc: simd(0x4f), In: []VT{V128, V128}, Out: V128, Shapes: [3]Shape{SI8, SI8},
		Eval: func(a, b, _ V) Res { return Res{V: V{a.Lo &^ b.Lo, a.Hi &^ b.Hi}} }})
	add(&Op{Name: "v128.or", Enc: simd(0x50), In: []VT{V128, V128}, Out: V128, Shapes: [3]Shape{SI8, SI8},
		Eval: func(a, b, _ V) Res { return Res{V: V{a.Lo | b.Lo, a.Hi | b.Hi}} }})
	add(&Op{Name: "v128.xor", Enc: simd(0x51), In: []VT{V128, V128}, Out: V128, Shapes: [3]Shape{SI8, SI8},
		Eval: func(a, b, _ V) Res { return Res{V: V{a.Lo ^ b.Lo, a.Hi ^ b.Hi}} }})
	// ibitselect(i1, i2, i3) = (i1 & i3) | (i2 & ~i3)
	add(&Op{Name: "v128.bitselect", Enc: simd(0x52), In: []VT{V128, V128, V128}, Out: V128, Shapes: [3]Shape{SI8, SI8, SI8},
		Eval: func(a, b, c V) Res {
			return Res{V: V{a.Lo&c.Lo | b.Lo&^c.Lo, a.Hi&c.Hi | b.Hi&^c.Hi}}
		}})
	add(&Op{Name: "v128.any_true", Enc: simd(0x53), In: []VT{V128}, Out: I32, Shapes: [3]Shape{SI8},
		Eval: func(a, _, _ V) Res { return rv(b2u(a.Lo|a.Hi != 0)) }})

	// per-shape integer ops
	type iu struct {
		n   string
		sub [4]uint32 // opcode per shape i8,i16,i32,i64 (0 = absent)
		f   func(uint, uint64) uint64
	}
	for _, c := range []iu{
		{"abs", [4]uint32{0x60, 0x80, 0xa0, 0xc0}, IAbs},
		{"neg", [4]uint32{0x61, 0x81, 0xa1, 0xc1}, INeg},
		{"popcnt", [4]uint32{0x62, 0, 0, 0}, IPopcnt},
	} {
		c := c
		for k, sh := range []Shape{SI8, SI16, SI32, SI64} {
			if c.sub[k] == 0 {
				continue
			}
			w := sh.Bits()
			add(&Op{Name: shN(sh) + "." + c.n, Enc: simd(c.sub[k]), In: []VT{V128}, Out: V128, Shapes: [3]Shape{sh},
				Eval: func(a, _, _ V) Res { return lanewise1(w, a, func(x uint64) uint64 { return c.f(w, x) }) }})
		}
	}
	for k, sh := range []Shape{SI8, SI16, SI32, SI64} {
		w := sh.Bits()
		n := int(128 / w)
		add(&Op{Name: shN(sh) + ".all_true", Enc: simd([]uint32{0x63, 0x83, 0xa3, 0xc3}[k]), In: []VT{V128}, Out: I32, Shapes: [3]Shape{sh},
			Eval: func(a, _, _ V) Res {
				for i := 0; i < n; i++ {
					if a.Lane(w, i) == 0 {
						return rv(0)
					}
				}
				return rv(1)
			}})
		add(&Op{Name: shN(sh) + ".bitmask", Enc: simd([]uint32{0x64, 0x84, 0xa4, 0xc4}[k]), In: []VT{V128}, Out: I32, Shapes: [3]Shape{sh},
			Eval: func(a, _, _ V) Res {
				var r uint64
				for i := 0; i < n; i++ {
					if signBit(w, a.Lane(w, i)) {
						r |= 1 << uint(i)
					}
				}
				return rv(r)
			}})
		for j, c := range []struct {
			n string
			f func(uint, uint64, uint64) uint64
		}{{"shl", IShl}, {"shr_s", IShrS}, {"shr_u", IShrU}} {
			c := c
			add(&Op{Name: shN(sh) + "." + c.n, Enc: simd([]uint32{0x6b, 0x8b, 0xab, 0xcb}[k] + uint32(j)), In: []VT{V128, I32}, Out: V128, Shapes: [3]Shape{sh, SCount},
				Eval: func(a, b, _ V) Res {
					cnt := b.Lo & Mask(32)
					return lanewise1(w, a, func(x uint64) uint64 { return c.f(w, x, cnt) })
				}})
		}
	}
	type ib struct {
		n   string
		sub [4]uint32
		f   func(uint, uint64, uint64) uint64
	}
	for _, c := range []ib{
		{"add", [4]uint32{0x6e, 0x8e, 0xae, 0xce}, IAdd},
		{"add_sat_s", [4]uint32{0x6f, 0x8f, 0, 0}, IAddSatS},
		{"add_sat_u", [4]uint32{0x70, 0x90, 0, 0}, IAddSatU},
		{"sub", [4]uint32{0x71, 0x91, 0xb1, 0xd1}, ISub},
		{"sub_sat_s", [4]uint32{0x72, 0x92, 0, 0}, ISubSatS},
		{"sub_sat_u", [4]uint32{0x73, 0x93, 0, 0}, ISubSatU},
		{"mul", [4]uint32{0, 0x95, 0xb5, 0xd5}, IMul},
		{"min_s", [4]uint32{0x76, 0x96, 0xb6, 0}, IMinS},
		{"min_u", [4]uint32{0x77, 0x97, 0xb7, 0}, IMinU},
		{"max_s", [4]uint32{0x78, 0x98, 0xb8, 0}, IMaxS},
		{"max_u", [4]uint32{0x79, 0x99, 0xb9, 0}, IMaxU},
		{"avgr_u", [4]uint32{0x7b, 0x9b, 0, 0}, IAvgrU},
	} {
		c := c
		for k, sh := range []Shape{SI8, SI16, SI32, SI64} {
			if c.sub[k] == 0 {
				continue
			}
			w := sh.Bits()
			add(&Op{Name: shN(sh) + "." + c.n, Enc: simd(c.sub[k]), In: []VT{V128, V128}, Out: V128, Shapes: [3]Shape{sh, sh},
				Eval: func(a, b, _ V) Res { return lanewise2(w, a, b, func(x, y uint64) uint64 { return c.f(w, x, y) }) }})
		}
	}
	add(&Op{Name: "i16x8.q15mulr_sat_s", Enc: simd(0x82), In: []VT{V128, V128}, Out: V128, Shapes: [3]Shape{SI16, SI16},
		Eval: func(a, b, _ V) Res { return lanewise2(16, a, b, IQ15MulrSatS) }})

	// narrow: result lanes 0..n-1 from a, n..2n-1 from b
	for k, sh := range []Shape{SI16, SI32} { // source shape
		from := sh.Bits()
		to := from / 2
		n := int(128 / from)
		for j, signed := range []bool{true, false} {
			signed := signed
			add(&Op{Name: fmt.Sprintf("%s.narrow_%s_%s", shN(ishape(to)), shN(sh), su2(signed)), Enc: simd([]uint32{0x65, 0x85}[k] + uint32(j)),
				In: []VT{V128, V128}, Out: V128, Shapes: [3]Shape{sh, sh},
				Eval: func(a, b, _ V) Res {
					var r V
					for i := 0; i < n; i++ {
						x, y := a.Lane(from, i), b.Lane(from, i)
						if signed {
							r.SetLane(to, i, INarrowS(from, x))
							r.SetLane(to, n+i, INarrowS(from, y))
						} else {
							r.SetLane(to, i, INarrowU(from, x))
							r.SetLane(to, n+i, INarrowU(from, y))
						}
					}
					return Res{V: r}
				}})
		}
	}
	// extend low/high, extmul low/high, extadd_pairwise
	ext := func(from uint, signed bool, x uint64) uint64 {
		if signed {
			return IExtendS(from, 2*from, x)
		}
		return x & Mask(from)
	}
	for k, sh := range []Shape{SI8, SI16, SI32} { // source shape
		from := sh.Bits()
		to := 2 * from
		n := int(128 / to)
		dst := shN(ishape(to))
		for j, c := range []struct {
			half   string
			signed bool
		}{{"low", true}, {"high", true}, {"low", false}, {"high", false}} {
			c := c
			off := 0
			if c.half == "high" {
				off = n
			}
			add(&Op{Name: fmt.Sprintf("%s.extend_%s_%s_%s", dst, c.half, shN(sh), su2(c.signed)), Enc: simd([]uint32{0x87, 0xa7, 0xc7}[k] + uint32(j)),
				In: []VT{V128}, Out: V128, Shapes: [3]Shape{sh},
				Eval: func(a, _, _ V) Res {
					var r V
					for i := 0; i < n; i++ {
						r.SetLane(to, i, ext(from, c.signed, a.Lane(from, off+i)))
					}
					return Res{V: r}
				}})
			add(&Op{Name: fmt.Sprintf("%s.extmul_%s_%s_%s", dst, c.half, shN(sh), su2(c.signed)), Enc: simd([]uint32{0x9c, 0xbc, 0xdc}[k] + uint32(j)),
				In: []VT{V128, V128}, Out: V128, Shapes: [3]Shape{sh, sh},
				Eval: func(a, b, _ V) Res {
					var r V
					for i := 0; i < n; i++ {
						r.SetLane(to, i, IMul(to, ext(from, c.signed, a.Lane(from, off+i)), ext(from, c.signed, b.Lane(from, off+i))))
					}
					return Res{V: r}
				}})
		}
		if sh != SI32 {
			for j, signed := range []bool{true, false} {
				signed := signed
				add(&Op{Name: fmt.Sprintf("%s.extadd_pairwise_%s_%s", dst, shN(sh), su2(signed)), Enc: simd([]uint32{0x7c, 0x7e}[k] + uint32(j)),
					In: []VT{V128}, Out: V128, Shapes: [3]Shape{sh},
					Eval: func(a, _, _ V) Res {
						var r V
						for i := 0; i < n; i++ {
							r.SetLane(to, i, IAdd(to, ext(from, signed, a.Lane(from, 2*i)), ext(from, signed, a.Lane(from, 2*i+1))))
						}
						return Res{V: r}
					}})
			}
		}
	}
	add(&Op{Name: "i32x4.dot_i16x8_s", Enc: simd(0xba), In: []VT{V128, V128}, Out: V128, Shapes: [3]Shape{SI16, SI16},
		Eval: func(a, b, _ V) Res {
			var r V
			for i := 0; i < 4; i++ {
				p0 := IMul(32, IExtendS(16, 32, a.Lane(16, 2*i)), IExtendS(16, 32, b.Lane(16, 2*i)))
				p1 := IMul(32, IExtendS(16, 32, a.Lane(16, 2*i+1)), IExtendS(16, 32, b.Lane(16, 2*i+1)))
				r.SetLane(32, i, IAdd(32, p0, p1))
			}
			return Res{V: r}
		}})

	// float lane-wise
	for k, f := range []Format{B32, B64} {
		f := f
		sh := fshape(f)
		p := shN(sh) + "."
		ex := func(g func(uint64) uint64) func(uint64) (uint64, NaNClass) {
			return func(a uint64) (uint64, NaNClass) { return g(a), NotNaN }
		}
		for _, c := range []struct {
			n   string
			sub [2]uint32
			f   func(uint64) (uint64, NaNClass)
		}{{"ceil", [2]uint32{0x67, 0x74}, f.Ceil}, {"floor", [2]uint32{0x68, 0x75}, f.Floor}, {"trunc", [2]uint32{0x69, 0x7a}, f.Trunc},
			{"nearest", [2]uint32{0x6a, 0x94}, f.Nearest}, {"abs", [2]uint32{0xe0, 0xec}, ex(f.Abs)}, {"neg", [2]uint32{0xe1, 0xed}, ex(f.Neg)},
			{"sqrt", [2]uint32{0xe3, 0xef}, f.Sqrt}} {
			c := c
			add(&Op{Name: p + c.n, Enc: simd(c.sub[k]), In: []VT{V128}, Out: V128, Shapes: [3]Shape{sh}, OutF: fptr(f),
				Eval: func(a, _, _ V) Res { return flanewise1(f, a, c.f) }})
		}
		ex2 := func(g func(a, b uint64) uint64) func(a, b uint64) (uint64, NaNClass) {
			return func(a, b uint64) (uint64, NaNClass) { return g(a, b), NotNaN }
		}
		for i, c := range []struct {
			n string
			f func(a, b uint64) (uint64, NaNClass)
		}{{"add", f.Add}, {"sub", f.Sub}, {"mul", f.Mul}, {"div", f.Div}, {"min", f.Min}, {"max", f.Max}, {"pmin", ex2(f.PMin)}, {"pmax", ex2(f.PMax)}} {
			c := c
			add(&Op{Name: p + c.n, Enc: simd([]uint32{0xe4, 0xf0}[k] + uint32(i)), In: []VT{V128, V128}, Out: V128, Shapes: [3]Shape{sh, sh}, OutF: fptr(f),
				Eval: func(a, b, _ V) Res { return flanewise2(f, a, b, c.f) }})
		}
	}
	// vector conversions
	for j, signed := range []bool{true, false} {
		signed := signed
		add(&Op{Name: "i32x4.trunc_sat_f32x4_" + su2(signed), Enc: simd(0xf8 + uint32(j)), In: []VT{V128}, Out: V128, Shapes: [3]Shape{SF32},
			Eval: func(a, _, _ V) Res {
				return lanewise1(32, a, func(x uint64) uint64 { return B32.TruncSatToInt(x, 32, signed) })
			}})
		add(&Op{Name: "f32x4.convert_i32x4_" + su2(signed), Enc: simd(0xfa + uint32(j)), In: []VT{V128}, Out: V128, Shapes: [3]Shape{SI32}, OutF: &B32,
			Eval: func(a, _, _ V) Res {
				return lanewise1(32, a, func(x uint64) uint64 { return B32.ConvertInt(x, 32, signed) })
			}})
		add(&Op{Name: "i32x4.trunc_sat_f64x2_" + su2(signed) + "_zero", Enc: simd(0xfc + uint32(j)), In: []VT{V128}, Out: V128, Shapes: [3]Shape{SF64},
			Eval: func(a, _, _ V) Res {
				var r V
				for i := 0; i < 2; i++ {
					r.SetLane(32, i, B64.TruncSatToInt(a.Lane(64, i), 32, signed))
				}
				return Res{V: r}
			}})
		add(&Op{Name: "f64x2.convert_low_i32x4_" + su2(signed), Enc: simd(0xfe + uint32(j)), In: []VT{V128}, Out: V128, Shapes: [3]Shape{SI32}, OutF: &B64,
			Eval: func(a, _, _ V) Res {
				var r V
				for i := 0; i < 2; i++ {
					r.SetLane(64, i, B64.ConvertInt(a.Lane(32, i), 32, signed))
				}
				return Res{V: r}
			}})
	}
	add(&Op{Name: "f32x4.demote_f64x2_zero", Enc: simd(0x5e), In: []VT{V128}, Out: V128, Shapes: [3]Shape{SF64}, OutF: &B32,
		Eval: func(a, _, _ V) Res {
			var r Res
			for i := 0; i < 2; i++ {
				x, c := B32.Convert(B64, a.Lane(64, i))
				r.V.SetLane(32, i, x)
				r.NaN[i] = c
			}
			return r
		}})
	add(&Op{Name: "f64x2.promote_low_f32x4", Enc: simd(0x5f), In: []VT{V128}, Out: V128, Shapes: [3]Shape{SF32}, OutF: &B64,
		Eval: func(a, _, _ V) Res {
			var r Res
			for i := 0; i < 2; i++ {
				x, c := B64.Convert(B32, a.Lane(32, i))
				r.V.SetLane(64, i, x)
				r.NaN[i] = c
			}
			return r
		}})
	return ops
}

func su2(s bool) string {
	if s {
		return "s"
	}
	return "u"
}
