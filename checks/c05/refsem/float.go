package refsem

import "math/bits"

// Format describes an IEEE-754 binary interchange format by its field widths.
type Format struct {
	E, M uint // exponent bits, trailing significand bits
}

var (
	B32 = Format{8, 23}
	B64 = Format{11, 52}
)

// NaNClass says which set of NaNs the specification allows as a result
// (nans_N{z*}): the canonical NaNs (either sign) when every NaN input is
// canonical (or there is none), otherwise any arithmetic NaN.
type NaNClass uint8

const (
	NotNaN NaNClass = iota
	NaNCanon
	NaNArith
)

func (f Format) W() uint           { return 1 + f.E + f.M }
func (f Format) bias() int         { return (1 << (f.E - 1)) - 1 }
func (f Format) emin() int         { return 1 - f.bias() } // exponent of the smallest normal
func (f Format) expAll() uint64    { return (uint64(1) << f.E) - 1 }
func (f Format) SignMask() uint64  { return uint64(1) << (f.E + f.M) }
func (f Format) fracMask() uint64  { return (uint64(1) << f.M) - 1 }
func (f Format) Inf() uint64       { return f.expAll() << f.M }
func (f Format) CanonNaN() uint64  { return f.Inf() | uint64(1)<<(f.M-1) }
func (f Format) expField(x uint64) uint64 { return (x >> f.M) & f.expAll() }
func (f Format) frac(x uint64) uint64     { return x & f.fracMask() }
func (f Format) neg(x uint64) bool        { return x&f.SignMask() != 0 }

func (f Format) IsNaN(x uint64) bool  { return f.expField(x) == f.expAll() && f.frac(x) != 0 }
func (f Format) IsInf(x uint64) bool  { return f.expField(x) == f.expAll() && f.frac(x) == 0 }
func (f Format) IsZero(x uint64) bool { return x&^f.SignMask()&Mask(f.W()) == 0 }

// IsCanonNaN: payload is exactly the most significant fraction bit; sign is free.
func (f Format) IsCanonNaN(x uint64) bool { return x&^f.SignMask()&Mask(f.W()) == f.CanonNaN() }

// IsArithNaN: a NaN whose most significant fraction bit is 1.
func (f Format) IsArithNaN(x uint64) bool {
	return f.IsNaN(x) && x&(uint64(1)<<(f.M-1)) != 0
}

// Accept reports whether got is an allowed outcome for (want, class).
func (f Format) Accept(want uint64, c NaNClass, got uint64) bool {
	switch c {
	case NaNCanon:
		return f.IsCanonNaN(got)
	case NaNArith:
		return f.IsArithNaN(got)
	}
	return want&Mask(f.W()) == got&Mask(f.W())
}

// nans implements nans_N{z*}.
func (f Format) nans(zs ...uint64) (uint64, NaNClass) {
	for _, z := range zs {
		if f.IsNaN(z) && !f.IsCanonNaN(z) {
			return f.CanonNaN(), NaNArith
		}
	}
	return f.CanonNaN(), NaNCanon
}

// unpack a finite non-zero value into sig * 2^e (sig carries the hidden bit for normals).
func (f Format) unpack(x uint64) (sig uint64, e int) {
	ex := int(f.expField(x))
	if ex == 0 {
		return f.frac(x), f.emin() - int(f.M)
	}
	return f.frac(x) | uint64(1)<<f.M, ex - f.bias() - int(f.M)
}

func (f Format) withSign(neg bool, x uint64) uint64 {
	if neg {
		return x | f.SignMask()
	}
	return x
}

// round returns the value (hi:lo) * 2^e (plus a positive amount smaller than one unit
// of lo when sticky is set), rounded to nearest, ties to even, in format f.
func (f Format) round(neg bool, hi, lo uint64, e int, sticky bool) uint64 {
	if hi == 0 && lo == 0 {
		return f.withSign(neg, 0)
	}
	// normalise to a 64-bit significand m with bit 63 set; value = m * 2^e (+ sticky).
	var m uint64
	if hi != 0 {
		n := uint(bits.LeadingZeros64(hi))
		// take the top 64 bits of hi:lo
		if n == 0 {
			m = hi
			sticky = sticky || lo != 0
		} else {
			m = hi<<n | lo>>(64-n)
			sticky = sticky || lo<<n != 0
		}
		e += 64 - int(n)
	} else {
		n := uint(bits.LeadingZeros64(lo))
		m = lo << n
		e -= int(n)
	}
	lead := e + 63 // exponent of the leading bit
	q := lead - int(f.M)
	if lead < f.emin() {
		q = f.emin() - int(f.M) // subnormal quantum
	}
	shift := q - e // > 0 always, since 63 > M
	var kept uint64
	var up bool
	switch {
	case shift >= 65:
		kept, up = 0, false
	case shift == 64:
		kept = 0
		up = m > uint64(1)<<63 || sticky // m == 2^63 exactly and no sticky is a tie to even (0)
	default:
		s := uint(shift)
		kept = m >> s
		rem := m & ((uint64(1) << s) - 1)
		half := uint64(1) << (s - 1)
		switch {
		case rem > half:
			up = true
		case rem == half:
			up = sticky || kept&1 == 1
		}
	}
	if up {
		kept++
	}
	// biased exponent field of the quantum's binade; a carry out of the significand
	// propagates into the exponent field by plain addition.
	ef := q + int(f.M) + f.bias() // == 1 for subnormals
	if ef >= int(f.expAll()) {
		return f.withSign(neg, f.Inf())
	}
	r := uint64(ef-1)<<f.M + kept
	if r >= f.Inf() {
		r = f.Inf()
	}
	return f.withSign(neg, r)
}

// key maps non-NaN values to integers that order like the reals (both zeros -> 0).
func (f Format) key(x uint64) int64 {
	m := int64(x &^ f.SignMask() & Mask(f.W()))
	if f.neg(x) {
		return -m
	}
	return m
}

func (f Format) Eq(a, b uint64) uint64 {
	if f.IsNaN(a) || f.IsNaN(b) {
		return 0
	}
	return b2u(f.key(a) == f.key(b))
}
func (f Format) Ne(a, b uint64) uint64 {
	if f.IsNaN(a) || f.IsNaN(b) {
		return 1
	}
	return b2u(f.key(a) != f.key(b))
}
func (f Format) Lt(a, b uint64) uint64 {
	if f.IsNaN(a) || f.IsNaN(b) {
		return 0
	}
	return b2u(f.key(a) < f.key(b))
}
func (f Format) Gt(a, b uint64) uint64 { return f.Lt(b, a) }
func (f Format) Le(a, b uint64) uint64 {
	if f.IsNaN(a) || f.IsNaN(b) {
		return 0
	}
	return b2u(f.key(a) <= f.key(b))
}
func (f Format) Ge(a, b uint64) uint64 { return f.Le(b, a) }

func (f Format) Abs(a uint64) uint64 { return a &^ f.SignMask() & Mask(f.W()) }
func (f Format) Neg(a uint64) uint64 { return (a ^ f.SignMask()) & Mask(f.W()) }
func (f Format) Copysign(a, b uint64) uint64 {
	return (a&^f.SignMask() | b&f.SignMask()) & Mask(f.W())
}

func (f Format) Add(a, b uint64) (uint64, NaNClass) {
	if f.IsNaN(a) || f.IsNaN(b) {
		return f.nans(a, b)
	}
	na, nb := f.neg(a), f.neg(b)
	switch {
	case f.IsInf(a) && f.IsInf(b):
		if na != nb {
			return f.nans()
		}
		return a, NotNaN
	case f.IsInf(a):
		return a, NotNaN
	case f.IsInf(b):
		return b, NotNaN
	case f.IsZero(a) && f.IsZero(b):
		if na == nb {
			return a, NotNaN
		}
		return 0, NotNaN
	case f.IsZero(a):
		return b, NotNaN
	case f.IsZero(b):
		return a, NotNaN
	}
	sa, ea := f.unpack(a)
	sb, eb := f.unpack(b)
	if ea < eb {
		sa, sb, ea, eb, na, nb = sb, sa, eb, ea, nb, na
	}
	d := ea - eb
	if d > 66 {
		// b is smaller than a quarter unit of (sa<<2): it only acts as a sticky amount.
		hi, lo := sa>>62, sa<<2
		if na == nb {
			return f.round(na, hi, lo, ea-2, true), NotNaN
		}
		var br uint64
		lo, br = bits.Sub64(lo, 1, 0)
		hi -= br
		return f.round(na, hi, lo, ea-2, true), NotNaN
	}
	// align a to b's exponent: sa << d fits in 128 bits (53 + 66 bits).
	var ahi, alo uint64
	if d >= 64 {
		ahi, alo = sa<<(uint(d)-64), 0
	} else if d == 0 {
		ahi, alo = 0, sa
	} else {
		ahi, alo = sa>>(64-uint(d)), sa<<uint(d)
	}
	if na == nb {
		lo, c := bits.Add64(alo, sb, 0)
		hi := ahi + c
		return f.round(na, hi, lo, eb, false), NotNaN
	}
	// opposite signs: subtract the smaller magnitude from the larger
	if ahi > 0 || alo > sb {
		lo, br := bits.Sub64(alo, sb, 0)
		hi := ahi - br
		return f.round(na, hi, lo, eb, false), NotNaN
	}
	if alo == sb {
		return 0, NotNaN // exact cancellation gives +0 under round-to-nearest
	}
	return f.round(nb, 0, sb-alo, eb, false), NotNaN
}

func (f Format) Sub(a, b uint64) (uint64, NaNClass) {
	if f.IsNaN(a) || f.IsNaN(b) {
		return f.nans(a, b)
	}
	return f.Add(a, f.Neg(b))
}

func (f Format) Mul(a, b uint64) (uint64, NaNClass) {
	if f.IsNaN(a) || f.IsNaN(b) {
		return f.nans(a, b)
	}
	neg := f.neg(a) != f.neg(b)
	switch {
	case f.IsInf(a) || f.IsInf(b):
		if f.IsZero(a) || f.IsZero(b) {
			return f.nans()
		}
		return f.withSign(neg, f.Inf()), NotNaN
	case f.IsZero(a) || f.IsZero(b):
		return f.withSign(neg, 0), NotNaN
	}
	sa, ea := f.unpack(a)
	sb, eb := f.unpack(b)
	hi, lo := bits.Mul64(sa, sb)
	return f.round(neg, hi, lo, ea+eb, false), NotNaN
}

func (f Format) Div(a, b uint64) (uint64, NaNClass) {
	if f.IsNaN(a) || f.IsNaN(b) {
		return f.nans(a, b)
	}
	neg := f.neg(a) != f.neg(b)
	switch {
	case f.IsInf(a):
		if f.IsInf(b) {
			return f.nans()
		}
		return f.withSign(neg, f.Inf()), NotNaN
	case f.IsInf(b):
		return f.withSign(neg, 0), NotNaN
	case f.IsZero(b):
		if f.IsZero(a) {
			return f.nans()
		}
		return f.withSign(neg, f.Inf()), NotNaN
	case f.IsZero(a):
		return f.withSign(neg, 0), NotNaN
	}
	sa, ea := f.unpack(a)
	sb, eb := f.unpack(b)
	la, lb := uint(bits.LeadingZeros64(sa)), uint(bits.LeadingZeros64(sb))
	sa <<= la
	sb <<= lb
	// q = floor(sa * 2^63 / sb), 2^62 < q < 2^64
	q, r := bits.Div64(sa>>1, sa<<63, sb)
	e := ea - eb + int(lb) - int(la) - 63
	return f.round(neg, 0, q, e, r != 0), NotNaN
}

func isqrt128(hi, lo uint64) (r uint64, exact bool) {
	for bit := 63; bit >= 0; bit-- {
		t := r | uint64(1)<<uint(bit)
		th, tl := bits.Mul64(t, t)
		if th < hi || (th == hi && tl <= lo) {
			r = t
		}
	}
	th, tl := bits.Mul64(r, r)
	return r, th == hi && tl == lo
}

func (f Format) Sqrt(a uint64) (uint64, NaNClass) {
	switch {
	case f.IsNaN(a):
		return f.nans(a)
	case f.IsZero(a):
		return a, NotNaN
	case f.neg(a):
		return f.nans()
	case f.IsInf(a):
		return a, NotNaN
	}
	s, e := f.unpack(a)
	// scale s to a 128-bit radicand s << t with (e - t) even and t as large as possible (<= 64+lz)
	lz := uint(bits.LeadingZeros64(s))
	t := 64 + int(lz) - 1 // top bit at position 126
	if (e-t)%2 != 0 {
		t--
	}
	// s << t
	var hi, lo uint64
	if t >= 64 {
		hi, lo = s<<uint(t-64), 0
	} else {
		hi, lo = s>>uint(64-t), s<<uint(t)
	}
	r, exact := isqrt128(hi, lo)
	return f.round(false, 0, r, (e-t)/2, !exact), NotNaN
}

// fmin / fmax
func (f Format) Min(a, b uint64) (uint64, NaNClass) {
	if f.IsNaN(a) || f.IsNaN(b) {
		return f.nans(a, b)
	}
	if f.IsZero(a) && f.IsZero(b) {
		return (a | b) & Mask(f.W()), NotNaN // -0 if either is -0
	}
	if f.key(a) < f.key(b) {
		return a, NotNaN
	}
	return b, NotNaN
}
func (f Format) Max(a, b uint64) (uint64, NaNClass) {
	if f.IsNaN(a) || f.IsNaN(b) {
		return f.nans(a, b)
	}
	if f.IsZero(a) && f.IsZero(b) {
		return a & b & Mask(f.W()), NotNaN // +0 if either is +0
	}
	if f.key(a) > f.key(b) {
		return a, NotNaN
	}
	return b, NotNaN
}

// fpmin(z1,z2) = z2 if z2 < z1 else z1 ; fpmax(z1,z2) = z2 if z1 < z2 else z1 (bit exact)
func (f Format) PMin(a, b uint64) uint64 {
	if f.Lt(b, a) == 1 {
		return b
	}
	return a
}
func (f Format) PMax(a, b uint64) uint64 {
	if f.Lt(a, b) == 1 {
		return b
	}
	return a
}

type roundMode uint8

const (
	rCeil roundMode = iota
	rFloor
	rTrunc
	rNearest
)

func (f Format) roundInt(a uint64, mode roundMode) (uint64, NaNClass) {
	if f.IsNaN(a) {
		return f.nans(a)
	}
	if f.IsInf(a) || f.IsZero(a) {
		return a, NotNaN
	}
	neg := f.neg(a)
	m := a &^ f.SignMask() & Mask(f.W()) // magnitude bits
	E := int(f.expField(a)) - f.bias()
	if f.expField(a) == 0 {
		E = f.emin() - 1 // subnormal: certainly below 1/2
	}
	one := uint64(f.bias()) << f.M
	if E >= int(f.M) {
		return a, NotNaN // already an integer
	}
	if E < 0 { // 0 < |a| < 1
		var r uint64
		switch mode {
		case rCeil:
			if !neg {
				r = one
			}
		case rFloor:
			if neg {
				r = one
			}
		case rTrunc:
		case rNearest:
			// > 1/2 rounds to 1; exactly 1/2 ties to the even integer 0
			halfBits := uint64(f.bias()-1) << f.M
			if m > halfBits {
				r = one
			}
		}
		return f.withSign(neg, r), NotNaN
	}
	fb := f.M - uint(E) // number of fraction bits below the units place
	fm := (uint64(1) << fb) - 1
	t := m &^ fm
	rem := m & fm
	if rem == 0 {
		return a, NotNaN
	}
	inc := uint64(1) << fb // adding it to the magnitude bits carries into the exponent correctly
	up := false
	switch mode {
	case rCeil:
		up = !neg
	case rFloor:
		up = neg
	case rTrunc:
	case rNearest:
		half := uint64(1) << (fb - 1)
		odd := true // E == 0: the units digit is the hidden bit
		if fb < f.M {
			odd = (m>>fb)&1 == 1
		}
		up = rem > half || (rem == half && odd)
	}
	if up {
		t += inc
	}
	return f.withSign(neg, t), NotNaN
}

func (f Format) Ceil(a uint64) (uint64, NaNClass)    { return f.roundInt(a, rCeil) }
func (f Format) Floor(a uint64) (uint64, NaNClass)   { return f.roundInt(a, rFloor) }
func (f Format) Trunc(a uint64) (uint64, NaNClass)   { return f.roundInt(a, rTrunc) }
func (f Format) Nearest(a uint64) (uint64, NaNClass) { return f.roundInt(a, rNearest) }

// truncMag returns trunc(|a|) for finite a; big is set when it does not fit 64 bits.
func (f Format) truncMag(a uint64) (m uint64, big bool) {
	if f.IsZero(a) {
		return 0, false
	}
	s, e := f.unpack(a)
	if e >= 0 {
		if e >= 64 || bits.Len64(s)+e > 64 {
			return 0, true
		}
		return s << uint(e), false
	}
	if -e >= 64 {
		return 0, false
	}
	return s >> uint(-e), false
}

// TruncToInt is trunc_s / trunc_u to a w-bit integer (partial: NaN, infinities and
// out-of-range values have no result).
func (f Format) TruncToInt(a uint64, w uint, signed bool) (uint64, Trap) {
	if f.IsNaN(a) {
		return 0, TrapInvalidConv
	}
	if f.IsInf(a) {
		return 0, TrapOverflow
	}
	m, big := f.truncMag(a)
	if big {
		return 0, TrapOverflow
	}
	neg := f.neg(a)
	if signed {
		lim := uint64(1) << (w - 1)
		if neg {
			if m > lim {
				return 0, TrapOverflow
			}
			return (^m + 1) & Mask(w), TrapNone
		}
		if m > lim-1 {
			return 0, TrapOverflow
		}
		return m, TrapNone
	}
	if neg && m != 0 {
		return 0, TrapOverflow
	}
	if m > Mask(w) {
		return 0, TrapOverflow
	}
	return m, TrapNone
}

// TruncSatToInt is trunc_sat_s / trunc_sat_u.
func (f Format) TruncSatToInt(a uint64, w uint, signed bool) uint64 {
	if f.IsNaN(a) {
		return 0
	}
	neg := f.neg(a)
	var smin, smax uint64 = uint64(1) << (w - 1), (uint64(1) << (w - 1)) - 1
	m, big := uint64(0), true
	if !f.IsInf(a) {
		m, big = f.truncMag(a)
	}
	if signed {
		if neg {
			if big || m > smin {
				return smin
			}
			return (^m + 1) & Mask(w)
		}
		if big || m > smax {
			return smax
		}
		return m
	}
	if neg {
		return 0
	}
	if big || m > Mask(w) {
		return Mask(w)
	}
	return m
}

// ConvertInt is convert_s / convert_u from a w-bit integer (round to nearest even).
func (f Format) ConvertInt(a uint64, w uint, signed bool) uint64 {
	a &= Mask(w)
	if signed {
		return f.round(signBit(w, a), 0, mag(w, a), 0, false)
	}
	return f.round(false, 0, a, 0, false)
}

// Convert re-rounds a value of format g into format f (promote / demote).
func (f Format) Convert(g Format, a uint64) (uint64, NaNClass) {
	if g.IsNaN(a) {
		// nans_N{z}: canonical input gives a canonical NaN, anything else an arithmetic NaN
		if g.IsCanonNaN(a) {
			return f.CanonNaN(), NaNCanon
		}
		return f.CanonNaN(), NaNArith
	}
	neg := g.neg(a)
	if g.IsInf(a) {
		return f.withSign(neg, f.Inf()), NotNaN
	}
	if g.IsZero(a) {
		return f.withSign(neg, 0), NotNaN
	}
	s, e := g.unpack(a)
	return f.round(neg, 0, s, e, false), NotNaN
}
