package refsem

// V is a 128-bit value; scalars live in Lo (upper bits zero for 32-bit types).
type V struct{ Lo, Hi uint64 }

// Lane returns lane i of width w (little-endian lane order as in the spec's lanes_ixN).
func (v V) Lane(w uint, i int) uint64 {
	bit := uint(i) * w
	if bit >= 64 {
		return (v.Hi >> (bit - 64)) & Mask(w)
	}
	return (v.Lo >> bit) & Mask(w)
}

func (v *V) SetLane(w uint, i int, x uint64) {
	bit := uint(i) * w
	x &= Mask(w)
	if bit >= 64 {
		bit -= 64
		v.Hi = v.Hi&^(Mask(w)<<bit) | x<<bit
	} else {
		v.Lo = v.Lo&^(Mask(w)<<bit) | x<<bit
	}
}

func (v V) Byte(i int) uint64 { return v.Lane(8, i) }

func S(x uint64) V { return V{Lo: x} }

// Res is the outcome of one instruction: a value (or a trap) and, per floating point
// result lane, the set of NaNs the specification allows.
type Res struct {
	V    V
	Trap Trap
	NaN  [4]NaNClass
}

func rv(x uint64) Res                 { return Res{V: V{Lo: x}} }
func rf(x uint64, c NaNClass) Res     { return Res{V: V{Lo: x}, NaN: [4]NaNClass{c}} }
func rt(x uint64, t Trap) Res {
	if t != TrapNone {
		return Res{Trap: t}
	}
	return Res{V: V{Lo: x}}
}

func lanewise1(w uint, a V, f func(uint64) uint64) Res {
	var r V
	for i := 0; i < int(128/w); i++ {
		r.SetLane(w, i, f(a.Lane(w, i)))
	}
	return Res{V: r}
}

func lanewise2(w uint, a, b V, f func(x, y uint64) uint64) Res {
	var r V
	for i := 0; i < int(128/w); i++ {
		r.SetLane(w, i, f(a.Lane(w, i), b.Lane(w, i)))
	}
	return Res{V: r}
}

func flanewise1(f Format, a V, g func(uint64) (uint64, NaNClass)) Res {
	var r Res
	w := f.W()
	for i := 0; i < int(128/w); i++ {
		x, c := g(a.Lane(w, i))
		r.V.SetLane(w, i, x)
		r.NaN[i] = c
	}
	return r
}

func flanewise2(f Format, a, b V, g func(x, y uint64) (uint64, NaNClass)) Res {
	var r Res
	w := f.W()
	for i := 0; i < int(128/w); i++ {
		x, c := g(a.Lane(w, i), b.Lane(w, i))
		r.V.SetLane(w, i, x)
		r.NaN[i] = c
	}
	return r
}
