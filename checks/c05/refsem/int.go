// Package refsem is an independent reference semantics of the numeric WebAssembly
// instructions (scalar and v128), written from the specification text
// (WebAssembly 2.0, "Numerics"). It imports nothing from wazero and no floating
// point support from the Go runtime: integers use math/bits and masks, floats are
// decoded into (sign, exponent, significand) and rounded explicitly.
package refsem

import "math/bits"

// Trap is the trap a partial operator produces.
type Trap uint8

const (
	TrapNone Trap = iota
	TrapDivZero
	TrapOverflow
	TrapInvalidConv
)

func (t Trap) String() string {
	switch t {
	case TrapDivZero:
		return "integer divide by zero"
	case TrapOverflow:
		return "integer overflow"
	case TrapInvalidConv:
		return "invalid conversion to integer"
	}
	return "none"
}

// Mask returns 2^w-1.
func Mask(w uint) uint64 {
	if w >= 64 {
		return ^uint64(0)
	}
	return (uint64(1) << w) - 1
}

// Sext interprets the low w bits of x as a two's complement number (signed_w).
func Sext(w uint, x uint64) int64 {
	s := 64 - w
	return int64(x<<s) >> s
}

func signBit(w uint, x uint64) bool { return (x>>(w-1))&1 == 1 }

// magnitude of signed_w(x) as an unsigned number (|min| = 2^(w-1) is representable).
func mag(w uint, x uint64) uint64 {
	x &= Mask(w)
	if signBit(w, x) {
		return (^x + 1) & Mask(w)
	}
	return x
}

func b2u(b bool) uint64 {
	if b {
		return 1
	}
	return 0
}

func IAdd(w uint, a, b uint64) uint64 { return (a + b) & Mask(w) }
func ISub(w uint, a, b uint64) uint64 { return (a - b) & Mask(w) }
func IMul(w uint, a, b uint64) uint64 { return (a * b) & Mask(w) }
func IAnd(w uint, a, b uint64) uint64 { return a & b & Mask(w) }
func IOr(w uint, a, b uint64) uint64  { return (a | b) & Mask(w) }
func IXor(w uint, a, b uint64) uint64 { return (a ^ b) & Mask(w) }
func IAndNot(w uint, a, b uint64) uint64 {
	return a &^ b & Mask(w)
}
func INot(w uint, a uint64) uint64 { return ^a & Mask(w) }

// idiv_u: undefined for b = 0, else trunc(a/b).
func IDivU(w uint, a, b uint64) (uint64, Trap) {
	a, b = a&Mask(w), b&Mask(w)
	if b == 0 {
		return 0, TrapDivZero
	}
	return a / b, TrapNone
}

// idiv_s: undefined for b = 0 and for the quotient 2^(w-1); truncation toward zero.
func IDivS(w uint, a, b uint64) (uint64, Trap) {
	a, b = a&Mask(w), b&Mask(w)
	if b == 0 {
		return 0, TrapDivZero
	}
	q := mag(w, a) / mag(w, b)
	if signBit(w, a) != signBit(w, b) {
		return (^q + 1) & Mask(w), TrapNone
	}
	if q == uint64(1)<<(w-1) {
		return 0, TrapOverflow
	}
	return q, TrapNone
}

func IRemU(w uint, a, b uint64) (uint64, Trap) {
	a, b = a&Mask(w), b&Mask(w)
	if b == 0 {
		return 0, TrapDivZero
	}
	return a % b, TrapNone
}

// irem_s: sign of the dividend; min rem -1 = 0.
func IRemS(w uint, a, b uint64) (uint64, Trap) {
	a, b = a&Mask(w), b&Mask(w)
	if b == 0 {
		return 0, TrapDivZero
	}
	r := mag(w, a) % mag(w, b)
	if signBit(w, a) {
		return (^r + 1) & Mask(w), TrapNone
	}
	return r, TrapNone
}

func IShl(w uint, a, b uint64) uint64 {
	k := uint(b % uint64(w))
	return (a << k) & Mask(w)
}
func IShrU(w uint, a, b uint64) uint64 {
	k := uint(b % uint64(w))
	return (a & Mask(w)) >> k
}
func IShrS(w uint, a, b uint64) uint64 {
	k := uint(b % uint64(w))
	return uint64(Sext(w, a)>>k) & Mask(w)
}
func IRotl(w uint, a, b uint64) uint64 {
	k := uint(b % uint64(w))
	a &= Mask(w)
	if k == 0 {
		return a
	}
	return ((a << k) | (a >> (w - k))) & Mask(w)
}
func IRotr(w uint, a, b uint64) uint64 {
	k := uint(b % uint64(w))
	a &= Mask(w)
	if k == 0 {
		return a
	}
	return ((a >> k) | (a << (w - k))) & Mask(w)
}

func IClz(w uint, a uint64) uint64 {
	a &= Mask(w)
	return uint64(bits.LeadingZeros64(a)) - uint64(64-w)
}
func ICtz(w uint, a uint64) uint64 {
	a &= Mask(w)
	if a == 0 {
		return uint64(w)
	}
	return uint64(bits.TrailingZeros64(a))
}
func IPopcnt(w uint, a uint64) uint64 { return uint64(bits.OnesCount64(a & Mask(w))) }

func IEqz(w uint, a uint64) uint64    { return b2u(a&Mask(w) == 0) }
func IEq(w uint, a, b uint64) uint64  { return b2u(a&Mask(w) == b&Mask(w)) }
func INe(w uint, a, b uint64) uint64  { return b2u(a&Mask(w) != b&Mask(w)) }
func ILtU(w uint, a, b uint64) uint64 { return b2u(a&Mask(w) < b&Mask(w)) }
func IGtU(w uint, a, b uint64) uint64 { return b2u(a&Mask(w) > b&Mask(w)) }
func ILeU(w uint, a, b uint64) uint64 { return b2u(a&Mask(w) <= b&Mask(w)) }
func IGeU(w uint, a, b uint64) uint64 { return b2u(a&Mask(w) >= b&Mask(w)) }
func ILtS(w uint, a, b uint64) uint64 { return b2u(Sext(w, a) < Sext(w, b)) }
func IGtS(w uint, a, b uint64) uint64 { return b2u(Sext(w, a) > Sext(w, b)) }
func ILeS(w uint, a, b uint64) uint64 { return b2u(Sext(w, a) <= Sext(w, b)) }
func IGeS(w uint, a, b uint64) uint64 { return b2u(Sext(w, a) >= Sext(w, b)) }

// IExtendS is iextendM_s: reinterpret the low `from` bits as signed and extend to w bits.
func IExtendS(from, w uint, a uint64) uint64 { return uint64(Sext(from, a)) & Mask(w) }
func IExtendU(from, w uint, a uint64) uint64 { return a & Mask(from) }

func satS(w uint, v int64) uint64 {
	lo, hi := -(int64(1) << (w - 1)), (int64(1)<<(w-1))-1
	if v < lo {
		v = lo
	}
	if v > hi {
		v = hi
	}
	return uint64(v) & Mask(w)
}
func satU(w uint, v int64) uint64 {
	if v < 0 {
		return 0
	}
	if uint64(v) > Mask(w) {
		return Mask(w)
	}
	return uint64(v)
}

// Saturating lane arithmetic is only defined for w <= 16, so int64 intermediates are exact.
func IAddSatS(w uint, a, b uint64) uint64 { return satS(w, Sext(w, a)+Sext(w, b)) }
func IAddSatU(w uint, a, b uint64) uint64 { return satU(w, int64(a&Mask(w))+int64(b&Mask(w))) }
func ISubSatS(w uint, a, b uint64) uint64 { return satS(w, Sext(w, a)-Sext(w, b)) }
func ISubSatU(w uint, a, b uint64) uint64 { return satU(w, int64(a&Mask(w))-int64(b&Mask(w))) }

func IMinS(w uint, a, b uint64) uint64 {
	if Sext(w, a) < Sext(w, b) {
		return a & Mask(w)
	}
	return b & Mask(w)
}
func IMaxS(w uint, a, b uint64) uint64 {
	if Sext(w, a) > Sext(w, b) {
		return a & Mask(w)
	}
	return b & Mask(w)
}
func IMinU(w uint, a, b uint64) uint64 {
	if a&Mask(w) < b&Mask(w) {
		return a & Mask(w)
	}
	return b & Mask(w)
}
func IMaxU(w uint, a, b uint64) uint64 {
	if a&Mask(w) > b&Mask(w) {
		return a & Mask(w)
	}
	return b & Mask(w)
}

// iavgr_u = (a + b + 1) / 2 without wrap (w <= 16).
func IAvgrU(w uint, a, b uint64) uint64 { return ((a & Mask(w)) + (b & Mask(w)) + 1) >> 1 }

func IAbs(w uint, a uint64) uint64 { return mag(w, a) }
func INeg(w uint, a uint64) uint64 { return (^a + 1) & Mask(w) }

// iq15mulrsat_s(a,b) = sat_s16((a*b + 2^14) >> 15), arithmetic shift.
func IQ15MulrSatS(a, b uint64) uint64 {
	p := Sext(16, a)*Sext(16, b) + 0x4000
	return satS(16, p>>15)
}

// narrow: the source lane is interpreted as SIGNED for both the _s and the _u variant.
func INarrowS(from uint, a uint64) uint64 { return satS(from/2, Sext(from, a)) }
func INarrowU(from uint, a uint64) uint64 { return satU(from/2, Sext(from, a)) }
