package main

// Panic containment around every entry into the implementation. A Go panic of wazero while it
// compiles, instantiates or calls a valid module is a violation of the property on that input (the
// instruction did not "return the specified value"), not a harness error: it is recovered where the
// implementation is called and handed to the family's reporter as an error whose text names the
// panic value and the panic site (the innermost wazero frames), so that the signature can name it.

import (
	"context"
	"fmt"
	"runtime"
	"strings"

	"github.com/tetratelabs/wazero"
	"github.com/tetratelabs/wazero/api"
)

var ctxBG = context.Background()

// implPanic is a recovered panic of the implementation.
type implPanic struct {
	phase string // compile, instantiate, call
	val   string
	site  string // innermost two non-runtime frames, "f<-g"
}

func (p *implPanic) Error() string {
	return fmt.Sprintf("PANIC during %s: %s at %s", p.phase, p.val, p.site)
}

func shortFunc(name string) string {
	if i := strings.LastIndexByte(name, '/'); i >= 0 {
		name = name[i+1:]
	}
	return name
}

// panicSite must be called from the deferred function that recovered.
func panicSite() string {
	pcs := make([]uintptr, 64)
	n := runtime.Callers(2, pcs)
	frames := runtime.CallersFrames(pcs[:n])
	var site []string
	for {
		fr, more := frames.Next()
		fn := fr.Function
		if fn != "" && !strings.HasPrefix(fn, "runtime.") && !strings.HasPrefix(fn, "main.") {
			site = append(site, shortFunc(fn))
			if len(site) == 2 {
				break
			}
		}
		if !more {
			break
		}
	}
	if len(site) == 0 {
		return "?"
	}
	return strings.Join(site, "<-")
}

func recovered(phase string, r any) *implPanic {
	return &implPanic{phase: phase, val: firstLine(fmt.Sprint(r)), site: panicSite()}
}

// compile compiles bin on engine e. A panic becomes an *implPanic error; the runtime is replaced
// afterwards (a panic may have left engine-internal state or locks behind).
func (w *worker) compile(e int, bin []byte) (cm wazero.CompiledModule, err error) {
	defer func() {
		if r := recover(); r != nil {
			cm, err = nil, recovered("compile", r)
			w.renew(e)
		}
	}()
	return w.rt[e].CompileModule(context.Background(), bin)
}

func (w *worker) instantiate(e int, cm wazero.CompiledModule) (mod api.Module, err error) {
	defer func() {
		if r := recover(); r != nil {
			mod, err = nil, recovered("instantiate", r)
		}
	}()
	return w.rt[e].InstantiateModule(context.Background(), cm, wazero.NewModuleConfig().WithName(""))
}

// renew abandons the runtime of engine e and creates a fresh one.
func (w *worker) renew(e int) {
	old := w.rt[e]
	func() {
		defer func() { recover() }()
		old.Close(context.Background())
	}()
	w.rt[e] = wazero.NewRuntimeWithConfig(context.Background(), engineConfig(e))
}

// call invokes fn; a panic escaping the call engine becomes an *implPanic error.
func call(fn api.Function, args ...uint64) (res []uint64, err error) {
	defer func() {
		if r := recover(); r != nil {
			res, err = nil, recovered("call", r)
		}
	}()
	return fn.Call(context.Background(), args...)
}

// errClass is the signature component for a failed phase: "compile" for an ordinary error,
// "compile-panic@<site>" for a recovered panic.
func errClass(phase string, err error) string {
	if p, ok := err.(*implPanic); ok {
		return phase + "-panic@" + p.site
	}
	return phase
}

func errText(phase string, err error) string {
	if p, ok := err.(*implPanic); ok {
		return p.Error()
	}
	return phase + " error: " + firstLine(err.Error())
}
