package main

import (
	"context"
	"encoding/binary"
	"errors"
	"fmt"
	"strings"
	"sync/atomic"

	"github.com/tetratelabs/wazero"
	"github.com/tetratelabs/wazero/api"
	"github.com/tetratelabs/wazero/internal/wasmruntime"
	rs "github.com/tetratelabs/wazero/verif/checks/c05/refsem"
)

var engineNames = []string{"compiler", "interpreter"}

func engineConfig(e int) wazero.RuntimeConfig {
	if e == 0 {
		return wazero.NewRuntimeConfigCompiler()
	}
	return wazero.NewRuntimeConfigInterpreter()
}

// worker owns one runtime per engine.
type worker struct {
	rt [2]wazero.Runtime
}

func newWorker() *worker {
	w := &worker{}
	for e := range w.rt {
		w.rt[e] = wazero.NewRuntimeWithConfig(context.Background(), engineConfig(e))
	}
	return w
}

func (w *worker) close() {
	for _, r := range w.rt {
		r.Close(context.Background())
	}
}

// mismatch is one disagreement between an engine and the reference.
type mismatch struct {
	Op     string   `json:"op"`
	Engine string   `json:"engine"`
	Form   string   `json:"form"`
	In     []string `json:"operands"`
	Got    string   `json:"got"`
	Want   string   `json:"want"`
}

func hexV(t rs.VT, v rs.V) string {
	switch t {
	case rs.I32, rs.F32:
		return fmt.Sprintf("%s:0x%08x", t, uint32(v.Lo))
	case rs.I64, rs.F64:
		return fmt.Sprintf("%s:0x%016x", t, v.Lo)
	}
	return fmt.Sprintf("v128:0x%016x%016x", v.Hi, v.Lo)
}

func wantString(op *rs.Op, r rs.Res) string {
	if r.Trap != rs.TrapNone {
		return "trap(" + r.Trap.String() + ")"
	}
	s := hexV(op.Out, r.V)
	if op.OutF != nil {
		for i, c := range r.NaN {
			switch c {
			case rs.NaNCanon:
				s += fmt.Sprintf(" lane%d=nan:canonical", i)
			case rs.NaNArith:
				s += fmt.Sprintf(" lane%d=nan:arithmetic", i)
			}
		}
	}
	return s
}

// accept decides whether got is an allowed result.
func accept(op *rs.Op, want rs.Res, got rs.V) bool {
	if want.V == got {
		if op.OutF == nil {
			return true
		}
		if want.NaN == [4]rs.NaNClass{} {
			return true
		}
	}
	if op.OutF == nil {
		return false
	}
	f := *op.OutF
	w := f.W()
	n := 1
	if op.Out == rs.V128 {
		n = int(128 / w)
	}
	for i := 0; i < n; i++ {
		if !f.Accept(want.V.Lane(w, i), want.NaN[i], got.Lane(w, i)) {
			return false
		}
	}
	return true
}

func trapOf(err error) (rs.Trap, bool) {
	switch {
	case errors.Is(err, wasmruntime.ErrRuntimeIntegerDivideByZero):
		return rs.TrapDivZero, true
	case errors.Is(err, wasmruntime.ErrRuntimeIntegerOverflow):
		return rs.TrapOverflow, true
	case errors.Is(err, wasmruntime.ErrRuntimeInvalidConversionToInteger):
		return rs.TrapInvalidConv, true
	}
	return 0, false
}

// classify gives the coarse operand class used in violation signatures.
func classify(op *rs.Op, t Tuple) string {
	var parts []string
	for k := range op.In {
		sh := op.Shapes[k]
		x := t[k].Lo
		if isVec(op.In[k]) {
			parts = append(parts, "v")
			continue
		}
		switch sh {
		case rs.SF32, rs.SF64:
			f := rs.B32
			if sh == rs.SF64 {
				f = rs.B64
			}
			if op.In[k] == rs.I32 || op.In[k] == rs.I64 {
				parts = append(parts, "bits")
				continue
			}
			switch {
			case f.IsNaN(x):
				parts = append(parts, "nan")
			case f.IsInf(x):
				parts = append(parts, "inf")
			case f.IsZero(x):
				parts = append(parts, "zero")
			case (x>>f.M)&(1<<f.E-1) == 0:
				parts = append(parts, "subnormal")
			default:
				parts = append(parts, "normal")
			}
		default:
			w := uint(op.In[k].Bytes() * 8)
			switch {
			case x&rs.Mask(w) == 0:
				parts = append(parts, "zero")
			case x&rs.Mask(w) < 2*uint64(w)+2:
				parts = append(parts, "small")
			case rs.Sext(w, x) < 0:
				parts = append(parts, "neg")
			default:
				parts = append(parts, "pos")
			}
		}
	}
	return strings.Join(parts, ",")
}

type stats struct {
	evals     atomic.Int64
	lanes     atomic.Int64
	traps     atomic.Int64
	nanCanon  atomic.Int64
	nanArith  atomic.Int64
	funcs     atomic.Int64
	modules   atomic.Int64
}

// runTask evaluates one operator on both engines in every form and reports disagreements.
type task struct {
	opIdx  int
	op     *rs.Op
	full   []Tuple
	red    []Tuple
	plain  []Form
	consts []Form
	same   []sameForm // forms in which two (or three) operands are the very same value
}

type sameForm struct {
	form   Form
	tuples []Tuple
}

type reporter func(m mismatch, t Tuple, class string)

func putV(buf []byte, t rs.VT, v rs.V) {
	binary.LittleEndian.PutUint64(buf, v.Lo)
	binary.LittleEndian.PutUint64(buf[8:], v.Hi)
}

func getV(buf []byte, t rs.VT) rs.V {
	switch t {
	case rs.I32, rs.F32:
		return rs.V{Lo: uint64(binary.LittleEndian.Uint32(buf))}
	case rs.I64, rs.F64:
		return rs.V{Lo: binary.LittleEndian.Uint64(buf)}
	}
	return rs.V{Lo: binary.LittleEndian.Uint64(buf), Hi: binary.LittleEndian.Uint64(buf[8:])}
}

func laneCount(op *rs.Op) int64 {
	if op.Out == rs.V128 || (len(op.In) > 0 && isVec(op.In[0])) {
		return int64(128 / op.Shapes[0].Bits())
	}
	return 1
}

// session is one operator module compiled and instantiated on both engines.
type session struct {
	w     *worker
	op    *rs.Op
	bm    *builtModule
	forms []Form
	mod   [2]api.Module
	cm    [2]wazero.CompiledModule
	mem   [2][]byte
	st    *stats
	rep   reporter
}

func (w *worker) open(op *rs.Op, forms []Form, redFor func(Form) []Tuple, st *stats, rep reporter) *session {
	ctx := context.Background()
	s := &session{w: w, op: op, forms: forms, st: st, rep: rep}
	s.bm = buildModule(op, forms, redFor)
	st.funcs.Add(int64(s.bm.nfuncs) * 2)
	st.modules.Add(2)
	for e := 0; e < 2; e++ {
		cm, err := w.compile(e, s.bm.bin)
		if err != nil {
			rep(mismatch{Op: op.Name, Engine: engineNames[e], Form: "*", Got: errText("compile", err), Want: "valid module"}, Tuple{}, errClass("compile", err))
			continue
		}
		mod, err := w.instantiate(e, cm)
		if err != nil {
			rep(mismatch{Op: op.Name, Engine: engineNames[e], Form: "*", Got: errText("instantiate", err), Want: "instance"}, Tuple{}, errClass("instantiate", err))
			cm.Close(ctx)
			continue
		}
		mem, ok := mod.Memory().Read(0, memPages*65536)
		if !ok {
			panic("memory view")
		}
		s.cm[e], s.mod[e], s.mem[e] = cm, mod, mem
	}
	return s
}

func (s *session) close() {
	ctx := context.Background()
	for e := 0; e < 2; e++ {
		if s.mod[e] != nil {
			s.mod[e].Close(ctx)
			s.cm[e].Close(ctx)
		}
	}
}

// expect evaluates the reference on every tuple and accounts the outcome classes.
func (s *session) expect(tuples []Tuple) []rs.Res {
	exp := make([]rs.Res, len(tuples))
	var traps, nc, na int64
	for i, t := range tuples {
		r := s.op.Eval(t[0], t[1], t[2])
		exp[i] = r
		if r.Trap != rs.TrapNone {
			traps++
		}
		if s.op.OutF != nil {
			for _, c := range r.NaN {
				if c == rs.NaNCanon {
					nc++
				} else if c == rs.NaNArith {
					na++
				}
			}
		}
	}
	s.st.traps.Add(traps)
	s.st.nanCanon.Add(nc)
	s.st.nanArith.Add(na)
	return exp
}

// run executes the tuples through the given forms on both engines. constList says the tuples
// are the reduced list the module's constant functions were generated from.
func (s *session) run(forms []Form, tuples []Tuple, exp []rs.Res) {
	lc := laneCount(s.op)
	for e := 0; e < 2; e++ {
		if s.mod[e] == nil {
			continue
		}
		for _, form := range forms {
			var idx []uint32
			if form.hasConst() {
				idx = s.bm.idx[form]
				if len(idx) != len(tuples) {
					panic("constant form run with a list other than the reduced list")
				}
			}
			fn := s.mod[e].ExportedFunction("d_" + string(form))
			s.w.runForm(s.op, e, form, fn, s.mem[e], tuples, exp, idx, s.rep)
			s.st.evals.Add(int64(len(tuples)))
			s.st.lanes.Add(int64(len(tuples)) * lc)
		}
	}
}

func (w *worker) runTask(tk *task, st *stats, rep reporter) {
	forms := append(append([]Form{}, tk.plain...), tk.consts...)
	for _, sf := range tk.same {
		forms = append(forms, sf.form)
	}
	s := w.open(tk.op, forms, func(f Form) []Tuple {
		for _, sf := range tk.same {
			if sf.form == f {
				return sf.tuples
			}
		}
		return tk.red
	}, st, rep)
	defer s.close()
	var expFull []rs.Res
	if len(tk.plain) > 0 {
		expFull = s.expect(tk.full)
		s.run(tk.plain, tk.full, expFull)
	}
	if len(tk.consts) > 0 {
		expRed := expFull
		if !(expFull != nil && len(tk.red) == len(tk.full) && len(tk.red) > 0 && &tk.red[0] == &tk.full[0]) {
			expRed = s.expect(tk.red)
		}
		s.run(tk.consts, tk.red, expRed)
	}
	for _, sf := range tk.same {
		s.run([]Form{sf.form}, sf.tuples, s.expect(sf.tuples))
	}
}

func (w *worker) runForm(op *rs.Op, e int, form Form, fn api.Function, mem []byte, tuples []Tuple, exp []rs.Res, idx []uint32, rep reporter) {
	report := func(i int, got string) {
		t := tuples[i]
		m := mismatch{Op: op.Name, Engine: engineNames[e], Form: string(form), Got: got, Want: wantString(op, exp[i])}
		for k, ty := range op.In {
			m.In = append(m.In, hexV(ty, t[k]))
		}
		rep(m, t, classify(op, t))
	}
	load := func(slot int, i int) {
		off := slot * 16
		for k, ty := range op.In {
			if form[k] != 'C' {
				putV(mem[int(inBase(k))+off:], ty, tuples[i][k])
			}
		}
		if idx != nil {
			binary.LittleEndian.PutUint32(mem[idxBase+slot*4:], idx[i])
		}
		// poison the output slot so that a skipped store cannot look like a result
		binary.LittleEndian.PutUint64(mem[outBase+off:], 0xa5a5a5a5a5a5a5a5)
		binary.LittleEndian.PutUint64(mem[outBase+off+8:], 0x5a5a5a5a5a5a5a5a)
	}
	single := func(i int) {
		load(0, i)
		_, err := call(fn, 1)
		want := exp[i]
		if err != nil {
			tr, ok := trapOf(err)
			switch {
			case !ok:
				report(i, "error: "+firstLine(err.Error()))
			case want.Trap != tr:
				report(i, "trap("+tr.String()+")")
			}
			return
		}
		got := getV(mem[outBase:], op.Out)
		if want.Trap != rs.TrapNone {
			report(i, hexV(op.Out, got))
			return
		}
		if !accept(op, want, got) {
			report(i, hexV(op.Out, got))
		}
	}
	var batch []int
	flush := func() {
		if len(batch) == 0 {
			return
		}
		for s, i := range batch {
			load(s, i)
		}
		_, err := call(fn, uint64(len(batch)))
		if err != nil {
			// an unexpected trap somewhere in the batch: locate it tuple by tuple
			for _, i := range batch {
				single(i)
			}
			batch = batch[:0]
			return
		}
		for s, i := range batch {
			got := getV(mem[outBase+s*16:], op.Out)
			if !accept(op, exp[i], got) {
				report(i, hexV(op.Out, got))
			}
		}
		batch = batch[:0]
	}
	for i := range tuples {
		if exp[i].Trap != rs.TrapNone {
			continue
		}
		batch = append(batch, i)
		if len(batch) == chunkN {
			flush()
		}
	}
	flush()
	if op.Partial {
		for i := range tuples {
			if exp[i].Trap != rs.TrapNone {
				single(i)
			}
		}
	}
}

func firstLine(s string) string {
	if i := strings.IndexByte(s, '\n'); i >= 0 {
		return s[:i]
	}
	return s
}
