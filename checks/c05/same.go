package main

import (
	rs "github.com/tetratelabs/wazero/verif/checks/c05/refsem"
)

// "Same value" operand forms. An optimiser may treat op(x, x) specially when both operands are the
// very same SSA value (idempotence, x - x, x == x …), which two distinct but equal values never
// trigger. For every binary instruction with equally typed operands (and select / bitselect with
// two or three equal operands) the second operand is the SAME value as the first:
//   PS  local.get x ; local.get x            TS  local.get x ; local.tee t ; local.get t
//   MS  load ; local.tee t ; local.get t     CS  the same constant twice
// over the single-operand value classes (medium alphabets incl. sNaN / qNaN payloads, ±0, ±inf,
// min / max; all 8-bit values, the 16-bit grid and every lane position for vectors).

func sameValues(t rs.VT, sh rs.Shape) []rs.V {
	var out []rs.V
	if !isVec(t) {
		for _, x := range mediumAlphabet(sh) {
			out = append(out, rs.S(x&rs.Mask(uint(t.Bytes()*8))))
		}
		return out
	}
	w := sh.Bits()
	out = packVectors(w, laneAlphabet(sh, false), allRot(w))
	out = append(out, oneHot1(w, smallAlphabet(sh), []uint64{0, rs.Mask(w)})...)
	if len(out) > 1200 {
		ts := make([]Tuple, len(out))
		for i, v := range out {
			ts[i] = Tuple{v}
		}
		ts = subsample(ts, 1200)
		out = out[:0]
		for _, t := range ts {
			out = append(out, t[0])
		}
	}
	return out
}

func sameFormNames(op *rs.Op) []Form {
	switch {
	case len(op.In) == 2 && op.In[0] == op.In[1]:
		return []Form{"PS", "TS", "MS", "CS"}
	case len(op.In) == 3 && op.In[0] == op.In[1] && op.In[2] == rs.I32: // select with equal arms
		return []Form{"PSP", "TSP", "MSP", "CSP", "CSC"}
	case len(op.In) == 3 && op.In[0] == op.In[1] && op.In[1] == op.In[2]: // bitselect
		return []Form{"PSP", "PPS", "PPU", "PSS", "TSS", "MSS", "CSS", "CSP"}
	}
	return nil
}

func sameForms(op *rs.Op) []sameForm {
	names := sameFormNames(op)
	if names == nil {
		return nil
	}
	vals := sameValues(op.In[0], op.Shapes[0])
	conds := []uint64{0, 1, 0x80000000}
	var out []sameForm
	for _, f := range names {
		var ts []Tuple
		reps := 1
		if len(op.In) == 3 && op.Shapes[2] == rs.SCond {
			reps = len(conds)
		}
		for r := 0; r < reps; r++ {
			for i, v := range vals {
				t := Tuple{v}
				for k := 1; k < len(op.In); k++ {
					switch {
					case f[k] == 'S':
						t[k] = t[0]
					case f[k] == 'U':
						t[k] = t[1]
					case op.Shapes[k] == rs.SCond:
						t[k] = rs.S(conds[r])
					default:
						t[k] = vals[(i*7+3+k)%len(vals)]
					}
				}
				ts = append(ts, t)
			}
		}
		if f.hasConst() {
			ts = subsample(ts, 512)
		}
		out = append(out, sameForm{form: f, tuples: ts})
	}
	return out
}
