package main

// Self-tests of the reference semantics. A failure here is a harness error (the reference is
// wrong), never a verdict about wazero:
//  1. every assert_return / assert_trap of the repository's spec-test JSON whose exported
//     function is "operands ; one numeric instruction" is evaluated with refsem and compared
//     with the expected value recorded by the spec authors (wazero is not executed);
//  2. the soft-float arithmetic is compared with the host FPU (Go float32/float64 operators).

import (
	"encoding/json"
	"fmt"
	"math"
	"os"
	"path/filepath"
	"sort"
	"strconv"
	"strings"

	rs "github.com/tetratelabs/wazero/verif/checks/c05/refsem"
)

// ---------------------------------------------------------------- minimal wasm reader

type rd struct {
	b []byte
	p int
	e bool
}

func (r *rd) u8() byte {
	if r.p >= len(r.b) {
		r.e = true
		return 0
	}
	c := r.b[r.p]
	r.p++
	return c
}
func (r *rd) uleb() uint64 {
	var v uint64
	for s := uint(0); ; s += 7 {
		c := r.u8()
		v |= uint64(c&0x7f) << s
		if c&0x80 == 0 || r.e || s > 63 {
			return v
		}
	}
}
func (r *rd) sleb() int64 {
	var v int64
	var s uint
	for {
		c := r.u8()
		v |= int64(c&0x7f) << s
		s += 7
		if c&0x80 == 0 || r.e || s > 70 {
			if s < 64 && c&0x40 != 0 {
				v |= -1 << s
			}
			return v
		}
	}
}
func (r *rd) bytes(n int) []byte {
	if r.p+n > len(r.b) {
		r.e = true
		return make([]byte, n)
	}
	o := r.b[r.p : r.p+n]
	r.p += n
	return o
}
func (r *rd) name() string { return string(r.bytes(int(r.uleb()))) }

type wfunc struct {
	params, results []byte
	nlocals         int
	body            []byte
}

// parseModule returns export name -> function for exported, locally defined functions.
func parseModule(bin []byte) map[string]*wfunc {
	out := map[string]*wfunc{}
	if len(bin) < 8 {
		return out
	}
	r := &rd{b: bin, p: 8}
	type ft struct{ p, r []byte }
	var types []ft
	var funcTypes []uint32
	nimp := 0
	exports := map[string]uint32{}
	var bodies [][]byte
	var nlocals []int
	for r.p < len(bin) && !r.e {
		id := r.u8()
		size := int(r.uleb())
		sec := &rd{b: r.bytes(size)}
		switch id {
		case 1:
			n := int(sec.uleb())
			for i := 0; i < n; i++ {
				sec.u8()
				p := append([]byte{}, sec.bytes(int(sec.uleb()))...)
				q := append([]byte{}, sec.bytes(int(sec.uleb()))...)
				types = append(types, ft{p, q})
			}
		case 2:
			n := int(sec.uleb())
			for i := 0; i < n; i++ {
				sec.name()
				sec.name()
				switch sec.u8() {
				case 0:
					sec.uleb()
					nimp++
				case 1:
					sec.u8()
					if f := sec.u8(); f&1 != 0 {
						sec.uleb()
						sec.uleb()
					} else {
						sec.uleb()
					}
				case 2:
					if f := sec.u8(); f&1 != 0 {
						sec.uleb()
						sec.uleb()
					} else {
						sec.uleb()
					}
				case 3:
					sec.u8()
					sec.u8()
				}
			}
		case 3:
			n := int(sec.uleb())
			for i := 0; i < n; i++ {
				funcTypes = append(funcTypes, uint32(sec.uleb()))
			}
		case 7:
			n := int(sec.uleb())
			for i := 0; i < n; i++ {
				nm := sec.name()
				k := sec.u8()
				ix := uint32(sec.uleb())
				if k == 0 {
					exports[nm] = ix
				}
			}
		case 10:
			n := int(sec.uleb())
			for i := 0; i < n; i++ {
				sz := int(sec.uleb())
				fb := &rd{b: sec.bytes(sz)}
				ng := int(fb.uleb())
				nl := 0
				for g := 0; g < ng; g++ {
					nl += int(fb.uleb())
					fb.u8()
				}
				bodies = append(bodies, fb.b[fb.p:])
				nlocals = append(nlocals, nl)
			}
		}
		if sec.e {
			return map[string]*wfunc{}
		}
	}
	for nm, ix := range exports {
		li := int(ix) - nimp
		if li < 0 || li >= len(bodies) || li >= len(funcTypes) || int(funcTypes[li]) >= len(types) {
			continue
		}
		t := types[funcTypes[li]]
		out[nm] = &wfunc{params: t.p, results: t.r, nlocals: nlocals[li], body: bodies[li]}
	}
	return out
}

func vtOf(b byte) (rs.VT, bool) {
	switch b {
	case 0x7f:
		return rs.I32, true
	case 0x7e:
		return rs.I64, true
	case 0x7d:
		return rs.F32, true
	case 0x7c:
		return rs.F64, true
	case 0x7b:
		return rs.V128, true
	}
	return 0, false
}

// operand source of a matched function: a parameter index or a constant.
type operandSrc struct {
	param int // -1 = constant
	c     rs.V
}

type matched struct {
	op   *rs.Op
	srcs []operandSrc
}

// matchFunc recognises "push operands ; <one numeric instruction> ; end".
func matchFunc(f *wfunc, byEnc map[string][]*rs.Op) *matched {
	if f.nlocals != 0 || len(f.results) != 1 {
		return nil
	}
	out, ok := vtOf(f.results[0])
	if !ok {
		return nil
	}
	r := &rd{b: f.body}
	var srcs []operandSrc
	var types []rs.VT
pushes:
	for r.p < len(r.b) {
		save := r.p
		switch r.u8() {
		case 0x20:
			k := int(r.uleb())
			if k >= len(f.params) {
				return nil
			}
			t, ok := vtOf(f.params[k])
			if !ok {
				return nil
			}
			srcs = append(srcs, operandSrc{param: k})
			types = append(types, t)
		case 0x41:
			srcs = append(srcs, operandSrc{param: -1, c: rs.S(uint64(uint32(r.sleb())))})
			types = append(types, rs.I32)
		case 0x42:
			srcs = append(srcs, operandSrc{param: -1, c: rs.S(uint64(r.sleb()))})
			types = append(types, rs.I64)
		case 0x43:
			b := r.bytes(4)
			srcs = append(srcs, operandSrc{param: -1, c: rs.S(uint64(b[0]) | uint64(b[1])<<8 | uint64(b[2])<<16 | uint64(b[3])<<24)})
			types = append(types, rs.F32)
		case 0x44:
			srcs = append(srcs, operandSrc{param: -1, c: getV(append(r.bytes(8), make([]byte, 8)...), rs.F64)})
			types = append(types, rs.F64)
		case 0xfd:
			if r.p < len(r.b) && r.b[r.p] == 0x0c {
				r.p++
				srcs = append(srcs, operandSrc{param: -1, c: getV(r.bytes(16), rs.V128)})
				types = append(types, rs.V128)
			} else {
				r.p = save
				break pushes
			}
		default:
			r.p = save
			break pushes
		}
	}
	if r.e || len(r.b) == 0 || r.b[len(r.b)-1] != 0x0b {
		return nil
	}
	enc := string(r.b[r.p : len(r.b)-1])
	for _, op := range byEnc[enc] {
		if op.Out != out || len(op.In) != len(types) {
			continue
		}
		same := true
		for i := range types {
			if op.In[i] != types[i] {
				same = false
			}
		}
		if same {
			return &matched{op, srcs}
		}
	}
	return nil
}

// ---------------------------------------------------------------- spec-test JSON

type stVal struct {
	Type     string          `json:"type"`
	LaneType string          `json:"lane_type"`
	Value    json.RawMessage `json:"value"`
}

type stAction struct {
	Type   string  `json:"type"`
	Field  string  `json:"field"`
	Module string  `json:"module"`
	Args   []stVal `json:"args"`
}

type stCmd struct {
	Type     string    `json:"type"`
	Line     int       `json:"line"`
	Filename string    `json:"filename"`
	Name     string    `json:"name"`
	Action   *stAction `json:"action"`
	Expected []stVal   `json:"expected"`
	Text     string    `json:"text"`
}

// parsed value: bits and, per lane, an optional NaN expectation.
type stParsed struct {
	t     rs.VT
	v     rs.V
	laneW uint
	nan   [16]rs.NaNClass
	ok    bool
}

func parseNum(s string) (uint64, rs.NaNClass, bool) {
	switch s {
	case "nan:canonical":
		return 0, rs.NaNCanon, true
	case "nan:arithmetic":
		return 0, rs.NaNArith, true
	}
	u, err := strconv.ParseUint(s, 10, 64)
	if err != nil {
		i, err2 := strconv.ParseInt(s, 10, 64)
		if err2 != nil {
			return 0, 0, false
		}
		u = uint64(i)
	}
	return u, rs.NotNaN, true
}

func parseVal(v stVal) stParsed {
	var p stParsed
	switch v.Type {
	case "i32":
		p.t, p.laneW = rs.I32, 32
	case "i64":
		p.t, p.laneW = rs.I64, 64
	case "f32":
		p.t, p.laneW = rs.F32, 32
	case "f64":
		p.t, p.laneW = rs.F64, 64
	case "v128":
		p.t = rs.V128
		switch v.LaneType {
		case "i8":
			p.laneW = 8
		case "i16":
			p.laneW = 16
		case "i32", "f32":
			p.laneW = 32
		case "i64", "f64":
			p.laneW = 64
		default:
			return p
		}
		var ss []string
		if json.Unmarshal(v.Value, &ss) != nil || len(ss) != int(128/p.laneW) {
			return p
		}
		for i, s := range ss {
			x, c, ok := parseNum(s)
			if !ok {
				return p
			}
			p.v.SetLane(p.laneW, i, x)
			p.nan[i] = c
		}
		p.ok = true
		return p
	default:
		return p
	}
	var s string
	if json.Unmarshal(v.Value, &s) != nil {
		return p
	}
	x, c, ok := parseNum(s)
	if !ok {
		return p
	}
	p.v = rs.S(x & rs.Mask(p.laneW))
	p.nan[0] = c
	p.ok = true
	return p
}

type specStats struct {
	files, modules, matchedFuncs int
	asserts                      int64
	perOp                        map[string]int
	failures                     []string
}

// specCrossCheck evaluates refsem on the spec-test expectations.
func specCrossCheck(ops []*rs.Op) *specStats {
	st := &specStats{perOp: map[string]int{}}
	byEnc := map[string][]*rs.Op{}
	for _, op := range ops {
		byEnc[string(op.Enc)] = append(byEnc[string(op.Enc)], op)
	}
	for _, dir := range []string{"/repo/internal/integration_test/spectest/v1/testdata", "/repo/internal/integration_test/spectest/v2/testdata"} {
		files, _ := filepath.Glob(filepath.Join(dir, "*.json"))
		sort.Strings(files)
		for _, jf := range files {
			raw, err := os.ReadFile(jf)
			if err != nil {
				continue
			}
			var doc struct {
				Commands []stCmd `json:"commands"`
			}
			if json.Unmarshal(raw, &doc) != nil {
				continue
			}
			st.files++
			var cur map[string]*matched
			named := map[string]map[string]*matched{}
			for _, c := range doc.Commands {
				switch c.Type {
				case "module":
					cur = map[string]*matched{}
					bin, err := os.ReadFile(filepath.Join(dir, c.Filename))
					if err == nil {
						st.modules++
						for nm, f := range parseModule(bin) {
							if m := matchFunc(f, byEnc); m != nil {
								cur[nm] = m
								st.matchedFuncs++
							}
						}
					}
					if c.Name != "" {
						named[c.Name] = cur
					}
				case "assert_return", "assert_trap":
					if c.Action == nil || c.Action.Type != "invoke" {
						continue
					}
					fns := cur
					if c.Action.Module != "" {
						fns = named[c.Action.Module]
					}
					m := fns[c.Action.Field]
					if m == nil {
						continue
					}
					var in [3]rs.V
					good := true
					for k, s := range m.srcs {
						if s.param < 0 {
							in[k] = s.c
							continue
						}
						if s.param >= len(c.Action.Args) {
							good = false
							break
						}
						p := parseVal(c.Action.Args[s.param])
						if !p.ok || p.t != m.op.In[k] {
							good = false
							break
						}
						for _, nc := range p.nan {
							if nc != rs.NotNaN {
								good = false
							}
						}
						in[k] = p.v
					}
					if !good {
						continue
					}
					res := m.op.Eval(in[0], in[1], in[2])
					where := fmt.Sprintf("%s:%d %s(%s)", filepath.Base(jf), c.Line, m.op.Name, fmtIn(m.op, in))
					if c.Type == "assert_trap" {
						st.asserts++
						st.perOp[m.op.Name]++
						if res.Trap == rs.TrapNone || !strings.HasPrefix(c.Text, res.Trap.String()) {
							st.failures = append(st.failures, fmt.Sprintf("%s: spec expects trap %q, refsem gives %s", where, c.Text, wantString(m.op, res)))
						}
						continue
					}
					if len(c.Expected) != 1 {
						continue
					}
					ex := parseVal(c.Expected[0])
					if !ex.ok || ex.t != m.op.Out {
						continue
					}
					st.asserts++
					st.perOp[m.op.Name]++
					if msg := compareSpec(m.op, res, ex); msg != "" {
						st.failures = append(st.failures, where+": "+msg)
					}
				}
			}
		}
	}
	return st
}

func fmtIn(op *rs.Op, in [3]rs.V) string {
	var s []string
	for k, t := range op.In {
		s = append(s, hexV(t, in[k]))
	}
	return strings.Join(s, ", ")
}

func compareSpec(op *rs.Op, res rs.Res, ex stParsed) string {
	if res.Trap != rs.TrapNone {
		return "spec expects a value, refsem traps: " + res.Trap.String()
	}
	anyNaN := false
	for _, c := range ex.nan {
		if c != rs.NotNaN {
			anyNaN = true
		}
	}
	if op.OutF == nil {
		if anyNaN {
			return "spec expects a NaN class for a non-float operator"
		}
		if res.V != ex.v {
			return fmt.Sprintf("spec expects %s, refsem gives %s", hexV(op.Out, ex.v), hexV(op.Out, res.V))
		}
		return ""
	}
	f := *op.OutF
	w := f.W()
	n := 1
	if op.Out == rs.V128 {
		n = int(128 / w)
	}
	if anyNaN && ex.laneW != w {
		return "spec NaN expectation with a lane type of another width"
	}
	for i := 0; i < n; i++ {
		want := ex.v.Lane(w, i)
		var wc rs.NaNClass
		if ex.laneW == w {
			wc = ex.nan[i]
		}
		got, gc := res.V.Lane(w, i), res.NaN[i]
		switch {
		case wc != rs.NotNaN:
			// the set refsem allows must be contained in the set the spec test allows
			// (canonical NaNs are arithmetic NaNs; a few assertions are looser than nans_N{z*})
			ok := gc == wc || (wc == rs.NaNArith && gc == rs.NaNCanon) ||
				(gc == rs.NotNaN && f.Accept(0, wc, got))
			if !ok {
				return fmt.Sprintf("lane %d: spec expects NaN class %d, refsem gives class %d (%s)", i, wc, gc, wantString(op, res))
			}
		case gc != rs.NotNaN:
			// concrete bits expected where the reference allows a class: the bits must be in the class
			if !f.Accept(got, gc, want) {
				return fmt.Sprintf("lane %d: spec expects bits %#x outside the NaN class refsem allows (%s)", i, want, wantString(op, res))
			}
		default:
			if got != want {
				return fmt.Sprintf("lane %d: spec expects %#x, refsem gives %#x", i, want, got)
			}
		}
	}
	return ""
}

// ---------------------------------------------------------------- soft-float against the host FPU

func hwCrossCheck() (n int64, failures []string) {
	fail := func(format string, a ...any) {
		if len(failures) < 20 {
			failures = append(failures, fmt.Sprintf(format, a...))
		}
	}
	cmp32 := func(name string, a, b uint64, got uint64, c rs.NaNClass, hw float32) {
		n++
		h := uint64(math.Float32bits(hw))
		if hw != hw {
			if c == rs.NotNaN { // the host's payload choice is not a reference for the NaN class
				fail("f32.%s(%#x,%#x): host gives NaN %#x, refsem %#x class %d", name, a, b, h, got, c)
			}
			return
		}
		if c != rs.NotNaN || got != h {
			fail("f32.%s(%#x,%#x): host %#x, refsem %#x class %d", name, a, b, h, got, c)
		}
	}
	cmp64 := func(name string, a, b uint64, got uint64, c rs.NaNClass, hw float64) {
		n++
		h := math.Float64bits(hw)
		if hw != hw {
			if c == rs.NotNaN {
				fail("f64.%s(%#x,%#x): host gives NaN %#x, refsem %#x class %d", name, a, b, h, got, c)
			}
			return
		}
		if c != rs.NotNaN || got != h {
			fail("f64.%s(%#x,%#x): host %#x, refsem %#x class %d", name, a, b, h, got, c)
		}
	}
	A32, A64 := floatAlphabet(rs.B32), floatAlphabet(rs.B64)
	// extra operands that exercise alignment / carry / cancellation in the soft-float code
	var x32, x64 []uint64
	for i := uint64(0); i < 400; i++ {
		x32 = append(x32, (i*2654435761+0x3f000000)&0xffffffff, 0x3f800000+i*0x00081001, 0x00000001+i*0x00020003)
		x64 = append(x64, i*0x9e3779b97f4a7c15+0x3ff0000000000000, 0x3ff0000000000000+i*0x0000810010000001, 1+i*0x0000200030000005)
	}
	B32 := append(append([]uint64{}, A32...), x32...)
	B64 := append(append([]uint64{}, A64...), x64...)
	f32 := func(b uint64) float32 { return math.Float32frombits(uint32(b)) }
	f64 := math.Float64frombits
	for _, a := range B32 {
		for _, b := range B32 {
			g, c := rs.B32.Add(a, b)
			cmp32("add", a, b, g, c, f32(a)+f32(b))
			g, c = rs.B32.Sub(a, b)
			cmp32("sub", a, b, g, c, f32(a)-f32(b))
			g, c = rs.B32.Mul(a, b)
			cmp32("mul", a, b, g, c, f32(a)*f32(b))
			g, c = rs.B32.Div(a, b)
			cmp32("div", a, b, g, c, f32(a)/f32(b))
		}
	}
	for _, a := range B64 {
		for _, b := range B64 {
			g, c := rs.B64.Add(a, b)
			cmp64("add", a, b, g, c, f64(a)+f64(b))
			g, c = rs.B64.Sub(a, b)
			cmp64("sub", a, b, g, c, f64(a)-f64(b))
			g, c = rs.B64.Mul(a, b)
			cmp64("mul", a, b, g, c, f64(a)*f64(b))
			g, c = rs.B64.Div(a, b)
			cmp64("div", a, b, g, c, f64(a)/f64(b))
		}
	}
	for _, a := range append(floatExtended(rs.B32), x32...) {
		x := f32(a)
		g, c := rs.B32.Sqrt(a)
		cmp32("sqrt", a, 0, g, c, float32(math.Sqrt(float64(x))))
		g, c = rs.B32.Ceil(a)
		cmp32("ceil", a, 0, g, c, float32(math.Ceil(float64(x))))
		g, c = rs.B32.Floor(a)
		cmp32("floor", a, 0, g, c, float32(math.Floor(float64(x))))
		g, c = rs.B32.Trunc(a)
		cmp32("trunc", a, 0, g, c, float32(math.Trunc(float64(x))))
		g, c = rs.B32.Nearest(a)
		cmp32("nearest", a, 0, g, c, float32(math.RoundToEven(float64(x))))
		g, c = rs.B64.Convert(rs.B32, a)
		cmp64("promote", a, 0, g, c, float64(x))
		if v, tr := rs.B32.TruncToInt(a, 64, true); tr == rs.TrapNone {
			n++
			if int64(v) != int64(x) {
				fail("i64.trunc_f32_s(%#x): host %d refsem %d", a, int64(x), int64(v))
			}
		}
		if v, tr := rs.B32.TruncToInt(a, 32, false); tr == rs.TrapNone {
			n++
			if uint32(v) != uint32(int64(x)) {
				fail("i32.trunc_f32_u(%#x): host %d refsem %d", a, uint32(int64(x)), v)
			}
		}
	}
	for _, a := range append(floatExtended(rs.B64), x64...) {
		x := f64(a)
		g, c := rs.B64.Sqrt(a)
		cmp64("sqrt", a, 0, g, c, math.Sqrt(x))
		g, c = rs.B64.Ceil(a)
		cmp64("ceil", a, 0, g, c, math.Ceil(x))
		g, c = rs.B64.Floor(a)
		cmp64("floor", a, 0, g, c, math.Floor(x))
		g, c = rs.B64.Trunc(a)
		cmp64("trunc", a, 0, g, c, math.Trunc(x))
		g, c = rs.B64.Nearest(a)
		cmp64("nearest", a, 0, g, c, math.RoundToEven(x))
		g, c = rs.B32.Convert(rs.B64, a)
		cmp32("demote", a, 0, g, c, float32(x))
		if v, tr := rs.B64.TruncToInt(a, 64, true); tr == rs.TrapNone {
			n++
			if int64(v) != int64(x) {
				fail("i64.trunc_f64_s(%#x): host %d refsem %d", a, int64(x), int64(v))
			}
		}
		if v, tr := rs.B64.TruncToInt(a, 32, true); tr == rs.TrapNone {
			n++
			if int32(v) != int32(int64(x)) {
				fail("i32.trunc_f64_s(%#x): host %d refsem %d", a, int32(int64(x)), int32(v))
			}
		}
	}
	for _, a := range intExtended(64) {
		n += 4
		if g := rs.B64.ConvertInt(a, 64, true); g != math.Float64bits(float64(int64(a))) {
			fail("f64.convert_i64_s(%#x): host %#x refsem %#x", a, math.Float64bits(float64(int64(a))), g)
		}
		if g := rs.B64.ConvertInt(a, 64, false); g != math.Float64bits(float64(a)) {
			fail("f64.convert_i64_u(%#x): host %#x refsem %#x", a, math.Float64bits(float64(a)), g)
		}
		if g := rs.B32.ConvertInt(a, 64, true); g != uint64(math.Float32bits(float32(int64(a)))) {
			fail("f32.convert_i64_s(%#x): host %#x refsem %#x", a, math.Float32bits(float32(int64(a))), g)
		}
		if g := rs.B32.ConvertInt(a, 64, false); g != uint64(math.Float32bits(float32(a))) {
			fail("f32.convert_i64_u(%#x): host %#x refsem %#x", a, math.Float32bits(float32(a)), g)
		}
	}
	for _, a := range intExtended(32) {
		n += 4
		if g := rs.B64.ConvertInt(a, 32, true); g != math.Float64bits(float64(int32(a))) {
			fail("f64.convert_i32_s(%#x)", a)
		}
		if g := rs.B64.ConvertInt(a, 32, false); g != math.Float64bits(float64(uint32(a))) {
			fail("f64.convert_i32_u(%#x)", a)
		}
		if g := rs.B32.ConvertInt(a, 32, true); g != uint64(math.Float32bits(float32(int32(a)))) {
			fail("f32.convert_i32_s(%#x): refsem %#x", a, g)
		}
		if g := rs.B32.ConvertInt(a, 32, false); g != uint64(math.Float32bits(float32(uint32(a)))) {
			fail("f32.convert_i32_u(%#x): refsem %#x", a, g)
		}
	}
	return
}
