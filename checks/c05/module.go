package main

import (
	"encoding/binary"
	"fmt"

	rs "github.com/tetratelabs/wazero/verif/checks/c05/refsem"
	"github.com/tetratelabs/wazero/verif/wb"
)

// Memory layout of a test module (all arrays have a 16-byte stride).
const (
	chunkN  = 4096
	inBase0 = 0x10000
	inStep  = 0x10000
	outBase = 0x40000
	idxBase = 0x50000
	memPages = 6
)

func inBase(k int) uint32 { return uint32(inBase0 + k*inStep) }

// Form names the source of each operand: P = function parameter, C = constant, M = loaded from
// memory immediately before the instruction, B = result of an `and` instruction.
type Form string

func (f Form) hasConst() bool {
	for _, c := range f {
		if c == 'C' {
			return true
		}
	}
	return false
}

// formsFor enumerates the operand forms of op: every combination of P, C, M per operand, and for
// integer comparisons additionally B (operand produced by an `and`).
func formsFor(op *rs.Op) (plain, consts []Form) {
	arity := len(op.In)
	var all []Form
	var rec func(p string)
	rec = func(p string) {
		if len(p) == arity {
			all = append(all, Form(p))
			return
		}
		srcs := "PCM"
		if isIntCompare(op) {
			srcs = "PCMB"
		}
		for _, c := range srcs {
			rec(p + string(c))
		}
	}
	rec("")
	for _, f := range all {
		if f.hasConst() {
			consts = append(consts, f)
		} else {
			plain = append(plain, f)
		}
	}
	return
}

func wbType(t rs.VT) wb.ValType {
	return [...]wb.ValType{wb.I32, wb.I64, wb.F32, wb.F64, wb.V128}[t]
}

func emitLoad(a *wb.Asm, t rs.VT, off uint32) {
	switch t {
	case rs.I32:
		a.Mem(0x28, 2, uint64(off))
	case rs.I64:
		a.Mem(0x29, 3, uint64(off))
	case rs.F32:
		a.Mem(0x2a, 2, uint64(off))
	case rs.F64:
		a.Mem(0x2b, 3, uint64(off))
	case rs.V128:
		a.SimdMem(0x00, 4, uint64(off))
	}
}

func emitStore(a *wb.Asm, t rs.VT, off uint32) {
	switch t {
	case rs.I32:
		a.Mem(0x36, 2, uint64(off))
	case rs.I64:
		a.Mem(0x37, 3, uint64(off))
	case rs.F32:
		a.Mem(0x38, 2, uint64(off))
	case rs.F64:
		a.Mem(0x39, 3, uint64(off))
	case rs.V128:
		a.SimdMem(0x0b, 4, uint64(off))
	}
}

func emitConst(a *wb.Asm, t rs.VT, v rs.V) {
	switch t {
	case rs.I32:
		a.I32Const(int32(uint32(v.Lo)))
	case rs.I64:
		a.I64Const(int64(v.Lo))
	case rs.F32:
		a.F32Const(uint32(v.Lo))
	case rs.F64:
		a.F64Const(v.Lo)
	case rs.V128:
		a.V128Const(v.Lo, v.Hi)
	}
}

// opFunc builds the body of the function under test for one form; consts supplies the constant operands.
func opFunc(op *rs.Op, form Form, consts Tuple) (params []wb.ValType, body []byte) {
	params, _, body = opFuncL(op, form, consts)
	return
}

// opFuncL additionally returns the locals the body needs. Operand sources: P parameter, C constant,
// M load, B `x & x`, T parameter passed through local.tee, S the SAME value as operand 0, U the same
// value as operand 1 (re-read of the parameter / of the tee'd local, or the same constant again).
func opFuncL(op *rs.Op, form Form, consts Tuple) (params, locals []wb.ValType, body []byte) {
	a := &wb.Asm{}
	a.Raw(op.Pre...)
	nparams := 0
	for k := range op.In {
		switch form[k] {
		case 'P', 'B', 'T', 'M':
			nparams++
		}
	}
	referenced := func(k int) bool {
		for j := k + 1; j < len(op.In); j++ {
			if (form[j] == 'S' && k == 0) || (form[j] == 'U' && k == 1) {
				return true
			}
		}
		return false
	}
	var paramIdx, localIdx [3]uint32
	tee := func(k int, t rs.VT) {
		localIdx[k] = uint32(nparams + len(locals))
		locals = append(locals, wbType(t))
		a.LocalTee(localIdx[k])
	}
	dup := func(r int) {
		switch form[r] {
		case 'P':
			a.LocalGet(paramIdx[r])
		case 'T', 'M':
			a.LocalGet(localIdx[r])
		case 'C':
			emitConst(a, op.In[r], consts[r])
		default:
			panic("opFunc: S/U refers to an operand that cannot be duplicated")
		}
	}
	for k, t := range op.In {
		switch form[k] {
		case 'B': // the operand is the result of an `and` instruction (x & x): backends fuse and+compare+branch
			a.LocalGet(uint32(len(params))).LocalGet(uint32(len(params)))
			if t == rs.I32 {
				a.Op(0x71)
			} else {
				a.Op(0x83)
			}
			params = append(params, wbType(t))
		case 'P':
			paramIdx[k] = uint32(len(params))
			a.LocalGet(paramIdx[k])
			params = append(params, wbType(t))
		case 'T':
			a.LocalGet(uint32(len(params)))
			params = append(params, wbType(t))
			tee(k, t)
		case 'M':
			a.LocalGet(uint32(len(params)))
			emitLoad(a, t, 0)
			params = append(params, wb.I32)
			if referenced(k) {
				tee(k, t)
			}
		case 'C':
			emitConst(a, t, consts[k])
		case 'S':
			dup(0)
		case 'U':
			dup(1)
		}
	}
	a.Raw(op.Enc...)
	return params, locals, a.B
}

// builtModule is a module for one operator: per form a driver "d_<form>"(n) that evaluates
// tuples 0..n-1 of the current chunk and stores the results.
type builtModule struct {
	bin []byte
	// for constant forms: table index of the specialised function for each tuple of the reduced list
	idx map[Form][]uint32
	nfuncs int
}

func constKey(op *rs.Op, form Form, t Tuple) string {
	var b []byte
	for k := range op.In {
		if form[k] == 'C' {
			b = binary.LittleEndian.AppendUint64(b, t[k].Lo)
			b = binary.LittleEndian.AppendUint64(b, t[k].Hi)
		}
	}
	return string(b)
}

func buildModule(op *rs.Op, forms []Form, redFor func(Form) []Tuple) *builtModule {
	m := &wb.Module{}
	m.Mem = &wb.Limits{Min: memPages, Max: memPages, HasMax: true}
	bm := &builtModule{idx: map[Form][]uint32{}}
	var table []uint32
	type drv struct {
		form   Form
		direct uint32
		typ    uint32
	}
	var drvs []drv
	for _, form := range forms {
		if !form.hasConst() {
			params, locals, body := opFuncL(op, form, Tuple{})
			fi := m.AddFunc(params, []wb.ValType{wbType(op.Out)}, locals, body)
			drvs = append(drvs, drv{form: form, direct: fi})
			continue
		}
		red := redFor(form)
		seen := map[string]uint32{}
		idx := make([]uint32, len(red))
		var typ uint32
		for i, t := range red {
			k := constKey(op, form, t)
			ti, ok := seen[k]
			if !ok {
				params, locals, body := opFuncL(op, form, t)
				fi := m.AddFunc(params, []wb.ValType{wbType(op.Out)}, locals, body)
				typ = m.Type(params, []wb.ValType{wbType(op.Out)})
				ti = uint32(len(table))
				table = append(table, fi)
				seen[k] = ti
			}
			idx[i] = ti
		}
		bm.idx[form] = idx
		drvs = append(drvs, drv{form: form, typ: typ})
	}
	if len(table) > 0 {
		m.Tables = []wb.Table{{Elem: wb.FuncRef, Lim: wb.Limits{Min: uint32(len(table))}}}
		m.Elems = []wb.Elem{{Mode: 0, Offset: wb.CI32(0), Funcs: table}}
	}
	for _, d := range drvs {
		// locals: 0 = n (param), 1 = i, 2 = off
		a := &wb.Asm{}
		a.Block(wb.Void)
		a.LocalGet(0).Op(0x45).BrIf(0)
		a.Loop(wb.Void)
		a.LocalGet(1).I32Const(4).Op(0x74).LocalSet(2)
		a.LocalGet(2) // store address
		for k, t := range op.In {
			switch d.form[k] {
			case 'P', 'B', 'T':
				a.LocalGet(2)
				emitLoad(a, t, inBase(k))
			case 'M':
				a.LocalGet(2).I32Const(int32(inBase(k))).Op(0x6a)
			}
		}
		if d.form.hasConst() {
			a.LocalGet(1).I32Const(2).Op(0x74)
			a.Mem(0x28, 2, idxBase)
			a.CallIndirect(d.typ, 0)
		} else {
			a.Call(d.direct)
		}
		emitStore(a, op.Out, outBase)
		a.LocalGet(1).I32Const(1).Op(0x6a).LocalTee(1).LocalGet(0).Op(0x49).BrIf(0)
		a.End()
		a.End()
		fi := m.AddFunc([]wb.ValType{wb.I32}, nil, []wb.ValType{wb.I32, wb.I32}, a.B)
		m.ExportFunc("d_"+string(d.form), fi)
	}
	m.Exports = append(m.Exports, wb.Export{Name: "memory", Kind: wb.KindMemory, Idx: 0})
	bm.bin = m.Encode()
	bm.nfuncs = len(m.Funcs)
	return bm
}

func (f Form) String() string { return string(f) }

var _ = fmt.Sprint
