package main

import (
	"math"
	"sort"

	rs "github.com/tetratelabs/wazero/verif/checks/c05/refsem"
)

// Tuple is one operand tuple (unused operands are zero).
type Tuple [3]rs.V

func dedup(v []uint64) []uint64 {
	seen := map[uint64]bool{}
	var o []uint64
	for _, x := range v {
		if !seen[x] {
			seen[x] = true
			o = append(o, x)
		}
	}
	return o
}

// intAlphabet is the boundary alphabet for w-bit integers (w = 32 or 64): 0, ±1, ±2, small
// signed-division witnesses, min, max, 2^k and 2^k±1 (and their negations) for the byte / half /
// word boundaries, every shift-count boundary 0,1,w-1,w,w+1,2w-1, conversion rounding
// witnesses, and a few bit patterns.
func intAlphabet(w uint) []uint64 {
	m := rs.Mask(w)
	v := []uint64{0, 1, 2, 3, 7, 10, m, m - 1, m - 2, m - 6, // 0, 1, 2, 3, 7, 10, -1, -2, -3, -7
		uint64(1) << (w - 1), (uint64(1) << (w - 1)) + 1, (uint64(1) << (w - 1)) - 1, (uint64(1) << (w - 1)) - 2,
		uint64(w - 1), uint64(w), uint64(w + 1), uint64(2*w - 1), uint64(2 * w)}
	for _, k := range []uint{7, 8, 15, 16, 24, 31, 32, 53, 63} {
		if k >= w {
			continue
		}
		p := uint64(1) << k
		v = append(v, p-1, p, p+1)
		if k == 7 || k == 15 || k == 31 {
			v = append(v, (m-p+1)&m, (m-p)&m, (m-p+2)&m) // -2^k, -2^k-1, -2^k+1
		}
	}
	if w == 32 {
		v = append(v, 0x12345678, 0xdeadbeef, 0x55555555, 0xaaaaaaaa, 0x00ffff00, 0x01000001, 0x01000003, 0xffffff7f, 0xffffff80)
	} else {
		v = append(v, 0x123456789abcdef0, 0xdeadbeefcafebabe, 0x5555555555555555, 0xaaaaaaaaaaaaaaaa,
			0x0020000000000001, 0x0020000000000003, // 2^53+1 (tie), 2^53+3
			0x8000000000000400, 0x8000000000000401, 0x80000000000003ff, 0x8000000000000c00, // f64 rounding ties at 2^63
			0x8000008000000000, 0x8000008000000001, 0x8000018000000000, 0x7fffffbfffffffff, // f32 rounding at 2^63
			0xfffffffffffffbff, 0xfffffffffffffc00, 0xffffff7fffffffff, 0xffffff8000000000, // rounds up to 2^64 or not
			0x7ffffffffffffdff, 0x7ffffffffffffe00)
	}
	for i := range v {
		v[i] &= m
	}
	return dedup(v)
}

// intExtended: the alphabet plus every 1-, 2-bit pattern +/-1 and complement (unary operators only).
func intExtended(w uint) []uint64 {
	m := rs.Mask(w)
	v := append([]uint64{}, intAlphabet(w)...)
	for k := uint(0); k < w; k++ {
		p := uint64(1) << k
		v = append(v, p, p-1, p+1, ^p, 3<<k, ^(uint64(3) << k))
		for j := uint(0); j < k; j++ {
			q := p | uint64(1)<<j
			v = append(v, q, q+1, q-1, (^q+1)&m)
		}
	}
	for i := range v {
		v[i] &= m
	}
	return dedup(v)
}

func fbits(f rs.Format, neg bool, exp uint64, frac uint64) uint64 {
	x := exp<<f.M | frac
	if neg {
		x |= f.SignMask()
	}
	return x
}

func fromFloat(f rs.Format, x float64) uint64 {
	if f == rs.B32 {
		return uint64(math.Float32bits(float32(x))) // only used for exactly representable literals
	}
	return math.Float64bits(x)
}

// floatAlphabet: ±0, subnormals, ±min normal, ±1, ±1.5, ±2.5, ties, 2^23 / 2^24 / 2^52 / 2^53
// neighbours, every integer conversion boundary ±1 ulp (i32/u32/i64/u64), ±max, ±inf and
// canonical / arithmetic / signalling NaNs with payloads.
func floatAlphabet(f rs.Format) []uint64 {
	bias := uint64(1)<<(f.E-1) - 1
	fm := uint64(1)<<f.M - 1
	expAll := uint64(1)<<f.E - 1
	var v []uint64
	pm := func(x uint64) { v = append(v, x, x|f.SignMask()) }
	nb := func(x uint64) { pm(x - 1); pm(x); pm(x + 1) } // value and its two neighbours, both signs
	pm(0)
	pm(1)                 // min subnormal
	pm(fm)                // max subnormal
	pm(fbits(f, false, 1, 0)) // min normal
	pm(fbits(f, false, 1, 1))
	nb(fbits(f, false, bias, 0))    // 1
	pm(fromFloat(f, 1.5))
	pm(fromFloat(f, 2.5))
	pm(fromFloat(f, 3.5))
	nb(fromFloat(f, 0.5))
	pm(fromFloat(f, 0.75))
	pm(fromFloat(f, 0.25))
	pm(fromFloat(f, 2))
	pm(fromFloat(f, 3))
	pm(fromFloat(f, 255.5))
	pm(fromFloat(f, 65535.5))
	for _, k := range []uint64{23, 24, 52, 53} {
		x := fbits(f, false, bias+k, 0)
		v = append(v, x-1, x, x+1, x|f.SignMask())
	}
	for _, k := range []uint64{31, 32, 63, 64} { // integer conversion boundaries
		nb(fbits(f, false, bias+k, 0))
	}
	if f == rs.B64 {
		for _, x := range []float64{2147483647, 2147483647.5, 2147483648.5, -2147483648.5, -2147483649, 4294967295, 4294967295.5,
			-0.9999999999999999, 4294967296.5, 9007199254740993, 16777217, 1e300, 1e-300, 3.4028234663852886e38, 3.4028235677973366e38, // f32 max and the demote overflow tie
			1.401298464324817e-45, 7.006492321624085e-46, 1.1754943508222875e-38, 1.1754942807573643e-38} {
			v = append(v, math.Float64bits(x))
		}
		v = append(v, 0x47efffffefffffff, 0x47effffff0000001, 0x36a0000000000001, 0x369fffffffffffff, 0x3ff0000010000000, 0x3ff0000030000000, 0x3ff0000010000001)
	} else {
		v = append(v, uint64(math.Float32bits(16777216)), uint64(math.Float32bits(0.99999994)), uint64(math.Float32bits(1e30)), uint64(math.Float32bits(1e-30)))
	}
	pm(fbits(f, false, expAll-1, fm)) // max finite
	pm(fbits(f, false, expAll, 0))    // inf
	q := uint64(1) << (f.M - 1)
	pm(fbits(f, false, expAll, q))                      // canonical NaN
	v = append(v, fbits(f, false, expAll, q|1))         // arithmetic NaN with payload
	v = append(v, fbits(f, true, expAll, q|0x12345&fm)) // arithmetic NaN with payload, negative
	v = append(v, fbits(f, false, expAll, fm))          // all-ones payload
	v = append(v, fbits(f, false, expAll, 1))           // signalling NaN, payload 1
	v = append(v, fbits(f, true, expAll, q>>1))         // signalling NaN, negative
	v = append(v, fbits(f, false, expAll, q-1))         // signalling NaN, max payload
	return dedup(v)
}

// floatExtended (unary operators): the alphabet plus, for every exponent, boundary fractions,
// and around the integer range every single-bit / two-bit / all-ones-below fraction (all ties
// and near-ties of the rounding operators and conversions).
func floatExtended(f rs.Format) []uint64 {
	bias := uint64(1)<<(f.E-1) - 1
	fm := uint64(1)<<f.M - 1
	expAll := uint64(1)<<f.E - 1
	v := append([]uint64{}, floatAlphabet(f)...)
	half := uint64(1) << (f.M - 1)
	for e := uint64(0); e <= expAll; e++ {
		for _, fr := range []uint64{0, 1, fm, half, half + 1, half - 1} {
			v = append(v, fbits(f, false, e, fr), fbits(f, true, e, fr))
		}
	}
	for e := bias - 3; e <= bias+uint64(f.M)+2; e++ {
		for k := uint(0); k < f.M; k++ {
			for _, fr := range []uint64{1 << k, 3 << k, (1 << k) - 1, (1 << k) | 1, fm &^ (1 << k), fm &^ ((1 << k) - 1)} {
				v = append(v, fbits(f, false, e, fr&fm), fbits(f, true, e, fr&fm))
			}
		}
	}
	if f == rs.B64 {
		// every f32 exponent with demote rounding ties
		for e := uint64(1023 - 150); e <= 1023+128; e++ {
			for _, fr := range []uint64{1 << 28, 3 << 28, 1<<28 | 1, 1<<28 - 1, 1 << 29, fm, fm &^ (1<<29 - 1), fm &^ (1<<28 - 1)} {
				v = append(v, fbits(f, false, e, fr), fbits(f, true, e, fr))
			}
		}
	}
	return dedup(v)
}

// grid16 is the boundary grid for 16-bit lanes used for binary operators (all pairs).
func grid16() []uint64 {
	var v []uint64
	rg := func(lo, hi uint64) {
		for x := lo; x < hi; x++ {
			v = append(v, x&0xffff)
		}
	}
	rg(0, 32)
	rg(0x78, 0x88)
	rg(0xf8, 0x108)
	rg(0x3ff8, 0x4008)
	rg(0x7fc0, 0x8040)
	rg(0xbff8, 0xc008)
	rg(0xff78, 0xff88)
	rg(0xffe0, 0x10000)
	v = append(v, 0x5555, 0xaaaa, 0x1234, 0xb504, 0x5a82, 0xa57e) // incl. ±sqrt(1/2) in q15
	return dedup(v)
}

func seq(n int) []uint64 {
	v := make([]uint64, n)
	for i := range v {
		v[i] = uint64(i)
	}
	return v
}

// laneAlphabet returns the value list for one lane of the given shape.
func laneAlphabet(sh rs.Shape, extended bool) []uint64 {
	switch sh {
	case rs.SI8:
		return seq(256)
	case rs.SI16:
		if extended {
			return seq(65536)
		}
		return grid16()
	case rs.SI32, rs.SI64:
		if extended {
			return intExtended(sh.Bits())
		}
		return intAlphabet(sh.Bits())
	case rs.SF32:
		if extended {
			return floatExtended(rs.B32)
		}
		return floatAlphabet(rs.B32)
	case rs.SF64:
		if extended {
			return floatExtended(rs.B64)
		}
		return floatAlphabet(rs.B64)
	case rs.SCond:
		return []uint64{0, 1, 2, 0x100, 0x80000000, 0xffffffff}
	}
	panic("laneAlphabet")
}

// mediumAlphabet (thorough tier, scalar binary operators): the alphabet plus, for integers, every
// 2^k, 2^k-1 and -2^k; for floats a spread of exponents x boundary fractions.
func mediumAlphabet(sh rs.Shape) []uint64 {
	v := append([]uint64{}, laneAlphabet(sh, false)...)
	switch sh {
	case rs.SI32, rs.SI64:
		w := sh.Bits()
		m := rs.Mask(w)
		for k := uint(0); k < w; k++ {
			p := uint64(1) << k
			v = append(v, p, p-1, (^p+1)&m, ^p&m)
		}
	case rs.SF32, rs.SF64:
		f := rs.B32
		if sh == rs.SF64 {
			f = rs.B64
		}
		bias := uint64(1)<<(f.E-1) - 1
		fm := uint64(1)<<f.M - 1
		exps := []uint64{0, 1, 2, bias - uint64(f.M) - 1, bias - uint64(f.M), bias - 2, bias - 1, bias, bias + 1, bias + 2, bias + uint64(f.M) - 1, bias + uint64(f.M), bias + uint64(f.M) + 1,
			bias + 30, bias + 31, bias + 32, bias + 62, bias + 63, bias + 64, 2*bias - 1, 2 * bias, bias / 2, bias + bias/2}
		for _, e := range exps {
			for _, fr := range []uint64{0, 1, fm, uint64(1) << (f.M - 1), uint64(1)<<(f.M-1) | 1, fm >> 1} {
				v = append(v, fbits(f, false, e, fr), fbits(f, true, e, fr))
			}
		}
	}
	return dedup(v)
}

// smallAlphabet: a subset of about a dozen values (used for the distinguished lane in
// one-hot vectors of binary operators and for ternary operators).
func smallAlphabet(sh rs.Shape) []uint64 {
	w := sh.Bits()
	m := rs.Mask(w)
	switch sh {
	case rs.SF32, rs.SF64:
		f := rs.B32
		if sh == rs.SF64 {
			f = rs.B64
		}
		return []uint64{0, f.SignMask(), fromFloat(f, 1), fromFloat(f, -1), fromFloat(f, 0.5), fromFloat(f, -2.5), 1, f.Inf(), f.Inf() | f.SignMask(),
			f.CanonNaN(), f.CanonNaN() | f.SignMask() | 5, f.Inf() | 1, f.Inf() - 1, fbits(f, false, (uint64(1)<<(f.E-1)-1)+31, 0)}
	}
	return []uint64{0, 1, 2, m, m - 1, uint64(1) << (w - 1), uint64(1)<<(w-1) - 1, uint64(1)<<(w-1) + 1, 0x55 & m, uint64(w), uint64(w - 1), m >> (w / 2), (m >> (w / 2)) + 1}
}

func countAlphabet(w uint) []uint64 {
	var v []uint64
	for i := uint64(0); i <= uint64(2*w+1); i++ {
		v = append(v, i)
	}
	v = append(v, 0x100, 0x107, 0x80000000, 0xffffffff, 0xfffffff9, 0x7fffffff)
	return dedup(v)
}

// packVectors places vals into lanes: vector j, lane l holds vals[(j*L + (l+r) mod L) mod n].
func packVectors(w uint, vals []uint64, rotations []int) []rs.V {
	L := int(128 / w)
	n := len(vals)
	nv := (n + L - 1) / L
	var out []rs.V
	for _, r := range rotations {
		for j := 0; j < nv; j++ {
			var v rs.V
			for l := 0; l < L; l++ {
				v.SetLane(w, l, vals[(j*L+(l+r)%L)%n])
			}
			out = append(out, v)
		}
	}
	return out
}

// packPairs is packVectors for the pair list pair(0..n-1).
func packPairs(w uint, n int, pair func(i int) (uint64, uint64), rotations []int) []Tuple {
	L := int(128 / w)
	nv := (n + L - 1) / L
	out := make([]Tuple, 0, nv*len(rotations))
	for _, r := range rotations {
		for j := 0; j < nv; j++ {
			var t Tuple
			for l := 0; l < L; l++ {
				x, y := pair((j*L + (l+r)%L) % n)
				t[0].SetLane(w, l, x)
				t[1].SetLane(w, l, y)
			}
			out = append(out, t)
		}
	}
	return out
}

func splatV(w uint, x uint64) rs.V {
	var v rs.V
	for l := 0; l < int(128/w); l++ {
		v.SetLane(w, l, x)
	}
	return v
}

// oneHot1: default value in every lane except lane l which carries x (every l, every x, each default).
func oneHot1(w uint, vals []uint64, defaults []uint64) []rs.V {
	var out []rs.V
	for _, d := range defaults {
		for l := 0; l < int(128/w); l++ {
			for _, x := range vals {
				v := splatV(w, d)
				v.SetLane(w, l, x)
				out = append(out, v)
			}
		}
	}
	return out
}

func oneHot2(w uint, xs, ys []uint64, defaults [][2]uint64) []Tuple {
	var out []Tuple
	for _, d := range defaults {
		for l := 0; l < int(128/w); l++ {
			for _, x := range xs {
				for _, y := range ys {
					t := Tuple{splatV(w, d[0]), splatV(w, d[1])}
					t[0].SetLane(w, l, x)
					t[1].SetLane(w, l, y)
					out = append(out, t)
				}
			}
		}
	}
	return out
}

func allRot(w uint) []int {
	r := make([]int, 128/w)
	for i := range r {
		r[i] = i
	}
	return r
}

func subsample(ts []Tuple, max int) []Tuple {
	if len(ts) <= max {
		return ts
	}
	out := make([]Tuple, 0, max)
	for i := 0; i < max; i++ {
		out = append(out, ts[int(int64(i)*int64(len(ts))/int64(max))])
	}
	return out
}

type enumInfo struct {
	Kind string // description of the enumeration used (goes into the evidence bounds)
}

func isVec(t rs.VT) bool { return t == rs.V128 }

// genTuples returns the operand tuples for op: `full` is run through every operand form without
// constants, `red` (a subset-sized list) through the forms with constant operands, where every
// distinct constant needs its own function.
func genTuples(op *rs.Op, thorough bool) (full, red []Tuple, kind string) {
	sh := op.Shapes
	ar := len(op.In)
	scalarOnly := true
	for _, t := range op.In {
		if isVec(t) {
			scalarOnly = false
		}
	}
	redCap := 384
	if thorough {
		redCap = 2048
	}
	switch {
	case scalarOnly && ar == 1:
		for _, x := range laneAlphabet(sh[0], true) {
			full = append(full, Tuple{rs.S(x)})
		}
		cap1 := 1500
		if thorough {
			cap1 = 20000
		}
		red = append([]Tuple{}, full[:len(laneAlphabet(sh[0], false))]...) // the alphabet comes first in the extended list
		red = append(red, subsample(full[len(red):], cap1)...)
		return full, red, "scalar-unary:extended-alphabet"
	case scalarOnly && ar == 2:
		A, B := laneAlphabet(sh[0], false), laneAlphabet(sh[1], false)
		for _, x := range A {
			for _, y := range B {
				full = append(full, Tuple{rs.S(x), rs.S(y)})
			}
		}
		if thorough {
			// plain forms: all pairs of the medium alphabet; constant forms: all pairs of the alphabet
			red = full
			full = nil
			A, B = mediumAlphabet(sh[0]), mediumAlphabet(sh[1])
			for _, x := range A {
				for _, y := range B {
					full = append(full, Tuple{rs.S(x), rs.S(y)})
				}
			}
			return full, red, "scalar-binary:medium-alphabet-all-pairs"
		}
		return full, full, "scalar-binary:alphabet-all-pairs"
	case scalarOnly && ar == 3: // select
		A := smallAlphabet(sh[0])
		for _, x := range A {
			for _, y := range A {
				for _, c := range laneAlphabet(rs.SCond, false) {
					full = append(full, Tuple{rs.S(x), rs.S(y), rs.S(c)})
				}
			}
		}
		return full, subsample(full, redCap), "scalar-ternary:small-alphabet-all-triples"
	}
	w := sh[0].Bits()
	rots := allRot(w)
	switch {
	case ar == 1: // v128 -> x
		vals := laneAlphabet(sh[0], true)
		r := rots
		if sh[0] == rs.SI16 && !thorough {
			r = []int{0, 3}
		}
		vs := packVectors(w, vals, r)
		small := laneAlphabet(sh[0], false)
		vs = append(vs, oneHot1(w, small, []uint64{0, rs.Mask(w), 1})...)
		for _, v := range vs {
			full = append(full, Tuple{v})
		}
		kind = "vector-unary:exhaustive-or-extended-lanes+one-hot"
	case ar == 2 && isVec(op.In[1]):
		switch sh[0] {
		case rs.SI8:
			r := rots
			if len(op.Name) > 13 && op.Name[:13] == "i8x16.shuffle" && !thorough {
				r = []int{0, 5}
			}
			full = packPairs(8, 65536, func(p int) (uint64, uint64) {
				x := uint64(p & 0xff)
				return x, (uint64(p>>8) + 37*x) & 0xff
			}, r)
			kind = "vector-binary:8-bit-exhaustive-pairs"
		case rs.SI16:
			g := grid16()
			r := rots
			if !thorough {
				r = []int{0, 5}
			}
			n := len(g)
			full = packPairs(16, n*n, func(p int) (uint64, uint64) { return g[p%n], g[(p/n+p%n*7)%n] }, r)
			kind = "vector-binary:16-bit-grid-all-pairs"
		default:
			A := laneAlphabet(sh[0], false)
			n := len(A)
			full = packPairs(w, n*n, func(p int) (uint64, uint64) { return A[p%n], A[(p/n+p%n*5)%n] }, rots)
			kind = "vector-binary:alphabet-all-pairs"
		}
		sm := smallAlphabet(sh[0])
		full = append(full, oneHot2(w, sm, sm, [][2]uint64{{0, 0}, {rs.Mask(w), 1}})...)
	case ar == 2 && sh[1] == rs.SCount: // vector shift
		vals := laneAlphabet(sh[0], false)
		if thorough && sh[0] == rs.SI16 {
			vals = laneAlphabet(sh[0], true)
		}
		r := rots
		if len(vals) > 4096 {
			r = []int{0}
		}
		vs := packVectors(w, vals, r)
		for _, c := range countAlphabet(w) {
			for _, v := range vs {
				full = append(full, Tuple{v, rs.S(c)})
			}
		}
		kind = "vector-shift:lane-alphabet-x-all-counts"
	case ar == 2: // replace_lane: v128, scalar
		vs := packVectors(w, smallAlphabet(sh[0]), rots)
		for _, y := range laneAlphabet(sh[1], false) {
			for _, v := range vs {
				full = append(full, Tuple{v, rs.S(y)})
			}
		}
		kind = "vector-replace-lane:small-vectors-x-scalar-alphabet"
	case ar == 3 && isVec(op.In[2]): // bitselect
		for _, cr := range []int{0, 1, 2} {
			ts := packPairs(8, 65536, func(p int) (uint64, uint64) {
				x := uint64(p & 0xff)
				return x, (uint64(p>>8) + 37*x) & 0xff
			}, []int{cr * 5})
			for i := range ts {
				for l := 0; l < 16; l++ {
					x, y := ts[i][0].Byte(l), ts[i][1].Byte(l)
					ts[i][2].SetLane(8, l, (x*5+y*3+uint64(l)*uint64(cr*7+1)+uint64(i))&0xff)
				}
			}
			full = append(full, ts...)
		}
		for _, c := range []uint64{0, 0xff, 0x0f, 0x80} {
			full = append(full, Tuple{splatV(8, 0xa5), splatV(8, 0x3c), splatV(8, c)})
		}
		kind = "vector-ternary:8-bit-exhaustive-pairs-x-derived-mask"
	case ar == 3: // v128 select
		vs := packVectors(w, smallAlphabet(sh[0]), rots)
		for i, a := range vs {
			b := vs[(i+3)%len(vs)]
			for _, c := range laneAlphabet(rs.SCond, false) {
				full = append(full, Tuple{a, b, rs.S(c)})
			}
		}
		kind = "vector-select:small-vectors-x-conditions"
	}
	// reduced list for the constant forms: special vectors first, then an even subsample
	var sp []Tuple
	for _, d := range []uint64{0, rs.Mask(w)} {
		t := Tuple{}
		for k := 0; k < ar; k++ {
			if isVec(op.In[k]) {
				t[k] = splatV(w, d)
			} else {
				t[k] = rs.S(d & rs.Mask(uint(op.In[k].Bytes()*8)))
			}
		}
		sp = append(sp, t)
	}
	red = append(sp, subsample(full, redCap)...)
	if ar == 2 && sh[1] == rs.SCount {
		// every count must appear as a constant (immediate shift forms)
		cs := countAlphabet(w)
		vs := packVectors(w, smallAlphabet(sh[0]), []int{0, 1})
		for _, c := range cs {
			for _, v := range vs {
				red = append(red, Tuple{v, rs.S(c)})
			}
		}
	}
	return full, red, kind
}

// hashTuples counts distinct tuples (measured) via sorted 64-bit FNV hashes.
func distinctCount(opIdx int, lists ...[]Tuple) (distinct, nontrivial int64) {
	var hs []uint64
	for _, l := range lists {
		for _, t := range l {
			h := uint64(14695981039346656037) ^ uint64(opIdx)
			nz := false
			for k := 0; k < 3; k++ {
				for _, x := range [2]uint64{t[k].Lo, t[k].Hi} {
					if x != 0 {
						nz = true
					}
					for b := 0; b < 8; b++ {
						h ^= (x >> (8 * uint(b))) & 0xff
						h *= 1099511628211
					}
				}
			}
			if nz {
				hs = append(hs, h|1)
			} else {
				hs = append(hs, h&^1)
			}
		}
	}
	sort.Slice(hs, func(i, j int) bool { return hs[i] < hs[j] })
	for i, h := range hs {
		if i > 0 && h == hs[i-1] {
			continue
		}
		distinct++
		if h&1 == 1 {
			nontrivial++
		}
	}
	return
}
