// C05 — numeric instructions compute the specified function.
//
// Every numeric opcode (scalar and v128) x operand form {parameter, constant, memory operand}
// x operand values from exhaustive / boundary enumerations is executed on BOTH engines inside
// batched modules; every result is compared with `refsem`, an independent reference semantics
// written from the specification (integer semantics with math/bits, soft-float with explicit
// IEEE-754 classification and rounding, vectors as lane-wise scalar definitions). Because each
// engine is compared with the reference, an error shared by both engines is caught too.
package main

import (
	"encoding/json"
	"fmt"
	"os"
	"runtime"
	"sort"
	"strconv"
	"strings"
	"sync"
	"time"

	rs "github.com/tetratelabs/wazero/verif/checks/c05/refsem"
	"github.com/tetratelabs/wazero/verif/fw"
)

type replayCase struct {
	Op       string      `json:"op"`
	Op2      string      `json:"op2,omitempty"` // pair family: second instruction of the function (operands: op's then op2's)
	Engine   string      `json:"engine"`
	Form     string      `json:"form"`
	Operands [][2]string `json:"operands"` // lo, hi (hex)
	Got      string      `json:"got"`
	Want     string      `json:"want"`
	// register-position family
	N     int   `json:"n,omitempty"`
	Mixed bool  `json:"mixed,omitempty"`
	Pos   []int `json:"pos,omitempty"`
	Seed  int   `json:"seed,omitempty"` // tuple index (selects the filler values of the other parameters)
	// sibling family: module(Op, layout L1) built over the layout set Lays; Pos[0] = function index, Seed = tuple index
	L1   int   `json:"l1,omitempty"`
	Lays []int `json:"lays,omitempty"`
}

func toReplay(m mismatch, t Tuple, n int) replayCase {
	r := replayCase{Op: m.Op, Engine: m.Engine, Form: m.Form, Got: m.Got, Want: m.Want}
	for k := 0; k < n; k++ {
		r.Operands = append(r.Operands, [2]string{fmt.Sprintf("%#x", t[k].Lo), fmt.Sprintf("%#x", t[k].Hi)})
	}
	return r
}

func opCategory(op *rs.Op) string {
	n := op.Name
	if i := strings.IndexByte(n, '/'); i >= 0 {
		n = n[:i]
	}
	return n
}

func doReplay(path string, ops []*rs.Op) {
	raw, err := os.ReadFile(path)
	if err != nil {
		fw.Fatalf("replay: %v", err)
	}
	var doc struct {
		Replay replayCase `json:"replay"`
	}
	if err := json.Unmarshal(raw, &doc); err != nil {
		fw.Fatalf("replay: %v", err)
	}
	rc := doc.Replay
	var op *rs.Op
	for _, o := range ops {
		if o.Name == rc.Op {
			op = o
		}
	}
	if op == nil {
		fw.Fatalf("replay: unknown op %q", rc.Op)
	}
	if rc.Form == "regpos" {
		replayRegpos(rc, op)
	}
	if rc.Form == "chain" || rc.Form == "raw" {
		replayChain(rc, op, ops)
	}
	if rc.Form == "sibling" {
		replaySibling(rc, op, ops)
	}
	if rc.Op2 != "" {
		replayPair(rc, op, ops)
	}
	var t Tuple
	for k, o := range rc.Operands {
		lo, _ := strconv.ParseUint(strings.TrimPrefix(o[0], "0x"), 16, 64)
		hi, _ := strconv.ParseUint(strings.TrimPrefix(o[1], "0x"), 16, 64)
		t[k] = rs.V{Lo: lo, Hi: hi}
	}
	form := Form(rc.Form)
	if len(form) != len(op.In) {
		fw.Fatalf("replay: form %q does not fit %s", form, op.Name)
	}
	tk := &task{op: op}
	if form.hasConst() {
		tk.red, tk.consts = []Tuple{t}, []Form{form}
	} else {
		tk.full, tk.plain = []Tuple{t}, []Form{form}
	}
	w := newWorker()
	defer w.close()
	failed := false
	want := op.Eval(t[0], t[1], t[2])
	fmt.Printf("replay %s form=%s operands=%s\n  reference: %s\n", op.Name, form, fmtIn(op, t), wantString(op, want))
	w.runTask(tk, &stats{}, func(m mismatch, _ Tuple, _ string) {
		fmt.Printf("  %s: got %s (MISMATCH)\n", m.Engine, m.Got)
		if rc.Engine == "" || rc.Engine == m.Engine {
			failed = true
		}
	})
	if failed {
		fmt.Println("replay: still fails")
		os.Exit(1)
	}
	fmt.Println("replay: both engines agree with the reference")
	os.Exit(0)
}

func main() {
	run := fw.Start("C05", "exploration")
	ops := withConsumers(rs.Ops())
	if len(os.Args) > 2 && os.Args[1] == "replay" {
		doReplay(os.Args[2], ops)
	}
	t0 := time.Now()

	// ---- self-tests of the reference (harness errors, not verdicts)
	var spec *specStats
	var hwN int64
	var hwFail []string
	var wg sync.WaitGroup
	wg.Add(2)
	go func() { defer wg.Done(); spec = specCrossCheck(ops) }()
	go func() { defer wg.Done(); hwN, hwFail = hwCrossCheck() }()
	wg.Wait()
	if len(spec.failures) > 0 {
		for i, f := range spec.failures {
			if i < 25 {
				fmt.Fprintln(os.Stderr, "refsem vs spec-test:", f)
			}
		}
		fw.Fatalf("refsem self-test: %d disagreements with the spec-test expectations", len(spec.failures))
	}
	if len(hwFail) > 0 {
		for _, f := range hwFail {
			fmt.Fprintln(os.Stderr, "refsem vs host FPU:", f)
		}
		fw.Fatalf("refsem self-test: soft-float disagrees with the host FPU")
	}
	if spec.asserts < 20000 {
		fw.Fatalf("refsem self-test: only %d spec-test assertions matched (spec-test data missing?)", spec.asserts)
	}
	selfS := time.Since(t0).Seconds()

	// ---- tasks
	type job struct {
		idx  int
		op   *rs.Op
		cost int
	}
	var jobs []job
	only := os.Getenv("C05_ONLY") // debugging aid: restrict to instructions whose name contains the string
	if only != "" {
		run.Capped("C05_ONLY filter (debug run)")
	}
	for i, op := range ops {
		if only != "" && !strings.Contains(op.Name, only) {
			continue
		}
		jobs = append(jobs, job{idx: i, op: op})
	}
	// rough cost order (big first) so that the pool drains evenly
	for i := range jobs {
		op := jobs[i].op
		c := 1
		if len(op.In) > 0 && isVec(op.In[0]) {
			c = 10
			if op.Shapes[0] == rs.SI8 || op.Shapes[0] == rs.SI16 {
				c = 100
			}
		}
		c *= len(op.In)
		jobs[i].cost = c
	}
	sort.SliceStable(jobs, func(a, b int) bool { return jobs[a].cost > jobs[b].cost })

	nw := runtime.NumCPU()
	pool := make(chan *worker, nw)
	for i := 0; i < nw; i++ {
		pool <- newWorker()
	}
	st := &stats{}
	outcomes := fw.NewCounter()
	samples := fw.NewSampler(16)
	var mu sync.Mutex
	kinds := map[string]map[string]int64{}
	var distinct, nontriv int64
	formsSeen := map[string]int64{}
	perOpEvals := map[string]int64{}
	violOps := map[string]bool{}

	fw.Parallel(len(jobs), nw, func(j int) {
		if run.Expired() {
			run.Capped("budget")
			return
		}
		jb := jobs[j]
		op := jb.op
		w := <-pool
		defer func() { pool <- w }()
		full, red, kind := genTuples(op, run.Thorough())
		plain, consts := formsFor(op)
		tk := &task{opIdx: jb.idx, op: op, full: full, red: red, plain: plain, consts: consts, same: sameForms(op)}
		tStart := time.Now()
		defer func() {
			if os.Getenv("C05_TIMING") != "" {
				fmt.Fprintf(os.Stderr, "TIMING %8.3fs start=%7.3f %s full=%d red=%d\n", time.Since(tStart).Seconds(), tStart.Sub(t0).Seconds(), op.Name, len(full), len(red))
			}
		}()
		w.runTask(tk, st, func(m mismatch, t Tuple, class string) {
			sig := signature(op, m, t, class)
			what := fmt.Sprintf("%s on the %s engine, operand form %s, operands [%s]: got %s, specification gives %s",
				m.Op, m.Engine, m.Form, strings.Join(m.In, ", "), m.Got, m.Want)
			run.Violation(sig, what, toReplay(m, t, len(op.In)))
			mu.Lock()
			violOps[m.Op+"@"+m.Engine] = true
			mu.Unlock()
			outcomes.Inc("mismatch")
		})
		var d, nt int64
		lists := [][]Tuple{full}
		if !(len(red) > 0 && len(full) > 0 && &red[0] == &full[0]) {
			lists = append(lists, red)
		}
		var sameEv int64
		for _, sf := range tk.same {
			lists = append(lists, sf.tuples)
			sameEv += int64(len(sf.tuples)) * 2
		}
		d, nt = distinctCount(jb.idx, lists...)
		ev := int64(len(full)*len(plain)+len(red)*len(consts))*2 + sameEv
		mu.Lock()
		distinct += d
		nontriv += nt
		k := kinds[kind]
		if k == nil {
			k = map[string]int64{}
			kinds[kind] = k
		}
		k["ops"]++
		k["tuples_plain_forms"] += int64(len(full))
		k["tuples_const_forms"] += int64(len(red))
		for _, f := range plain {
			formsSeen[string(f)] += int64(len(full)) * 2
		}
		for _, f := range consts {
			formsSeen[string(f)] += int64(len(red)) * 2
		}
		for _, sf := range tk.same {
			formsSeen[string(sf.form)] += int64(len(sf.tuples)) * 2
			k["tuples_same_value_forms"] += int64(len(sf.tuples))
		}
		perOpEvals[opCategory(op)] += ev
		mu.Unlock()
		if len(full) > 0 {
			t := full[len(full)/3]
			samples.Add(map[string]any{"op": op.Name, "operands": fmtIn(op, t), "reference": wantString(op, op.Eval(t[0], t[1], t[2])), "forms": len(plain) + len(consts)})
		}
	})
	// ---- pairs of instructions in one function (shared per-function compiler state)
	pairStats := map[string]int64{}
	if only == "" || os.Getenv("C05_PAIRS") != "" {
		pops := buildPairOps(ops)
		if only != "" {
			var f []*pairOp
			for _, p := range pops {
				if strings.Contains(p.op.Name, only) {
					f = append(f, p)
				}
			}
			pops = f
		}
		pairStats["instructions"] = int64(len(pops))
		for _, p := range pops {
			pairStats["reduced_tuples_total"] += int64(len(p.tuples))
		}
		fw.Parallel(len(pops), nw, func(i int) {
			if run.Expired() {
				run.Capped("budget (pairs)")
				return
			}
			w := <-pool
			defer func() { pool <- w }()
			a := pops[i]
			calls := w.runPairs(a, pops, st, func(pm pairMismatch) {
				sig := fmt.Sprintf("pair:%s|%s:%s:%s", pm.A.op.Name, pm.B.op.Name, engineNames[pm.engine], pm.which)
				rc := replayCase{Op: pm.A.op.Name, Op2: pm.B.op.Name, Engine: engineNames[pm.engine], Form: "pair", Got: pm.got, Want: pm.wantText}
				if pm.which == "first" || pm.which == "second" {
					ta, tb := pm.A.tuples[pm.ia], pm.B.tuples[pm.ib]
					for k := range pm.A.op.In {
						rc.Operands = append(rc.Operands, [2]string{fmt.Sprintf("%#x", ta[k].Lo), fmt.Sprintf("%#x", ta[k].Hi)})
					}
					for k := range pm.B.op.In {
						rc.Operands = append(rc.Operands, [2]string{fmt.Sprintf("%#x", tb[k].Lo), fmt.Sprintf("%#x", tb[k].Hi)})
					}
				}
				run.Violation(sig, pm.text(), rc)
				outcomes.Inc("mismatch")
			})
			mu.Lock()
			pairStats["ordered_pairs"] += int64(len(pops))
			pairStats["function_executions"] += calls
			// every (pair, slot) is a distinct case by construction (distinct operand tuples per instruction)
			distinct += calls / 2
			nontriv += calls / 2
			formsSeen["pair"] += 2 * calls
			mu.Unlock()
		})
		if len(pops) > 2 {
			a, b := pops[len(pops)/3], pops[2*len(pops)/3]
			samples.Add(map[string]any{"pair": []string{a.op.Name, b.op.Name}, "operands_first": fmtIn(a.op, a.tuples[0]), "operands_second": fmtIn(b.op, b.tuples[0]),
				"reference": []string{wantString(a.op, a.exp[0]), wantString(b.op, b.exp[0])}})
		}
	}
	// ---- sibling functions of one module (compiler state surviving the per-function reset)
	sibStats := map[string]int64{}
	if only == "" || os.Getenv("C05_SIBLINGS") != "" {
		pops := buildPairOps(ops)
		heads := pops
		if only != "" {
			heads = nil
			for _, p := range pops {
				if strings.Contains(p.op.Name, only) {
					heads = append(heads, p)
				}
			}
		}
		lays := sibLayoutSet(run.Thorough())
		type sibTask struct {
			a  *pairOp
			l1 int
		}
		var tasks []sibTask
		for _, a := range heads {
			for _, l1 := range lays {
				tasks = append(tasks, sibTask{a, l1})
			}
		}
		sibStats["instructions"] = int64(len(pops))
		sibStats["layouts"] = int64(len(lays))
		sibStats["modules"] = int64(len(tasks))
		fw.Parallel(len(tasks), nw, func(i int) {
			if run.Expired() {
				run.Capped("budget (sibling functions)")
				return
			}
			w := <-pool
			defer func() { pool <- w }()
			tk := tasks[i]
			calls, nf := w.runSiblings(tk.a, tk.l1, lays, pops, -1, st, func(sm sibMismatch) {
				rc := replayCase{Op: tk.a.op.Name, Engine: engineNames[sm.engine], Form: "sibling", Got: sm.got, Want: sm.want, L1: tk.l1, Lays: lays, Pos: []int{sm.f}, Seed: sm.it}
				if sm.f >= 0 {
					fn := sm.fns[sm.f]
					rc.Op2 = fn.p.op.Name
					t := fn.p.tuples[sm.it]
					for k := range fn.p.op.In {
						rc.Operands = append(rc.Operands, [2]string{fmt.Sprintf("%#x", t[k].Lo), fmt.Sprintf("%#x", t[k].Hi)})
					}
				}
				run.Violation(sm.sig(), sm.text(), rc)
				outcomes.Inc("mismatch")
			})
			mu.Lock()
			sibStats["functions"] += nf
			sibStats["adjacent_function_pairs"] += nf - 1
			sibStats["function_executions"] += calls
			// every (module, function position, tuple) is a distinct case by construction
			distinct += calls / 2
			nontriv += calls / 2
			formsSeen["sibling"] += calls
			mu.Unlock()
		})
		if len(pops) > 2 {
			a, b := pops[len(pops)/4], pops[3*len(pops)/4]
			samples.Add(map[string]any{"sibling_functions": []string{a.op.Name + "@" + sibLayouts[lays[0]].name, b.op.Name + "@" + sibLayouts[lays[len(lays)-1]].name},
				"operands_later_function": fmtIn(b.op, b.tuples[0]), "reference": wantString(b.op, b.exp[0])})
		}
	}
	// ---- consumer chains (upper half of 64-bit slots) and raw host-API results
	chainStats := map[string]int64{}
	var rawUpperOps [2][]string
	if only == "" || os.Getenv("C05_CHAINS") != "" {
		prods := buildProducers(ops)
		conss := buildConsumers(ops)
		if only != "" {
			var f []*chainProducer
			for _, p := range prods {
				if strings.Contains(p.op.Name, only) {
					f = append(f, p)
				}
			}
			prods = f
		}
		chainStats["producers"] = int64(len(prods))
		chainStats["consumers"] = int64(len(conss))
		fw.Parallel(len(prods), nw, func(i int) {
			if run.Expired() {
				run.Capped("budget (chains)")
				return
			}
			w := <-pool
			defer func() { pool <- w }()
			p := prods[i]
			cc := w.runChains(p, conss, st, func(cm chainMismatch) {
				form, cname := "chain", ""
				if cm.c == nil {
					form = "raw"
				} else {
					cname = cm.c.name
				}
				sig := fmt.Sprintf("%s:%s→%s:%s", form, cm.p.op.Name, cname, engineNames[cm.engine])
				if cm.class != "" {
					sig = fmt.Sprintf("chain:%s:%s:%s", cm.p.op.Name, engineNames[cm.engine], cm.class)
				}
				rc := replayCase{Op: cm.p.op.Name, Op2: cname, Engine: engineNames[cm.engine], Form: form, Got: cm.got, Want: cm.want}
				if len(cm.p.tuples) > cm.it {
					t := cm.p.tuples[cm.it]
					for k := range cm.p.op.In {
						rc.Operands = append(rc.Operands, [2]string{fmt.Sprintf("%#x", t[k].Lo), fmt.Sprintf("%#x", t[k].Hi)})
					}
					rc.Operands = append(rc.Operands, [2]string{fmt.Sprintf("%#x", cm.z), "0x0"})
				}
				run.Violation(sig, cm.text(), rc)
				outcomes.Inc("mismatch")
			})
			mu.Lock()
			chainStats["functions"] += int64(len(consumersFor(p.op, conss)))
			chainStats["producer_tuples"] += int64(len(p.tuples))
			chainStats["chain_executions"] += cc.execs
			chainStats["raw_calls"] += cc.rawCalls
			for e := 0; e < 2; e++ {
				if cc.rawUpper[e] > 0 {
					rawUpperOps[e] = append(rawUpperOps[e], p.op.Name)
				}
			}
			chainStats["raw_call_upper_half_nonzero_compiler"] += cc.rawUpper[0]
			chainStats["raw_call_upper_half_nonzero_interpreter"] += cc.rawUpper[1]
			distinct += cc.execs / 2
			nontriv += cc.execs / 2
			formsSeen["chain"] += cc.execs
			formsSeen["raw"] += cc.rawCalls
			mu.Unlock()
		})
		// informational outcomes (not verdicts): what the host API hands back in the upper half of an i32/f32 result
		outcomes.AddN("raw_call_i32_f32_result_upper_half_zero", chainStats["raw_calls"]-chainStats["raw_call_upper_half_nonzero_compiler"]-chainStats["raw_call_upper_half_nonzero_interpreter"])
		if n := chainStats["raw_call_upper_half_nonzero_interpreter"]; n > 0 {
			outcomes.AddN("raw_call_i32_f32_result_upper_half_NONZERO:interpreter(informational)", n)
			run.Note("interpreter: %d raw api.Function.Call results of type i32/f32 carry non-zero bits in the upper half of the uint64 (informational)", n)
		}
		if n := chainStats["raw_call_upper_half_nonzero_compiler"]; n > 0 {
			outcomes.AddN("raw_call_i32_f32_result_upper_half_NONZERO:compiler(informational)", n)
			run.Note("compiler: %d raw api.Function.Call results of type i32/f32 carry non-zero bits in the upper half of the uint64 (informational)", n)
		}
	}
	// ---- register positions
	rpStats := map[string]int64{}
	if only == "" || os.Getenv("C05_REGPOS") != "" {
		rops := buildRpOps(ops)
		if only != "" {
			var f []*rpOp
			for _, p := range rops {
				if strings.Contains(p.op.Name, only) {
					f = append(f, p)
				}
			}
			rops = f
		}
		tasks := rpTasks(rops)
		rpStats["instructions"] = int64(len(rops))
		rpStats["modules"] = int64(len(tasks))
		fw.Parallel(len(tasks), nw, func(i int) {
			if run.Expired() {
				run.Capped("budget (register positions)")
				return
			}
			w := <-pool
			defer func() { pool <- w }()
			execs, nf := w.runRegpos(tasks[i], st, func(rm rpMismatch) {
				v := "same"
				if rm.f.sh.mixed {
					v = "mixed"
				}
				sig := fmt.Sprintf("regpos:%s:%s:n=%d:%s:pos=%v:%s", rm.f.p.op.Name, engineNames[rm.engine], rm.f.sh.n, v, rm.f.sh.pos, rm.which)
				rc := replayCase{Op: rm.f.p.op.Name, Engine: engineNames[rm.engine], Form: "regpos", Got: rm.got, Want: rm.want, N: rm.f.sh.n, Mixed: rm.f.sh.mixed, Pos: rm.f.sh.pos, Seed: rm.it}
				t := rm.f.p.tuples[rm.it]
				for k := range rm.f.p.op.In {
					rc.Operands = append(rc.Operands, [2]string{fmt.Sprintf("%#x", t[k].Lo), fmt.Sprintf("%#x", t[k].Hi)})
				}
				run.Violation(sig, rm.text(), rc)
				outcomes.Inc("mismatch")
			})
			mu.Lock()
			rpStats["functions"] += nf
			rpStats["executions"] += execs
			distinct += execs / 2
			nontriv += execs / 2
			formsSeen["regpos"] += execs
			mu.Unlock()
		})
	}
	// ---- thorough-tier streamed enumerations
	bigStats := map[string]map[string]int64{}
	if run.Thorough() && only == "" || os.Getenv("C05_BIG") != "" {
		bj := bigJobs(ops)
		if only != "" {
			var f []bigJob
			for _, j := range bj {
				if strings.Contains(j.op.Name, only) && (os.Getenv("C05_BIG_BLOCKS") == "" || j.block < 2) {
					f = append(f, j)
				}
			}
			bj = f
		}
		for _, j := range bj {
			k := bigStats[j.kind]
			if k == nil {
				k = map[string]int64{}
				bigStats[j.kind] = k
			}
			k["blocks_total"]++
		}
		fw.Parallel(len(bj), nw, func(i int) {
			if run.Expired() {
				run.Capped("budget (streamed enumerations)")
				return
			}
			j := bj[i]
			op := j.op
			w := <-pool
			defer func() { pool <- w }()
			form := Form(strings.Repeat("P", len(op.In)))
			s := w.open(op, []Form{form}, func(Form) []Tuple { return nil }, st, func(m mismatch, t Tuple, class string) {
				sig := fmt.Sprintf("%s:%s:%s:%s", m.Op, m.Engine, m.Form, class)
				what := fmt.Sprintf("%s on the %s engine, operand form %s, operands [%s]: got %s, specification gives %s",
					m.Op, m.Engine, m.Form, strings.Join(m.In, ", "), m.Got, m.Want)
				run.Violation(sig, what, toReplay(m, t, len(op.In)))
				outcomes.Inc("mismatch")
			})
			var n, zero int64
			for seg := 0; seg < j.segs; seg++ {
				ts := j.gen(j.block, seg)
				s.run([]Form{form}, ts, s.expect(ts))
				n += int64(len(ts))
				for _, t := range ts {
					if t == (Tuple{}) {
						zero++
					}
				}
			}
			s.close()
			mu.Lock()
			k := bigStats[j.kind]
			k["blocks_done"]++
			k["tuples"] += n
			// distinct by construction: every block enumerates a disjoint set of lane pairs / values
			distinct += n
			nontriv += n - zero
			formsSeen[string(form)] += 2 * n
			perOpEvals[opCategory(op)] += 2 * n
			mu.Unlock()
		})
	}
	close(pool)
	for w := range pool {
		w.close()
	}

	evals := st.evals.Load()
	om := outcomes.Map()
	om["engine_result_equals_reference"] = evals - om["mismatch"]
	om["expected_trap_tuples"] = st.traps.Load()
	om["expected_nan_canonical_lanes"] = st.nanCanon.Load()
	om["expected_nan_arithmetic_lanes"] = st.nanArith.Load()
	// spec-test coverage of the reference
	var uncovered []string
	consumerForms := 0
	seen := map[string]bool{}
	for _, op := range ops {
		c := opCategory(op)
		if seen[c] {
			continue
		}
		seen[c] = true
		if strings.Contains(c, "→") {
			consumerForms++
			continue // composite consumer form: its semantics is the base comparison's
		}
		n := 0
		for _, o := range ops {
			if opCategory(o) == c {
				n += spec.perOp[o.Name]
			}
		}
		if n == 0 {
			uncovered = append(uncovered, c)
		}
	}
	bounds := map[string]any{
		"opcodes_with_immediates": len(jobs),
		"distinct_instructions":   len(seen) - consumerForms,
		"comparison_consumer_forms": consumerForms,
		"enumerations":            kinds,
		"alphabet_sizes": map[string]int{"i32": len(intAlphabet(32)), "i64": len(intAlphabet(64)), "f32": len(floatAlphabet(rs.B32)), "f64": len(floatAlphabet(rs.B64)),
			"i32_extended_unary": len(intExtended(32)), "i64_extended_unary": len(intExtended(64)), "f32_extended_unary": len(floatExtended(rs.B32)), "f64_extended_unary": len(floatExtended(rs.B64)),
			"i16_grid": len(grid16()), "i8": 256, "i16_unary": 65536, "shuffle_masks": len(rs.ShuffleMasks())},
		"operand_forms_evaluations": formsSeen,
		"chunk":                     chunkN,
	}
	bounds["pairs_in_one_function"] = pairStats
	bounds["sibling_functions"] = sibStats
	bounds["consumer_chains"] = chainStats
	bounds["register_positions"] = rpStats
	bounds["register_position_arities"] = rpArities
	sort.Strings(rawUpperOps[0])
	sort.Strings(rawUpperOps[1])
	bounds["raw_call_upper_half_nonzero_instructions"] = map[string][]string{"compiler": rawUpperOps[0], "interpreter": rawUpperOps[1]}
	if len(bigStats) > 0 {
		bounds["streamed_enumerations"] = bigStats
	}
	run.Finish(fw.Coverage{
		Evaluations: evals, DistinctNontriv: nontriv,
		Rule:    "one evaluation = one execution of one instruction (scalar or whole vector) with one operand tuple in one operand form on one engine, compared with refsem; distinct = distinct (instruction, operand tuple) pairs measured by hashing every enumerated tuple, non-trivial = at least one operand non-zero; pair family: one function execution yields two evaluations, and each (ordered instruction pair, operand slot) counts as one distinct case",
		Samples: samples.List(), Exhaustive: true, Outcomes: om, Bounds: bounds,
		Extra: map[string]any{
			"lane_results_compared":   st.lanes.Load(),
			"distinct_tuples":         distinct,
			"functions_compiled":      st.funcs.Load(),
			"modules_compiled":        st.modules.Load(),
			"evaluations_by_instruction_top": topN(perOpEvals, 12),
			"refsem_selftest": map[string]any{
				"spec_test_json_files": spec.files, "spec_test_modules_parsed": spec.modules, "spec_test_functions_matched": spec.matchedFuncs,
				"spec_test_assertions_checked_against_refsem": spec.asserts, "instructions_without_spec_assertion": uncovered,
				"host_fpu_comparisons": hwN, "wall_s": selfS,
			},
		},
	}, []string{
		"refsem (checks/c05/refsem) is the trusted base: written from the specification, cross-checked against every matching spec-test assertion and against the host FPU before any engine result is judged",
		"NaN results of arithmetic operators are accepted within the class the specification allows (canonical when all NaN inputs are canonical, else arithmetic); abs/neg/copysign/reinterpret/select/move/load/store/lane moves/pmin/pmax are compared bit-exactly",
		"32/64-bit operands come from boundary alphabets (all pairs), not from the full domain; 8-bit lanes are exhaustive, 16-bit lanes exhaustive for unary and grid all-pairs for binary operators",
		"memory instructions (v128.loadNxM, load_splat, load_lane, store_lane) are not numeric instructions and are left to C02/C01; plain loads/stores are exercised as operand sources and result sinks",
		"pair family: per-function compiler state shared by TWO numeric instructions is covered for every ordered pair of 355 instruction representatives; state shared only among three or more instructions is not",
		"sibling family: compiler state surviving the per-function reset is covered for one-instruction functions (plus 0-2 v128.const pool entries before / after the instruction) in every ordered adjacency of two instruction representatives and layouts; functions with several numeric instructions as siblings are not enumerated",
		"a Go panic of wazero during compile / instantiate / call is recovered at the call site and reported as a violation of the family's module (signature names the panic site)",
		"amd64 only (the machine this runs on); the arm64 backend is not exercised",
	})
}

// signature classifies a disagreement by instruction, engine, operand form and operand class. One
// input class gets its own name: an integer comparison whose LEFT operand is the constant zero and
// whose right operand is produced by an `and`, consumed by a conditional branch (the backend's
// and+compare+branch fusion).
func signature(op *rs.Op, m mismatch, t Tuple, class string) string {
	n := op.Name
	if isIntCompare(op) && m.Form == "CB" && t[0].Lo == 0 && (strings.HasSuffix(n, "→br_if") || strings.HasSuffix(n, "→if")) {
		return fmt.Sprintf("icmp(const0,and)→branch:%s:%s", m.Engine, baseName(op))
	}
	return fmt.Sprintf("%s:%s:%s:%s", m.Op, m.Engine, m.Form, class)
}

// replayRegpos re-executes every parameter position of one instruction for one arity / variant.
func replayRegpos(rc replayCase, op *rs.Op) {
	var t Tuple
	for k := range op.In {
		lo, _ := strconv.ParseUint(strings.TrimPrefix(rc.Operands[k][0], "0x"), 16, 64)
		hi, _ := strconv.ParseUint(strings.TrimPrefix(rc.Operands[k][1], "0x"), 16, 64)
		t[k] = rs.V{Lo: lo, Hi: hi}
	}
	p := &rpOp{op: op}
	for i := 0; i <= rc.Seed; i++ { // index rc.Seed selects the same filler values as in the run
		p.tuples = append(p.tuples, t)
		p.exp = append(p.exp, op.Eval(t[0], t[1], t[2]))
	}
	fmt.Printf("replay register positions: %s(%s) in %d-parameter functions (mixed=%v), every operand position\n  reference: %s\n", op.Name, fmtIn(op, t), rc.N, rc.Mixed, wantString(op, p.exp[0]))
	w := newWorker()
	defer w.close()
	failed := false
	w.runRegpos(rpTask{t: op.In[0], n: rc.N, mixed: rc.Mixed, ops: []*rpOp{p}}, &stats{}, func(rm rpMismatch) {
		if rm.it != rc.Seed {
			return
		}
		fmt.Println("  MISMATCH:", rm.text())
		if rc.Engine == "" || rc.Engine == engineNames[rm.engine] {
			failed = true
		}
	})
	if failed {
		fmt.Println("replay: still fails")
		os.Exit(1)
	}
	fmt.Println("replay: both engines agree with the reference")
	os.Exit(0)
}

// replayChain re-executes one producer (all its consumers and the raw call) on one operand tuple.
func replayChain(rc replayCase, p *rs.Op, ops []*rs.Op) {
	if len(rc.Operands) < len(p.In) {
		fw.Fatalf("replay: bad chain case")
	}
	var t Tuple
	for k := range p.In {
		lo, _ := strconv.ParseUint(strings.TrimPrefix(rc.Operands[k][0], "0x"), 16, 64)
		hi, _ := strconv.ParseUint(strings.TrimPrefix(rc.Operands[k][1], "0x"), 16, 64)
		t[k] = rs.V{Lo: lo, Hi: hi}
	}
	r := p.Eval(t[0], t[1], t[2])
	fmt.Printf("replay chain: R = %s(%s) = %s fed into every width-sensitive consumer, plus the raw host call\n", p.Name, fmtIn(p, t), wantString(p, r))
	if r.Trap != rs.TrapNone || r.NaN[0] != rs.NotNaN {
		fw.Fatalf("replay: R is not a determined value")
	}
	w := newWorker()
	defer w.close()
	failed := false
	w.runChains(&chainProducer{op: p, tuples: []Tuple{t}, exp: []rs.Res{r}}, buildConsumers(ops), &stats{}, func(cm chainMismatch) {
		fmt.Println("  MISMATCH:", cm.text())
		if rc.Engine == "" || rc.Engine == engineNames[cm.engine] {
			failed = true
		}
	})
	if failed {
		fmt.Println("replay: still fails")
		os.Exit(1)
	}
	fmt.Println("replay: both engines agree with the reference")
	os.Exit(0)
}

// replaySibling rebuilds module(a, L1) over the recorded layout set and re-executes the recorded function.
func replaySibling(rc replayCase, a *rs.Op, ops []*rs.Op) {
	pops := buildPairOps(ops)
	var pa *pairOp
	for _, p := range pops {
		if p.op == a {
			pa = p
		}
	}
	if pa == nil || len(rc.Lays) == 0 || len(rc.Pos) != 1 {
		fw.Fatalf("replay: bad sibling case")
	}
	fns := sibSequence(pa, rc.L1, rc.Lays, pops)
	if rc.Pos[0] >= len(fns) {
		fw.Fatalf("replay: bad sibling function index")
	}
	if rc.Pos[0] >= 0 {
		fmt.Printf("replay sibling functions: module of %d functions starting with %s; executing function #%d = %s on its %d operand tuples\n",
			len(fns), sibName(fns[0]), rc.Pos[0], sibName(fns[rc.Pos[0]]), len(fns[rc.Pos[0]].p.tuples))
	} else {
		fmt.Printf("replay sibling functions: module of %d functions starting with %s; executing every function\n", len(fns), sibName(fns[0]))
	}
	w := newWorker()
	defer w.close()
	failed := false
	w.runSiblings(pa, rc.L1, rc.Lays, pops, rc.Pos[0], &stats{}, func(sm sibMismatch) {
		fmt.Println("  MISMATCH:", sm.text())
		if rc.Engine == "" || rc.Engine == engineNames[sm.engine] {
			failed = true
		}
	})
	if failed {
		fmt.Println("replay: still fails")
		os.Exit(1)
	}
	fmt.Println("replay: both engines agree with the reference")
	os.Exit(0)
}

// replayPair re-executes one function of the pair family.
func replayPair(rc replayCase, a *rs.Op, ops []*rs.Op) {
	var b *rs.Op
	for _, o := range ops {
		if o.Name == rc.Op2 {
			b = o
		}
	}
	if b == nil || len(rc.Operands) != len(a.In)+len(b.In) {
		fw.Fatalf("replay: bad pair case")
	}
	parse := func(o [2]string) rs.V {
		lo, _ := strconv.ParseUint(strings.TrimPrefix(o[0], "0x"), 16, 64)
		hi, _ := strconv.ParseUint(strings.TrimPrefix(o[1], "0x"), 16, 64)
		return rs.V{Lo: lo, Hi: hi}
	}
	var ta, tb Tuple
	for k := range a.In {
		ta[k] = parse(rc.Operands[k])
	}
	for k := range b.In {
		tb[k] = parse(rc.Operands[len(a.In)+k])
	}
	pa := &pairOp{op: a, tuples: []Tuple{ta}, exp: []rs.Res{a.Eval(ta[0], ta[1], ta[2])}}
	pb := &pairOp{op: b, tuples: []Tuple{tb}, exp: []rs.Res{b.Eval(tb[0], tb[1], tb[2])}}
	fmt.Printf("replay pair: one function computing %s(%s) then %s(%s)\n  reference: %s ; %s\n", a.Name, fmtIn(a, ta), b.Name, fmtIn(b, tb), wantString(a, pa.exp[0]), wantString(b, pb.exp[0]))
	w := newWorker()
	defer w.close()
	failed := false
	w.runPairs(pa, []*pairOp{pb}, &stats{}, func(pm pairMismatch) {
		fmt.Printf("  %s: %s result is %s (MISMATCH)\n", engineNames[pm.engine], pm.which, pm.got)
		if rc.Engine == "" || rc.Engine == engineNames[pm.engine] {
			failed = true
		}
	})
	if failed {
		fmt.Println("replay: still fails")
		os.Exit(1)
	}
	fmt.Println("replay: both engines agree with the reference")
	os.Exit(0)
}

func topN(m map[string]int64, n int) map[string]int64 {
	type kv struct {
		k string
		v int64
	}
	var l []kv
	for k, v := range m {
		l = append(l, kv{k, v})
	}
	sort.Slice(l, func(i, j int) bool { return l[i].v > l[j].v || (l[i].v == l[j].v && l[i].k < l[j].k) })
	o := map[string]int64{}
	for i := 0; i < n && i < len(l); i++ {
		o[l[i].k] = l[i].v
	}
	return o
}
