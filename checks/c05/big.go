package main

import (
	"strings"

	rs "github.com/tetratelabs/wazero/verif/checks/c05/refsem"
)

// Thorough-tier extensions: enumerations too large to hold in memory are streamed block by block
// through a module that contains only the all-parameters form.

type bigJob struct {
	op      *rs.Op
	kind    string
	block   int
	nblocks int
	segs    int
	gen     func(block, seg int) []Tuple
}

// i16 binary operators whose amd64 lowering is a multi-instruction sequence: every one of the
// 2^32 lane pairs (x, y) is evaluated (8 pairs per vector).
var i16FullOps = []string{"i16x8.ne", "i16x8.lt_u", "i16x8.gt_u", "i16x8.le_s", "i16x8.le_u", "i16x8.ge_s", "i16x8.ge_u", "i16x8.q15mulr_sat_s",
	"i32x4.extmul_low_i16x8_s", "i32x4.extmul_high_i16x8_s", "i32x4.extmul_low_i16x8_u", "i32x4.extmul_high_i16x8_u"}

const i16SegVectors = 1 << 16

func genI16Full(block, seg int) []Tuple {
	xh := uint64(block) << 8
	out := make([]Tuple, i16SegVectors)
	for j := 0; j < i16SegVectors; j++ {
		base := (seg*i16SegVectors + j) * 8
		var lo0, hi0, lo1, hi1 uint64
		for l := 0; l < 8; l++ {
			p := uint64(base + l)
			xl := p & 0xff
			x := xh | xl
			y := ((p >> 8) + 40503*xl) & 0xffff
			if l < 4 {
				lo0 |= x << (16 * uint(l))
				lo1 |= y << (16 * uint(l))
			} else {
				hi0 |= x << (16 * uint(l-4))
				hi1 |= y << (16 * uint(l-4))
			}
		}
		out[j] = Tuple{{Lo: lo0, Hi: hi0}, {Lo: lo1, Hi: hi1}}
	}
	return out
}

// f32 lattice for unary operators: every sign and exponent (one block each) x every value of the
// top 15 fraction bits x low byte in {0x00, 0x01, 0x80, 0xff}.
var f32LowPatterns = [4]uint64{0x00, 0x01, 0x80, 0xff}

func f32Lattice(block int, i int) uint64 {
	return uint64(block)<<23 | uint64(i>>2)<<8 | f32LowPatterns[i&3]
}

const f32LatticePerBlock = 1 << 17

func genF32LatticeScalar(block, _ int) []Tuple {
	out := make([]Tuple, f32LatticePerBlock)
	for i := range out {
		out[i] = Tuple{rs.S(f32Lattice(block, i))}
	}
	return out
}

func genF32LatticeVector(block, _ int) []Tuple {
	out := make([]Tuple, f32LatticePerBlock/4)
	for j := range out {
		var v rs.V
		for l := 0; l < 4; l++ {
			v.SetLane(32, l, f32Lattice(block, 4*j+(l+j)%4))
		}
		out[j] = Tuple{v}
	}
	return out
}

func bigJobs(ops []*rs.Op) []bigJob {
	var jobs []bigJob
	byName := map[string]*rs.Op{}
	for _, op := range ops {
		byName[op.Name] = op
	}
	// f32 lattice first (smaller), then the 2^32 pair spaces; block-major so that a budget cap
	// leaves every operator with the same (permuted, hence spread out) prefix of blocks.
	var lat []*rs.Op
	for _, op := range ops {
		if len(op.In) == 1 && op.Shapes[0] == rs.SF32 && (op.In[0] == rs.F32 || op.In[0] == rs.V128) &&
			!strings.Contains(op.Name, "extract_lane") && !strings.Contains(op.Name, ".move") && !strings.Contains(op.Name, "splat") {
			lat = append(lat, op)
		}
	}
	for b := 0; b < 512; b++ {
		blk := (b * 211) % 512
		for _, op := range lat {
			g := genF32LatticeScalar
			k := "f32-unary-lattice:all-sign-exponent-top15-fraction-x-4-low-bytes"
			if op.In[0] == rs.V128 {
				g = genF32LatticeVector
			}
			jobs = append(jobs, bigJob{op: op, kind: k, block: blk, nblocks: 512, segs: 1, gen: g})
		}
	}
	for b := 0; b < 256; b++ {
		blk := (b * 97) % 256
		for _, n := range i16FullOps {
			jobs = append(jobs, bigJob{op: byName[n], kind: "i16x8-binary:all-2^32-lane-pairs", block: blk, nblocks: 256, segs: (1 << 21) / i16SegVectors, gen: genI16Full})
		}
	}
	return jobs
}
