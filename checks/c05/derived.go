package main

import (
	"strings"

	rs "github.com/tetratelabs/wazero/verif/checks/c05/refsem"
)

// Consumer forms of comparisons. A comparison whose result feeds br_if / if / select is lowered by
// the compiler through a different path (flags + jcc / cmov instead of setcc), so every scalar
// comparison is additionally enumerated with its result consumed by each of them. The value
// observed is 17 when the comparison yields 1 and 42 when it yields 0.

func isCompareName(n string) bool {
	i := strings.IndexByte(n, '.')
	if i < 0 {
		return false
	}
	switch n[i+1:] {
	case "eqz", "eq", "ne", "lt", "gt", "le", "ge", "lt_s", "lt_u", "gt_s", "gt_u", "le_s", "le_u", "ge_s", "ge_u":
		return true
	}
	return false
}

func baseName(op *rs.Op) string {
	n := op.Name
	if i := strings.Index(n, "→"); i >= 0 {
		n = n[:i]
	}
	return n
}

func isScalarCompare(op *rs.Op) bool {
	return op.Out == rs.I32 && isCompareName(baseName(op)) && !isVec(op.In[0])
}

func isIntCompare(op *rs.Op) bool {
	return isScalarCompare(op) && (op.In[0] == rs.I32 || op.In[0] == rs.I64)
}

func withConsumers(ops []*rs.Op) []*rs.Op {
	out := ops
	for _, base := range ops {
		if !isScalarCompare(base) {
			continue
		}
		base := base
		eval := func(a, b, c rs.V) rs.Res {
			r := base.Eval(a, b, c)
			if r.V.Lo != 0 {
				return rs.Res{V: rs.S(17)}
			}
			return rs.Res{V: rs.S(42)}
		}
		mk := func(suffix string, pre, post []byte) {
			d := *base
			d.Name = base.Name + "→" + suffix
			d.Pre = pre
			d.Enc = append(append([]byte{}, base.Enc...), post...)
			d.Eval = eval
			out = append(out, &d)
		}
		// block (result i32) i32.const 17 <operands> <cmp> br_if 0 drop i32.const 42 end
		mk("br_if", []byte{0x02, 0x7f, 0x41, 17}, []byte{0x0d, 0x00, 0x1a, 0x41, 42, 0x0b})
		// <operands> <cmp> if (result i32) i32.const 17 else i32.const 42 end
		mk("if", nil, []byte{0x04, 0x7f, 0x41, 17, 0x05, 0x41, 42, 0x0b})
		// i32.const 17 i32.const 42 <operands> <cmp> select
		mk("select", []byte{0x41, 17, 0x41, 42}, []byte{0x1b})
		// the same selecting f64 / v128 values (conditional move of an xmm register)
		{
			d := *base
			d.Name = base.Name + "→select.f64"
			d.Pre = []byte{0x44, 0, 0, 0, 0, 0, 0, 0x31, 0x40, 0x44, 0, 0, 0, 0, 0, 0, 0x45, 0x40} // f64.const 17 ; f64.const 42
			d.Enc = append(append([]byte{}, base.Enc...), 0x1b)
			d.Out = rs.F64
			d.Eval = func(a, b, c rs.V) rs.Res {
				if base.Eval(a, b, c).V.Lo != 0 {
					return rs.Res{V: rs.S(0x4031000000000000)}
				}
				return rs.Res{V: rs.S(0x4045000000000000)}
			}
			out = append(out, &d)
			v := *base
			v.Name = base.Name + "→select.v128"
			v.Pre = append(append([]byte{0xfd, 0x0c}, bytesOf(17, 16)...), append([]byte{0xfd, 0x0c}, bytesOf(42, 16)...)...)
			v.Enc = append(append([]byte{}, base.Enc...), 0x1b)
			v.Out = rs.V128
			v.Eval = func(a, b, c rs.V) rs.Res {
				if base.Eval(a, b, c).V.Lo != 0 {
					return rs.Res{V: rs.V{Lo: 0x1111111111111111, Hi: 0x1111111111111111}}
				}
				return rs.Res{V: rs.V{Lo: 0x2a2a2a2a2a2a2a2a, Hi: 0x2a2a2a2a2a2a2a2a}}
			}
			out = append(out, &v)
		}
	}
	return out
}

func bytesOf(b byte, n int) []byte {
	o := make([]byte, n)
	for i := range o {
		o[i] = b
	}
	return o
}
