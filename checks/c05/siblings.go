package main

// "Sibling functions" family. The compiler engine compiles all functions of a module one after the
// other with ONE machine / SSA builder / frontend whose per-function state (constant pool and the
// cached pool indexes of mask tables, labels, jump tables, spill slots, value numbering …) is reset
// between functions; the interpreter's lowering keeps per-function state as well. State that
// survives the reset is invisible to a corpus in which an instruction occurs in functions of one
// shape only (its cached constant lands at the same pool index every time) and to the pair family
// (one function). Here every instruction is compiled BEHIND every other one in a sibling function of
// the same module, with differently laid out per-function constant pools:
//
//   module(A, L1) = A@L1, B1@l, A@L1, B1@l', A@L1, B2@l, ...        for every B and every layout l
//
// so that every ordered (A@L1, B@L2) and (B@L2, A@L1) is an adjacent pair of functions, and A@L1 is
// the first user of its caches in the module. A layout places v128.const pool entries around the
// instruction (the backend lowers a block bottom-up: a constant used AFTER the instruction gets the
// lower pool index and shifts the instruction's own constants; one used BEFORE it is appended
// behind them). Every function is executed on the reduced boundary-complete tuple list of its
// instruction against refsem, and the v128.const values themselves are stored and compared too.

import (
	"encoding/binary"
	"fmt"

	rs "github.com/tetratelabs/wazero/verif/checks/c05/refsem"
	"github.com/tetratelabs/wazero/verif/wb"
)

const (
	sibK0 = 0x40000 // v128.const used before the instruction
	sibK1 = 0x50000 // v128.const used after the instruction
	sibK2 = 0x60000 // second v128.const used after the instruction
)

// layouts: number of v128.const pool entries used before / after the instruction (program order)
type sibLayout struct {
	name          string
	before, after int
}

var sibLayouts = []sibLayout{
	{"bare", 0, 0},
	{"K-after", 0, 1},
	{"K-before", 1, 0},
	{"K-both", 1, 1},
	{"2K-after", 0, 2},
}

func sibLayoutSet(thorough bool) []int {
	if thorough {
		return []int{0, 1, 2, 3, 4}
	}
	return []int{0, 1}
}

// sibConst: the j-th pool constant of function f — byte-distinct, never all-zero / all-ones.
func sibConst(f, j int) rs.V {
	x := uint64(f*3+j+1) * 0x9e3779b97f4a7c15
	x ^= x >> 29
	lo := x | 0x0100000000000001
	hi := (x*0xbf58476d1ce4e5b9 ^ 0x8877665544332211) &^ 0x0000000000000100
	return rs.V{Lo: lo, Hi: hi}
}

type sibFn struct {
	p      *pairOp
	layout int
	prev   int // index of the function compiled immediately before (-1: first of the module)
}

// sibFunc emits f(off i32): load the operands, barrier store, [constants], instruction, store, [constants].
func sibFunc(op *rs.Op, lay sibLayout, f int) (locals []wb.ValType, body []byte) {
	as := &wb.Asm{}
	li := uint32(1)
	var lo []uint32
	for k, t := range op.In {
		as.LocalGet(0)
		emitLoad(as, t, pairIn(k))
		as.LocalSet(li)
		lo = append(lo, li)
		locals = append(locals, wbType(t))
		li++
	}
	as.I32Const(0).I32Const(0).Mem(0x36, 2, 0)
	if lay.before > 0 {
		c := sibConst(f, 0)
		as.LocalGet(0).V128Const(c.Lo, c.Hi).SimdMem(0x0b, 4, sibK0)
	}
	for _, l := range lo {
		as.LocalGet(l)
	}
	as.Raw(op.Enc...)
	locals = append(locals, wbType(op.Out))
	as.LocalSet(li)
	as.LocalGet(0).LocalGet(li)
	emitStore(as, op.Out, pairOut0)
	for j := 0; j < lay.after; j++ {
		c := sibConst(f, 1+j)
		as.LocalGet(0).V128Const(c.Lo, c.Hi).SimdMem(0x0b, 4, uint64(sibK1+j*(sibK2-sibK1)))
	}
	return locals, as.B
}

// sibSequence is the function order of module(a, l1).
func sibSequence(a *pairOp, l1 int, lays []int, bs []*pairOp) []sibFn {
	var fns []sibFn
	for _, b := range bs {
		for _, l2 := range lays {
			fns = append(fns, sibFn{p: a, layout: l1, prev: len(fns) - 1})
			fns = append(fns, sibFn{p: b, layout: l2, prev: len(fns) - 1})
		}
	}
	return fns
}

func buildSibModule(fns []sibFn) []byte {
	m := &wb.Module{}
	m.Mem = &wb.Limits{Min: pairPages, Max: pairPages, HasMax: true}
	var table []uint32
	for f, fn := range fns {
		locals, body := sibFunc(fn.p.op, sibLayouts[fn.layout], f)
		table = append(table, m.AddFunc([]wb.ValType{wb.I32}, nil, locals, body))
	}
	typ := m.Type([]wb.ValType{wb.I32}, nil)
	m.Tables = []wb.Table{{Elem: wb.FuncRef, Lim: wb.Limits{Min: uint32(len(table))}}}
	m.Elems = []wb.Elem{{Mode: 0, Offset: wb.CI32(0), Funcs: table}}
	d := &wb.Asm{}
	d.Block(wb.Void)
	d.LocalGet(0).Op(0x45).BrIf(0)
	d.Loop(wb.Void)
	d.LocalGet(1).I32Const(4).Op(0x74)
	d.LocalGet(1).I32Const(2).Op(0x74).Mem(0x28, 2, pairIdx)
	d.CallIndirect(typ, 0)
	d.LocalGet(1).I32Const(1).Op(0x6a).LocalTee(1).LocalGet(0).Op(0x49).BrIf(0)
	d.End()
	d.End()
	m.ExportFunc("d", m.AddFunc([]wb.ValType{wb.I32}, nil, []wb.ValType{wb.I32}, d.B))
	m.Exports = append(m.Exports, wb.Export{Name: "memory", Kind: wb.KindMemory, Idx: 0})
	return m.Encode()
}

type sibMismatch struct {
	fns    []sibFn
	f      int // function whose result is wrong (-1: the module as a whole)
	it     int
	engine int
	which  string // "result", "const<j>", or errClass
	got    string
	want   string
}

func sibName(fn sibFn) string { return fn.p.op.Name + "@" + sibLayouts[fn.layout].name }

func (sm sibMismatch) sig() string {
	first := sibName(sm.fns[0])
	if sm.f < 0 {
		return fmt.Sprintf("sibling:module(%s):%s:%s", first, engineNames[sm.engine], sm.which)
	}
	fn := sm.fns[sm.f]
	prev := "first"
	if fn.prev >= 0 {
		prev = sibName(sm.fns[fn.prev])
	}
	return fmt.Sprintf("sibling:%s→%s:%s:%s", prev, sibName(fn), engineNames[sm.engine], sm.which)
}

func (sm sibMismatch) text() string {
	first := sibName(sm.fns[0])
	if sm.f < 0 {
		return fmt.Sprintf("module of %d one-instruction sibling functions starting with %s on the %s engine: %s (expected %s)", len(sm.fns), first, engineNames[sm.engine], sm.got, sm.want)
	}
	fn := sm.fns[sm.f]
	prev := "nothing"
	if fn.prev >= 0 {
		prev = sibName(sm.fns[fn.prev])
	}
	return fmt.Sprintf("function #%d = %s(%s) [layout %s] compiled behind %s in a module whose first function is %s, on the %s engine: %s is %s, specification gives %s",
		sm.f, fn.p.op.Name, fmtIn(fn.p.op, fn.p.tuples[sm.it]), sibLayouts[fn.layout].name, prev, first, engineNames[sm.engine], sm.which, sm.got, sm.want)
}

type sibSlot struct{ f, it int }

// runSiblings compiles module(a, l1) on both engines and executes every function (onlyF >= 0: that
// function only) on every tuple of its instruction.
func (w *worker) runSiblings(a *pairOp, l1 int, lays []int, bs []*pairOp, onlyF int, st *stats, rep func(sm sibMismatch)) (calls, nfuncs int64) {
	fns := sibSequence(a, l1, lays, bs)
	bin := buildSibModule(fns)
	st.funcs.Add(int64(len(fns)) * 2)
	st.modules.Add(2)
	var slots []sibSlot
	for f, fn := range fns {
		if onlyF >= 0 && f != onlyF {
			continue
		}
		for i := range fn.p.tuples {
			slots = append(slots, sibSlot{f, i})
		}
	}
	// one report per (function, engine, kind): the first failing tuple in enumeration order
	seen := map[string]bool{}
	rep0 := rep
	rep = func(sm sibMismatch) {
		k := fmt.Sprintf("%d/%d/%s", sm.f, sm.engine, sm.which)
		if seen[k] {
			return
		}
		seen[k] = true
		rep0(sm)
	}
	var lanes int64
	for _, sl := range slots {
		lanes += laneCount(fns[sl.f].p.op)
	}
	for e := 0; e < 2; e++ {
		cm, err := w.compile(e, bin)
		if err != nil {
			rep(sibMismatch{fns: fns, f: -1, engine: e, which: errClass("compile", err), got: errText("compile", err), want: "valid module"})
			continue
		}
		mod, err := w.instantiate(e, cm)
		if err != nil {
			rep(sibMismatch{fns: fns, f: -1, engine: e, which: errClass("instantiate", err), got: errText("instantiate", err), want: "instance"})
			cm.Close(ctxBG)
			continue
		}
		mem, _ := mod.Memory().Read(0, pairPages*65536)
		fn := mod.ExportedFunction("d")
		for c0 := 0; c0 < len(slots); c0 += chunkN {
			c1 := c0 + chunkN
			if c1 > len(slots) {
				c1 = len(slots)
			}
			for s, sl := range slots[c0:c1] {
				off := s * 16
				p := fns[sl.f].p
				for k, ty := range p.op.In {
					putV(mem[int(pairIn(k))+off:], ty, p.tuples[sl.it][k])
				}
				binary.LittleEndian.PutUint32(mem[pairIdx+s*4:], uint32(sl.f))
				for _, o := range []int{pairOut0, sibK0, sibK1, sibK2} {
					binary.LittleEndian.PutUint64(mem[o+off:], 0xa5a5a5a5a5a5a5a5)
					binary.LittleEndian.PutUint64(mem[o+off+8:], 0x5a5a5a5a5a5a5a5a)
				}
			}
			if _, err := call(fn, uint64(c1-c0)); err != nil {
				sl := slots[c0]
				rep(sibMismatch{fns: fns, f: sl.f, it: sl.it, engine: e, which: errClass("call", err), got: "in the batch starting here: " + errText("call", err), want: "no trap (trapping tuples are excluded)"})
				continue
			}
			for s, sl := range slots[c0:c1] {
				off := s * 16
				sf := fns[sl.f]
				p := sf.p
				got := getV(mem[pairOut0+off:], p.op.Out)
				if !accept(p.op, p.exp[sl.it], got) {
					rep(sibMismatch{fns: fns, f: sl.f, it: sl.it, engine: e, which: "result", got: hexV(p.op.Out, got), want: wantString(p.op, p.exp[sl.it])})
				}
				lay := sibLayouts[sf.layout]
				if lay.before > 0 {
					if g, c := getV(mem[sibK0+off:], rs.V128), sibConst(sl.f, 0); g != c {
						rep(sibMismatch{fns: fns, f: sl.f, it: sl.it, engine: e, which: "const0", got: hexV(rs.V128, g), want: hexV(rs.V128, c)})
					}
				}
				for j := 0; j < lay.after; j++ {
					if g, c := getV(mem[sibK1+j*(sibK2-sibK1)+off:], rs.V128), sibConst(sl.f, 1+j); g != c {
						rep(sibMismatch{fns: fns, f: sl.f, it: sl.it, engine: e, which: fmt.Sprintf("const%d", 1+j), got: hexV(rs.V128, g), want: hexV(rs.V128, c)})
					}
				}
			}
		}
		calls += int64(len(slots))
		mod.Close(ctxBG)
		cm.Close(ctxBG)
	}
	st.evals.Add(calls)
	st.lanes.Add(lanes * 2)
	return calls, int64(len(fns))
}
