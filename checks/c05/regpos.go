package main

// "Register position" family. Encoding and lowering bugs can depend on WHICH physical register holds
// an operand or a result (REX prefixes for SIL/DIL/SPL/BPL and r8–r15, xmm8–xmm15, rsp/rbp/r12/r13
// addressing special cases, fixed-register instructions). A one- or two-parameter wrapper always
// puts the operand into the same registers. Here every unary / binary instruction whose operands
// have one type T is placed in functions with n ∈ {1..8, 12, 16} parameters (all of type T, and a
// mixed variant alternating T with a type of the other register class), takes its operand(s) from
// every parameter position (binary: (k, k+1), (k+1, k), (first, last)) and keeps ALL parameters
// live across the instruction: the function returns op(...) and, computed afterwards, an i64 xor
// checksum over the bits of every parameter. Both values are compared with refsem / the mirror.

import (
	"context"
	"encoding/binary"
	"fmt"
	"math/bits"

	rs "github.com/tetratelabs/wazero/verif/checks/c05/refsem"
	"github.com/tetratelabs/wazero/verif/wb"
)

const (
	rpChunk    = 1024
	rpIn       = 0x10000 // slot stride 256 bytes: parameter j at slot*256 + j*16
	rpOut0     = 0x50000
	rpOut1     = 0x54000
	rpIdx      = 0x58000
	rpPages    = 6
	rpMaxTuple = 64
)

var rpArities = []int{1, 2, 3, 4, 5, 6, 7, 8, 12, 16}

// otherClass: a type living in the other register file.
func otherClass(t rs.VT) rs.VT {
	if t == rs.I32 || t == rs.I64 {
		return rs.F64
	}
	return rs.I64
}

type rpOp struct {
	op     *rs.Op
	tuples []Tuple
	exp    []rs.Res
}

// byte-distinct witnesses: every byte differs from byte 0, so reading a wrong byte / register shows.
func rpExtra(op *rs.Op) []Tuple {
	var vals []rs.V
	t := op.In[0]
	switch t {
	case rs.I32, rs.F32:
		for _, x := range []uint64{0x0000807f, 0x00ff7f80, 0x7f80ff01, 0x80000080, 0x0000ff00, 0x00008000, 0x01027f80, 0xff7f8001} {
			vals = append(vals, rs.S(x))
		}
	case rs.I64, rs.F64:
		for _, x := range []uint64{0x000000000000807f, 0x0000000000ff7f80, 0x0102030405067f80, 0x80ff7f0180ff7f01, 0x000000000000ff00, 0x7f80000000008000, 0xfffefdfcfbfa807f, 0x00000000ffff7f80} {
			vals = append(vals, rs.S(x))
		}
	default:
		for i, x := range []uint64{0x000000000000807f, 0x0102030405067f80, 0x80ff7f0180ff7f01, 0xfffefdfcfbfa807f} {
			vals = append(vals, rs.V{Lo: x, Hi: bits.RotateLeft64(x, 8*(i+1)) ^ 0x1122334455667788})
		}
	}
	var out []Tuple
	for i, v := range vals {
		tp := Tuple{v}
		if len(op.In) == 2 {
			tp[1] = vals[(i+3)%len(vals)]
		}
		out = append(out, tp)
	}
	return out
}

func buildRpOps(ops []*rs.Op) []*rpOp {
	var out []*rpOp
	for _, op := range pairRepresentatives(ops) {
		if len(op.In) < 1 || len(op.In) > 2 || (len(op.In) == 2 && op.In[0] != op.In[1]) {
			continue
		}
		ts := append(rpExtra(op), subsample(pairTuples(op), rpMaxTuple-8)...)
		p := &rpOp{op: op}
		for _, t := range ts {
			r := op.Eval(t[0], t[1], t[2])
			if r.Trap != rs.TrapNone {
				continue
			}
			p.tuples = append(p.tuples, t)
			p.exp = append(p.exp, r)
		}
		if len(p.tuples) > 0 {
			out = append(out, p)
		}
	}
	return out
}

// rpShape is one function layout: parameter types and the operand positions.
type rpShape struct {
	n     int
	mixed bool
	pos   []int // parameter index of each operand
}

func rpParamTypes(t rs.VT, n int, mixed bool) []rs.VT {
	pt := make([]rs.VT, n)
	for j := range pt {
		pt[j] = t
		if mixed && j%2 == 1 {
			pt[j] = otherClass(t)
		}
	}
	return pt
}

func rpShapes(arity, n int, mixed bool) []rpShape {
	var tpos []int
	for j := 0; j < n; j++ {
		if !mixed || j%2 == 0 {
			tpos = append(tpos, j)
		}
	}
	var out []rpShape
	if arity == 1 {
		for _, k := range tpos {
			out = append(out, rpShape{n, mixed, []int{k}})
		}
		return out
	}
	seen := map[[2]int]bool{}
	add := func(a, b int) {
		if a == b || seen[[2]int{a, b}] {
			return
		}
		seen[[2]int{a, b}] = true
		out = append(out, rpShape{n, mixed, []int{a, b}})
	}
	for i := 0; i+1 < len(tpos); i++ {
		add(tpos[i], tpos[i+1])
		add(tpos[i+1], tpos[i])
	}
	if len(tpos) >= 2 {
		add(tpos[0], tpos[len(tpos)-1])
	}
	return out
}

func rpFold(a *wb.Asm, t rs.VT, j uint32) {
	switch t {
	case rs.I32:
		a.LocalGet(j).Op(0xad)
	case rs.I64:
		a.LocalGet(j)
	case rs.F32:
		a.LocalGet(j).Op(0xbc).Op(0xad)
	case rs.F64:
		a.LocalGet(j).Op(0xbd)
	case rs.V128:
		a.LocalGet(j).Simd(0x1d).Raw(0)
		a.LocalGet(j).Simd(0x1d).Raw(1)
		a.Op(0x85)
	}
}

func rpFoldVal(t rs.VT, v rs.V) uint64 {
	switch t {
	case rs.I32, rs.F32:
		return v.Lo & rs.Mask(32)
	case rs.V128:
		return v.Lo ^ v.Hi
	}
	return v.Lo
}

func rpFuncBody(op *rs.Op, pt []rs.VT, sh rpShape) []byte {
	a := &wb.Asm{}
	for _, k := range sh.pos {
		a.LocalGet(uint32(k))
	}
	a.Raw(op.Enc...)
	// afterwards: checksum over every parameter (keeps all of them live across the instruction)
	a.I64Const(0)
	for j, t := range pt {
		rpFold(a, t, uint32(j))
		a.Op(0x85)
	}
	return a.B
}

// filler value of parameter j for tuple it (deterministic, byte-distinct).
func rpFiller(t rs.VT, j, it int) rs.V {
	x := bits.RotateLeft64(0x9e3779b97f4a7c15*uint64(j+1), it%61) ^ 0x0123456789abcdef*uint64(it+1)
	switch t {
	case rs.I32, rs.F32:
		return rs.S(x & rs.Mask(32))
	case rs.V128:
		return rs.V{Lo: x, Hi: bits.RotateLeft64(x, 29) ^ 0xfedcba9876543210}
	}
	return rs.S(x)
}

type rpFn struct {
	p  *rpOp
	sh rpShape
}

type rpGroup struct { // functions sharing a driver (same parameter types and result type)
	pt   []rs.VT
	out  rs.VT
	fns  []rpFn
	base int // first table index
}

// rpTask: one module = operand type T, arity n, mixed or not, a chunk of instructions.
type rpTask struct {
	t     rs.VT
	n     int
	mixed bool
	ops   []*rpOp
}

func rpTasks(all []*rpOp) []rpTask {
	var tasks []rpTask
	for _, t := range []rs.VT{rs.I32, rs.I64, rs.F32, rs.F64, rs.V128} {
		var ofT []*rpOp
		for _, p := range all {
			if p.op.In[0] == t {
				ofT = append(ofT, p)
			}
		}
		for _, mixed := range []bool{false, true} {
			for _, n := range rpArities {
				for c := 0; c < len(ofT); c += 24 {
					e := c + 24
					if e > len(ofT) {
						e = len(ofT)
					}
					tasks = append(tasks, rpTask{t, n, mixed, ofT[c:e]})
				}
			}
		}
	}
	return tasks
}

func buildRpModule(tk rpTask) ([]byte, []*rpGroup) {
	m := &wb.Module{}
	m.Mem = &wb.Limits{Min: rpPages, Max: rpPages, HasMax: true}
	pt := rpParamTypes(tk.t, tk.n, tk.mixed)
	wpt := make([]wb.ValType, len(pt))
	for j, t := range pt {
		wpt[j] = wbType(t)
	}
	groups := map[rs.VT]*rpGroup{}
	var order []*rpGroup
	for _, p := range tk.ops {
		shapes := rpShapes(len(p.op.In), tk.n, tk.mixed)
		if len(shapes) == 0 {
			continue
		}
		g := groups[p.op.Out]
		if g == nil {
			g = &rpGroup{pt: pt, out: p.op.Out}
			groups[p.op.Out] = g
			order = append(order, g)
		}
		for _, sh := range shapes {
			g.fns = append(g.fns, rpFn{p, sh})
		}
	}
	var table []uint32
	for _, g := range order {
		g.base = len(table)
		for _, f := range g.fns {
			table = append(table, m.AddFunc(wpt, []wb.ValType{wbType(g.out), wb.I64}, nil, rpFuncBody(f.p.op, pt, f.sh)))
		}
	}
	if len(table) == 0 {
		return nil, nil
	}
	m.Tables = []wb.Table{{Elem: wb.FuncRef, Lim: wb.Limits{Min: uint32(len(table))}}}
	m.Elems = []wb.Elem{{Mode: 0, Offset: wb.CI32(0), Funcs: table}}
	for gi, g := range order {
		typ := m.Type(wpt, []wb.ValType{wbType(g.out), wb.I64})
		// locals: 0 = n, 1 = i, 2 = checksum (i64), 3 = result
		d := &wb.Asm{}
		d.Block(wb.Void)
		d.LocalGet(0).Op(0x45).BrIf(0)
		d.Loop(wb.Void)
		for j, t := range pt {
			d.LocalGet(1).I32Const(8).Op(0x74)
			emitLoad(d, t, uint32(rpIn+j*16))
		}
		d.LocalGet(1).I32Const(2).Op(0x74).Mem(0x28, 2, rpIdx)
		d.CallIndirect(typ, 0)
		d.LocalSet(2).LocalSet(3)
		d.LocalGet(1).I32Const(4).Op(0x74).LocalGet(3)
		emitStore(d, g.out, rpOut0)
		d.LocalGet(1).I32Const(4).Op(0x74).LocalGet(2).Mem(0x37, 3, rpOut1)
		d.LocalGet(1).I32Const(1).Op(0x6a).LocalTee(1).LocalGet(0).Op(0x49).BrIf(0)
		d.End()
		d.End()
		m.ExportFunc(fmt.Sprintf("d%d", gi), m.AddFunc([]wb.ValType{wb.I32}, nil, []wb.ValType{wb.I32, wb.I64, wbType(g.out)}, d.B))
	}
	m.Exports = append(m.Exports, wb.Export{Name: "memory", Kind: wb.KindMemory, Idx: 0})
	return m.Encode(), order
}

type rpMismatch struct {
	f      rpFn
	it     int
	engine int
	which  string // "result" | "checksum" | "error"
	got    string
	want   string
}

func (rm rpMismatch) text() string {
	v := "all parameters of the operand type"
	if rm.f.sh.mixed {
		v = "parameter types alternating with the other register class"
	}
	return fmt.Sprintf("%s(%s) with the operand(s) taken from parameter position(s) %v of a %d-parameter function (%s, every parameter kept live) on the %s engine: %s is %s, expected %s",
		rm.f.p.op.Name, fmtIn(rm.f.p.op, rm.f.p.tuples[rm.it]), rm.f.sh.pos, rm.f.sh.n, v, engineNames[rm.engine], rm.which, rm.got, rm.want)
}

type rpSlot struct {
	f  int // index into group fns
	it int
}

func (w *worker) runRegpos(tk rpTask, st *stats, rep func(rm rpMismatch)) (execs int64, nfuncs int64) {
	ctx := context.Background()
	bin, groups := buildRpModule(tk)
	if bin == nil {
		return 0, 0
	}
	for _, g := range groups {
		nfuncs += int64(len(g.fns))
	}
	st.funcs.Add(nfuncs * 2)
	st.modules.Add(2)
	pt := groups[0].pt
	for e := 0; e < 2; e++ {
		cm, err := w.compile(e, bin)
		if err != nil {
			rep(rpMismatch{f: groups[0].fns[0], engine: e, which: errClass("compile", err), got: errText("compile", err), want: "valid module"})
			continue
		}
		mod, err := w.instantiate(e, cm)
		if err != nil {
			rep(rpMismatch{f: groups[0].fns[0], engine: e, which: errClass("instantiate", err), got: errText("instantiate", err), want: "instance"})
			cm.Close(ctx)
			continue
		}
		mem, _ := mod.Memory().Read(0, rpPages*65536)
		for gi, g := range groups {
			fn := mod.ExportedFunction(fmt.Sprintf("d%d", gi))
			var slots []rpSlot
			for fi, f := range g.fns {
				for it := range f.p.tuples {
					slots = append(slots, rpSlot{fi, it})
				}
			}
			sums := make([]uint64, rpChunk)
			for c0 := 0; c0 < len(slots); c0 += rpChunk {
				c1 := c0 + rpChunk
				if c1 > len(slots) {
					c1 = len(slots)
				}
				for s, sl := range slots[c0:c1] {
					f := g.fns[sl.f]
					t := f.p.tuples[sl.it]
					var sum uint64
					for j, ty := range pt {
						v := rpFiller(ty, j, sl.it)
						for k, pos := range f.sh.pos {
							if pos == j {
								v = t[k]
							}
						}
						putV(mem[rpIn+s*256+j*16:], ty, v)
						sum ^= rpFoldVal(ty, v)
					}
					sums[s] = sum
					binary.LittleEndian.PutUint32(mem[rpIdx+s*4:], uint32(g.base+sl.f))
					binary.LittleEndian.PutUint64(mem[rpOut0+s*16:], 0xa5a5a5a5a5a5a5a5)
					binary.LittleEndian.PutUint64(mem[rpOut0+s*16+8:], 0x5a5a5a5a5a5a5a5a)
					binary.LittleEndian.PutUint64(mem[rpOut1+s*16:], 0xa5a5a5a5a5a5a5a5)
				}
				if _, err := call(fn, uint64(c1-c0)); err != nil {
					sl := slots[c0]
					rep(rpMismatch{f: g.fns[sl.f], it: sl.it, engine: e, which: "error", got: "error in the batch starting here: " + firstLine(err.Error()), want: "no trap (trapping tuples are excluded)"})
					continue
				}
				for s, sl := range slots[c0:c1] {
					f := g.fns[sl.f]
					got := getV(mem[rpOut0+s*16:], g.out)
					if !accept(f.p.op, f.p.exp[sl.it], got) {
						rep(rpMismatch{f: f, it: sl.it, engine: e, which: "result", got: hexV(g.out, got), want: wantString(f.p.op, f.p.exp[sl.it])})
					}
					if c := binary.LittleEndian.Uint64(mem[rpOut1+s*16:]); c != sums[s] {
						rep(rpMismatch{f: f, it: sl.it, engine: e, which: "checksum", got: fmt.Sprintf("%#x", c), want: fmt.Sprintf("%#x", sums[s])})
					}
				}
			}
			execs += int64(len(slots))
		}
		mod.Close(ctx)
		cm.Close(ctx)
	}
	st.evals.Add(execs)
	st.lanes.Add(execs)
	return execs, nfuncs
}
