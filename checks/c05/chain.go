package main

// "Consumer chain" family. Both engines keep i32 and f32 values in 64-bit slots / registers; an
// instruction that leaves sign or garbage bits in the unused upper half is invisible when its result
// is stored or returned through a truncating path, but a width-sensitive consumer (unsigned compare,
// ne/eq, div_u, shifts, rotates, extend_i32_u, convert, select / br_if / br_table condition, memory
// address) sees them. For every instruction producing an i32 or f32, R = op(x[,y]) is fed, in one
// function, into every such consumer (R as left and as right operand) and the final value is compared
// with the refsem composition. f32 results go through i32.reinterpret_f32 into the same consumers
// and through f64.promote_f32. In addition the raw uint64 that api.Function.Call returns for an
// i32/f32 result is inspected (upper half non-zero = informational outcome, not a verdict).

import (
	"context"
	"encoding/binary"
	"fmt"

	rs "github.com/tetratelabs/wazero/verif/checks/c05/refsem"
	"github.com/tetratelabs/wazero/verif/wb"
)

const (
	chainBarrier = 0x9fff0 // address of the barrier store (page 0 holds the load pattern)
	chainLoadMax = 0xfff0
)

func patternByte(i int) byte { return byte(i*7 + 3 + i>>8) }

func patternWord(addr uint64) uint64 {
	var v uint64
	for k := 0; k < 4; k++ {
		v |= uint64(patternByte(int(addr)+k)) << (8 * uint(k))
	}
	return v
}

// consumer consumes R (an i32, or the f32 itself for promote) and possibly a second i32 operand z.
type consumer struct {
	name   string
	out    rs.VT
	outF   *rs.Format
	needZ  bool
	onF32  bool // takes the f32 value itself instead of its reinterpreted bits
	emit   func(a *wb.Asm, pushR, pushZ func())
	eval   func(r, z uint64) rs.Res
	valid  func(r, z uint64) bool // false: the composition would trap / is out of the consumer's domain
}

func (c *consumer) pseudoOp() *rs.Op { return &rs.Op{Name: c.name, Out: c.out, OutF: c.outF} }

func buildConsumers(ops []*rs.Op) []*consumer {
	by := map[string]*rs.Op{}
	for _, o := range ops {
		by[o.Name] = o
	}
	var cs []*consumer
	always := func(_, _ uint64) bool { return true }
	for _, n := range []string{"ne", "eq", "lt_u", "gt_u", "le_u", "ge_u", "lt_s", "gt_s", "div_u", "rem_u", "shr_u", "shr_s", "rotl", "rotr"} {
		op := by["i32."+n]
		for _, left := range []bool{true, false} {
			left := left
			nm := "i32." + n + "(R,z)"
			if !left {
				nm = "i32." + n + "(z,R)"
			}
			c := &consumer{name: nm, out: rs.I32, needZ: true, valid: always}
			c.emit = func(a *wb.Asm, pushR, pushZ func()) {
				if left {
					pushR()
					pushZ()
				} else {
					pushZ()
					pushR()
				}
				a.Raw(op.Enc...)
			}
			c.eval = func(r, z uint64) rs.Res {
				if left {
					return op.Eval(rs.S(r), rs.S(z), rs.V{})
				}
				return op.Eval(rs.S(z), rs.S(r), rs.V{})
			}
			if op.Partial {
				c.valid = func(r, z uint64) bool { return c.eval(r, z).Trap == rs.TrapNone }
			}
			cs = append(cs, c)
		}
	}
	for _, n := range []string{"i32.clz", "i32.ctz", "i32.popcnt", "i64.extend_i32_u", "i64.extend_i32_s", "f32.convert_i32_u", "f32.convert_i32_s",
		"f64.convert_i32_u", "f64.convert_i32_s", "f32.reinterpret_i32"} {
		op := by[n]
		cs = append(cs, &consumer{name: n + "(R)", out: op.Out, outF: op.OutF, valid: always,
			emit: func(a *wb.Asm, pushR, _ func()) { pushR(); a.Raw(op.Enc...) },
			eval: func(r, _ uint64) rs.Res { return op.Eval(rs.S(r), rs.V{}, rs.V{}) }})
	}
	pick := func(c bool) rs.Res {
		if c {
			return rs.Res{V: rs.S(17)}
		}
		return rs.Res{V: rs.S(42)}
	}
	cs = append(cs, &consumer{name: "select(17,42,R)", out: rs.I32, valid: always,
		emit: func(a *wb.Asm, pushR, _ func()) { a.I32Const(17).I32Const(42); pushR(); a.Select() },
		eval: func(r, _ uint64) rs.Res { return pick(r != 0) }})
	cs = append(cs, &consumer{name: "br_if(R)", out: rs.I32, valid: always,
		emit: func(a *wb.Asm, pushR, _ func()) {
			a.Block(wb.I32).I32Const(17)
			pushR()
			a.BrIf(0).Drop().I32Const(42).End()
		},
		eval: func(r, _ uint64) rs.Res { return pick(r != 0) }})
	cs = append(cs, &consumer{name: "br_table(R)", out: rs.I32, valid: always,
		emit: func(a *wb.Asm, pushR, _ func()) {
			a.Block(wb.I32).Block(wb.Void).Block(wb.Void).Block(wb.Void).Block(wb.Void)
			pushR()
			a.BrTable([]uint32{0, 1, 2}, 3)
			a.End().I32Const(100).Br(3)
			a.End().I32Const(101).Br(2)
			a.End().I32Const(102).Br(1)
			a.End().I32Const(199)
			a.End()
		},
		eval: func(r, _ uint64) rs.Res {
			if r < 3 {
				return rs.Res{V: rs.S(100 + r)}
			}
			return rs.Res{V: rs.S(199)}
		}})
	cs = append(cs, &consumer{name: "i32.load(R)", out: rs.I32,
		valid: func(r, _ uint64) bool { return r <= chainLoadMax },
		emit:  func(a *wb.Asm, pushR, _ func()) { pushR(); a.Mem(0x28, 0, 0) },
		eval:  func(r, _ uint64) rs.Res { return rs.Res{V: rs.S(patternWord(r))} }})
	pr := by["f64.promote_f32"]
	cs = append(cs, &consumer{name: "f64.promote_f32(R)", out: rs.F64, outF: pr.OutF, onF32: true, valid: always,
		emit: func(a *wb.Asm, pushR, _ func()) { pushR(); a.Raw(pr.Enc...) },
		eval: func(r, _ uint64) rs.Res { return pr.Eval(rs.S(r), rs.V{}, rs.V{}) }})
	return cs
}

// chainProducer is an instruction with an i32 or f32 result and its tuple list.
type chainProducer struct {
	op     *rs.Op
	tuples []Tuple
	exp    []rs.Res
}

func buildProducers(ops []*rs.Op) []*chainProducer {
	var out []*chainProducer
	for _, op := range pairRepresentatives(ops) {
		if op.Out != rs.I32 && op.Out != rs.F32 {
			continue
		}
		ts := pairTuples(op)
		if len(op.In) == 2 && !isVec(op.In[0]) && !isVec(op.In[1]) {
			for _, x := range smallAlphabet(op.Shapes[0]) {
				for _, y := range smallAlphabet(op.Shapes[1]) {
					ts = append(ts, Tuple{rs.S(x & rs.Mask(uint(op.In[0].Bytes()*8))), rs.S(y & rs.Mask(uint(op.In[1].Bytes()*8)))})
				}
			}
		}
		p := &chainProducer{op: op}
		for _, t := range ts {
			r := op.Eval(t[0], t[1], t[2])
			if r.Trap != rs.TrapNone || r.NaN[0] != rs.NotNaN {
				continue // the bits of R must be determined
			}
			p.tuples = append(p.tuples, t)
			p.exp = append(p.exp, r)
		}
		if len(p.tuples) > 0 {
			out = append(out, p)
		}
	}
	return out
}

func zValues(r uint64) [8]uint64 {
	m := rs.Mask(32)
	return [8]uint64{r & m, (r + 1) & m, (r - 1) & m, 0, m, 0x80000000, 1, 31}
}

func chainFunc(p *rs.Op, c *consumer) (locals []wb.ValType, body []byte) {
	as := &wb.Asm{}
	li := uint32(1)
	var lp []uint32
	for k, t := range p.In {
		as.LocalGet(0)
		emitLoad(as, t, pairIn(k))
		as.LocalSet(li)
		lp = append(lp, li)
		locals = append(locals, wbType(t))
		li++
	}
	lz := li
	as.LocalGet(0)
	emitLoad(as, rs.I32, pairIn(3))
	as.LocalSet(lz)
	locals = append(locals, wb.I32)
	li++
	as.I32Const(0).I32Const(0).Mem(0x36, 2, chainBarrier)
	for _, l := range lp {
		as.LocalGet(l)
	}
	as.Raw(p.Enc...)
	lr := li
	if p.Out == rs.F32 && !c.onF32 {
		as.Op(0xbc) // i32.reinterpret_f32
		locals = append(locals, wb.I32)
	} else {
		locals = append(locals, wbType(p.Out))
	}
	as.LocalSet(lr)
	as.LocalGet(0)
	c.emit(as, func() { as.LocalGet(lr) }, func() { as.LocalGet(lz) })
	emitStore(as, c.out, pairOut0)
	return locals, as.B
}

func consumersFor(p *rs.Op, cs []*consumer) []*consumer {
	var out []*consumer
	for _, c := range cs {
		if c.onF32 && p.Out != rs.F32 {
			continue
		}
		out = append(out, c)
	}
	return out
}

func buildChainModule(p *rs.Op, cs []*consumer) []byte {
	m := &wb.Module{}
	m.Mem = &wb.Limits{Min: pairPages, Max: pairPages, HasMax: true}
	var table []uint32
	for _, c := range cs {
		locals, body := chainFunc(p, c)
		table = append(table, m.AddFunc([]wb.ValType{wb.I32}, nil, locals, body))
	}
	typ := m.Type([]wb.ValType{wb.I32}, nil)
	m.Tables = []wb.Table{{Elem: wb.FuncRef, Lim: wb.Limits{Min: uint32(len(table))}}}
	m.Elems = []wb.Elem{{Mode: 0, Offset: wb.CI32(0), Funcs: table}}
	d := &wb.Asm{}
	d.Block(wb.Void)
	d.LocalGet(0).Op(0x45).BrIf(0)
	d.Loop(wb.Void)
	d.LocalGet(1).I32Const(4).Op(0x74)
	d.LocalGet(1).I32Const(2).Op(0x74).Mem(0x28, 2, pairIdx)
	d.CallIndirect(typ, 0)
	d.LocalGet(1).I32Const(1).Op(0x6a).LocalTee(1).LocalGet(0).Op(0x49).BrIf(0)
	d.End()
	d.End()
	m.ExportFunc("d", m.AddFunc([]wb.ValType{wb.I32}, nil, []wb.ValType{wb.I32}, d.B))
	// the producer alone, operands as parameters, result returned through the host API
	params, body := opFunc(p, Form("PPP"[:len(p.In)]), Tuple{})
	m.ExportFunc("raw", m.AddFunc(params, []wb.ValType{wbType(p.Out)}, nil, body))
	m.Exports = append(m.Exports, wb.Export{Name: "memory", Kind: wb.KindMemory, Idx: 0})
	return m.Encode()
}

type chainMismatch struct {
	class  string // non-empty: the module failed to compile / instantiate (errClass)
	p      *chainProducer
	c      *consumer // nil: raw call
	it     int
	z      uint64
	engine int
	got    string
	want   string
}

func (cm chainMismatch) text() string {
	if cm.c == nil {
		return fmt.Sprintf("%s(%s) called through api.Function.Call on the %s engine returns %s, specification gives %s",
			cm.p.op.Name, fmtIn(cm.p.op, cm.p.tuples[cm.it]), engineNames[cm.engine], cm.got, cm.want)
	}
	return fmt.Sprintf("R = %s(%s) fed into %s (z = %#x) in one function on the %s engine gives %s, the specification gives %s (R = %s)",
		cm.p.op.Name, fmtIn(cm.p.op, cm.p.tuples[cm.it]), cm.c.name, cm.z, engineNames[cm.engine], cm.got, cm.want, hexV(cm.p.op.Out, cm.p.exp[cm.it].V))
}

type chainSlot struct {
	f, it int
	z     uint64
	want  rs.Res
}

type chainCounts struct {
	execs, rawCalls int64
	rawUpper        [2]int64 // raw Call results whose upper half is non-zero, per engine
}

func (w *worker) runChains(p *chainProducer, all []*consumer, st *stats, rep func(cm chainMismatch)) (cc chainCounts) {
	ctx := context.Background()
	cs := consumersFor(p.op, all)
	bin := buildChainModule(p.op, cs)
	st.funcs.Add(int64(len(cs)+1) * 2)
	st.modules.Add(2)
	var slots []chainSlot
	for f, c := range cs {
		for it := range p.tuples {
			r := p.exp[it].V.Lo & rs.Mask(32)
			zs := zValues(r)
			nz := 1
			if c.needZ {
				nz = len(zs)
			}
			for k := 0; k < nz; k++ {
				if !c.valid(r, zs[k]) {
					continue
				}
				slots = append(slots, chainSlot{f, it, zs[k], c.eval(r, zs[k])})
			}
		}
	}
	pseudo := make([]*rs.Op, len(cs))
	for i, c := range cs {
		pseudo[i] = c.pseudoOp()
	}
	for e := 0; e < 2; e++ {
		cmod, err := w.compile(e, bin)
		if err != nil {
			rep(chainMismatch{p: p, engine: e, class: errClass("compile", err), got: errText("compile", err), want: "valid module"})
			continue
		}
		mod, err := w.instantiate(e, cmod)
		if err != nil {
			rep(chainMismatch{p: p, engine: e, class: errClass("instantiate", err), got: errText("instantiate", err), want: "instance"})
			cmod.Close(ctx)
			continue
		}
		mem, _ := mod.Memory().Read(0, pairPages*65536)
		for i := 0; i < 0x10000; i++ {
			mem[i] = patternByte(i)
		}
		fn := mod.ExportedFunction("d")
		for c0 := 0; c0 < len(slots); c0 += chunkN {
			c1 := c0 + chunkN
			if c1 > len(slots) {
				c1 = len(slots)
			}
			for s, sl := range slots[c0:c1] {
				off := s * 16
				t := p.tuples[sl.it]
				for k, ty := range p.op.In {
					putV(mem[int(pairIn(k))+off:], ty, t[k])
				}
				putV(mem[int(pairIn(3))+off:], rs.I32, rs.S(sl.z))
				binary.LittleEndian.PutUint32(mem[pairIdx+s*4:], uint32(sl.f))
				binary.LittleEndian.PutUint64(mem[pairOut0+off:], 0xa5a5a5a5a5a5a5a5)
				binary.LittleEndian.PutUint64(mem[pairOut0+off+8:], 0x5a5a5a5a5a5a5a5a)
			}
			if _, err := call(fn, uint64(c1-c0)); err != nil {
				// locate the failing slot
				for s, sl := range slots[c0:c1] {
					// move slot s to position 0 and run it alone
					off := s * 16
					for k := 0; k < 4; k++ {
						copy(mem[int(pairIn(k)):int(pairIn(k))+16], mem[int(pairIn(k))+off:int(pairIn(k))+off+16])
					}
					binary.LittleEndian.PutUint32(mem[pairIdx:], uint32(sl.f))
					if _, err1 := call(fn, 1); err1 != nil {
						rep(chainMismatch{p: p, c: cs[sl.f], it: sl.it, z: sl.z, engine: e, got: "error: " + firstLine(err1.Error()), want: wantString(pseudo[sl.f], sl.want)})
						break
					}
				}
				continue
			}
			for s, sl := range slots[c0:c1] {
				got := getV(mem[pairOut0+s*16:], cs[sl.f].out)
				if !accept(pseudo[sl.f], sl.want, got) {
					rep(chainMismatch{p: p, c: cs[sl.f], it: sl.it, z: sl.z, engine: e, got: hexV(cs[sl.f].out, got), want: wantString(pseudo[sl.f], sl.want)})
				}
			}
		}
		cc.execs += int64(len(slots))
		// raw results through the host API
		raw := mod.ExportedFunction("raw")
		args := make([]uint64, 0, 6)
		for it, t := range p.tuples {
			args = args[:0]
			for k, ty := range p.op.In {
				args = append(args, t[k].Lo)
				if ty == rs.V128 {
					args = append(args, t[k].Hi)
				}
			}
			res, err := call(raw, args...)
			cc.rawCalls++
			if err != nil || len(res) != 1 {
				rep(chainMismatch{p: p, it: it, engine: e, got: fmt.Sprintf("error: %v", err), want: wantString(p.op, p.exp[it])})
				continue
			}
			if res[0]>>32 != 0 {
				cc.rawUpper[e]++
			}
			if !accept(p.op, p.exp[it], rs.S(res[0]&rs.Mask(32))) {
				rep(chainMismatch{p: p, it: it, engine: e, got: fmt.Sprintf("%#x", res[0]), want: wantString(p.op, p.exp[it])})
			}
		}
		mod.Close(ctx)
		cmod.Close(ctx)
	}
	st.evals.Add(cc.execs + cc.rawCalls)
	st.lanes.Add(cc.execs + cc.rawCalls)
	return cc
}
