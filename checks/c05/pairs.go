package main

// "Pairs in one function" family. A compiler keeps per-function state while lowering: constant
// pools and cached constant-pool indexes, mask tables, fixed temporaries. Two different numeric
// instructions in ONE function can collide there although each is right on its own, which a
// one-instruction-per-function corpus cannot see. For every ordered pair (A, B) of instructions
// one function computes A(x) and then B(y) on independent operands (all operands are loaded
// before A, A's result stays live across B, both results are stored at the end); it is evaluated
// on a boundary-complete reduced tuple list of each instruction on both engines against refsem.

import (
	"context"
	"encoding/binary"
	"fmt"
	"strings"

	rs "github.com/tetratelabs/wazero/verif/checks/c05/refsem"
	"github.com/tetratelabs/wazero/verif/wb"
)

const (
	pairIn0   = 0x10000 // six operand arrays (A: 0..2, B: 3..5), 16-byte stride
	pairOut0  = 0x70000
	pairOut1  = 0x80000
	pairIdx   = 0x90000
	pairPages = 10
)

func pairIn(k int) uint32 { return uint32(pairIn0 + k*0x10000) }

// pairOp is one instruction of the pair family with its reduced tuple list and expectations.
type pairOp struct {
	op     *rs.Op
	tuples []Tuple
	exp    []rs.Res
}

// pairRepresentatives: every instruction name once (for lane immediates the highest lane, for
// shuffle two masks); consumer forms and the move pseudo-instruction are not included.
func pairRepresentatives(ops []*rs.Op) []*rs.Op {
	last := map[string]*rs.Op{}
	var order []string
	nshuf := 0
	for _, op := range ops {
		if op.Enc == nil || op.Pre != nil || strings.Contains(op.Name, "→") {
			continue
		}
		c := opCategory(op)
		if c == "i8x16.shuffle" {
			nshuf++
			if nshuf == 10 || nshuf == 30 { // an interleave and an affine mask
				c = op.Name
			} else {
				continue
			}
		}
		if _, ok := last[c]; !ok {
			order = append(order, c)
		}
		last[c] = op
	}
	var out []*rs.Op
	for _, c := range order {
		out = append(out, last[c])
	}
	return out
}

// pairTuples: every value of each operand's boundary alphabet appears at least once in each
// operand position (vector operands: packed into lanes); tuples on which the instruction traps
// are left out.
func pairTuples(op *rs.Op) []Tuple {
	var lists [3][]rs.V
	n := 0
	for k, t := range op.In {
		sh := op.Shapes[k]
		var l []rs.V
		switch {
		case isVec(t):
			w := sh.Bits()
			rot := []int{0}
			if w == 64 {
				rot = []int{0, 1}
			}
			l = packVectors(w, laneAlphabet(sh, false), rot)
			l = append(l, splatV(w, 0), splatV(w, rs.Mask(w)))
		case sh == rs.SCount:
			for _, c := range []uint64{0, 1, 2, 3, 4, 5, 6, 7, 8, 9, 15, 16, 17, 31, 32, 33, 63, 64, 65, 0x107, 0xffffffff} {
				l = append(l, rs.S(c))
			}
		default:
			for _, x := range laneAlphabet(sh, false) {
				l = append(l, rs.S(x&rs.Mask(uint(t.Bytes()*8))))
			}
		}
		lists[k] = l
		if len(l) > n {
			n = len(l)
		}
	}
	var out []Tuple
	for i := 0; i < n; i++ {
		var t Tuple
		for k := range op.In {
			l := lists[k]
			j := i
			if k > 0 {
				j = i + k*(1+len(l)/2)
			}
			t[k] = l[j%len(l)]
		}
		if op.Partial && op.Eval(t[0], t[1], t[2]).Trap != rs.TrapNone {
			continue
		}
		out = append(out, t)
	}
	return out
}

func buildPairOps(ops []*rs.Op) []*pairOp {
	var out []*pairOp
	for _, op := range pairRepresentatives(ops) {
		p := &pairOp{op: op, tuples: pairTuples(op)}
		for _, t := range p.tuples {
			p.exp = append(p.exp, op.Eval(t[0], t[1], t[2]))
		}
		if len(p.tuples) > 0 {
			out = append(out, p)
		}
	}
	return out
}

// pairFunc emits the body of f(off i32): load A's and B's operands, barrier store, A, B, store both.
func pairFunc(a, b *rs.Op) (locals []wb.ValType, body []byte) {
	as := &wb.Asm{}
	li := uint32(1)
	var la, lb []uint32
	for k, t := range a.In {
		as.LocalGet(0)
		emitLoad(as, t, pairIn(k))
		as.LocalSet(li)
		la = append(la, li)
		locals = append(locals, wbType(t))
		li++
	}
	for k, t := range b.In {
		as.LocalGet(0)
		emitLoad(as, t, pairIn(3+k))
		as.LocalSet(li)
		lb = append(lb, li)
		locals = append(locals, wbType(t))
		li++
	}
	// a store ends the instruction group, so the operands reach the instructions in registers
	as.I32Const(0).I32Const(0).Mem(0x36, 2, 0)
	for _, l := range la {
		as.LocalGet(l)
	}
	as.Raw(a.Enc...)
	ra := li
	locals = append(locals, wbType(a.Out))
	as.LocalSet(ra)
	li++
	for _, l := range lb {
		as.LocalGet(l)
	}
	as.Raw(b.Enc...)
	rb := li
	locals = append(locals, wbType(b.Out))
	as.LocalSet(rb)
	as.LocalGet(0).LocalGet(ra)
	emitStore(as, a.Out, pairOut0)
	as.LocalGet(0).LocalGet(rb)
	emitStore(as, b.Out, pairOut1)
	return locals, as.B
}

// buildPairModule: functions (a, bs[i]) in table slot i and a driver d(n).
func buildPairModule(a *rs.Op, bs []*rs.Op) []byte {
	m := &wb.Module{}
	m.Mem = &wb.Limits{Min: pairPages, Max: pairPages, HasMax: true}
	var table []uint32
	for _, b := range bs {
		locals, body := pairFunc(a, b)
		table = append(table, m.AddFunc([]wb.ValType{wb.I32}, nil, locals, body))
	}
	typ := m.Type([]wb.ValType{wb.I32}, nil)
	m.Tables = []wb.Table{{Elem: wb.FuncRef, Lim: wb.Limits{Min: uint32(len(table))}}}
	m.Elems = []wb.Elem{{Mode: 0, Offset: wb.CI32(0), Funcs: table}}
	d := &wb.Asm{}
	d.Block(wb.Void)
	d.LocalGet(0).Op(0x45).BrIf(0)
	d.Loop(wb.Void)
	d.LocalGet(1).I32Const(4).Op(0x74)
	d.LocalGet(1).I32Const(2).Op(0x74).Mem(0x28, 2, pairIdx)
	d.CallIndirect(typ, 0)
	d.LocalGet(1).I32Const(1).Op(0x6a).LocalTee(1).LocalGet(0).Op(0x49).BrIf(0)
	d.End()
	d.End()
	m.ExportFunc("d", m.AddFunc([]wb.ValType{wb.I32}, nil, []wb.ValType{wb.I32}, d.B))
	m.Exports = append(m.Exports, wb.Export{Name: "memory", Kind: wb.KindMemory, Idx: 0})
	return m.Encode()
}

type pairMismatch struct {
	A, B     *pairOp
	ia, ib   int
	engine   int
	which    string // "first" or "second": which instruction's result is wrong
	got      string
	wantText string
}

type pairSlot struct {
	f      int // function (index into bs)
	ia, ib int
}

// runPairs evaluates every pair (a, b) for b in bs on both engines.
func (w *worker) runPairs(a *pairOp, bs []*pairOp, st *stats, rep func(pm pairMismatch)) (calls int64) {
	ctx := context.Background()
	bops := make([]*rs.Op, len(bs))
	for i, b := range bs {
		bops[i] = b.op
	}
	bin := buildPairModule(a.op, bops)
	st.funcs.Add(int64(len(bs)) * 2)
	st.modules.Add(2)
	var slots []pairSlot
	for f, b := range bs {
		k := len(a.tuples)
		if len(b.tuples) > k {
			k = len(b.tuples)
		}
		for i := 0; i < k; i++ {
			slots = append(slots, pairSlot{f, i % len(a.tuples), i % len(b.tuples)})
		}
	}
	for e := 0; e < 2; e++ {
		cm, err := w.compile(e, bin)
		if err != nil {
			rep(pairMismatch{A: a, B: bs[0], engine: e, which: errClass("compile", err), got: errText("compile", err), wantText: "valid module"})
			continue
		}
		mod, err := w.instantiate(e, cm)
		if err != nil {
			rep(pairMismatch{A: a, B: bs[0], engine: e, which: errClass("instantiate", err), got: errText("instantiate", err), wantText: "instance"})
			cm.Close(ctx)
			continue
		}
		mem, _ := mod.Memory().Read(0, pairPages*65536)
		fn := mod.ExportedFunction("d")
		for c0 := 0; c0 < len(slots); c0 += chunkN {
			c1 := c0 + chunkN
			if c1 > len(slots) {
				c1 = len(slots)
			}
			for s, sl := range slots[c0:c1] {
				off := s * 16
				ta, tb := a.tuples[sl.ia], bs[sl.f].tuples[sl.ib]
				for k, ty := range a.op.In {
					putV(mem[int(pairIn(k))+off:], ty, ta[k])
				}
				for k, ty := range bs[sl.f].op.In {
					putV(mem[int(pairIn(3+k))+off:], ty, tb[k])
				}
				binary.LittleEndian.PutUint32(mem[pairIdx+s*4:], uint32(sl.f))
				for _, o := range []int{pairOut0, pairOut1} {
					binary.LittleEndian.PutUint64(mem[o+off:], 0xa5a5a5a5a5a5a5a5)
					binary.LittleEndian.PutUint64(mem[o+off+8:], 0x5a5a5a5a5a5a5a5a)
				}
			}
			if _, err := call(fn, uint64(c1-c0)); err != nil {
				rep(pairMismatch{A: a, B: bs[slots[c0].f], engine: e, which: errClass("call", err), got: errText("call", err), wantText: "no trap (trapping tuples are excluded)"})
				continue
			}
			for s, sl := range slots[c0:c1] {
				off := s * 16
				b := bs[sl.f]
				ga := getV(mem[pairOut0+off:], a.op.Out)
				gb := getV(mem[pairOut1+off:], b.op.Out)
				if !accept(a.op, a.exp[sl.ia], ga) {
					rep(pairMismatch{A: a, B: b, ia: sl.ia, ib: sl.ib, engine: e, which: "first", got: hexV(a.op.Out, ga), wantText: wantString(a.op, a.exp[sl.ia])})
				}
				if !accept(b.op, b.exp[sl.ib], gb) {
					rep(pairMismatch{A: a, B: b, ia: sl.ia, ib: sl.ib, engine: e, which: "second", got: hexV(b.op.Out, gb), wantText: wantString(b.op, b.exp[sl.ib])})
				}
			}
		}
		calls += int64(len(slots))
		mod.Close(ctx)
		cm.Close(ctx)
	}
	st.evals.Add(2 * calls)
	st.lanes.Add(calls * (laneCount(a.op) + 1))
	return calls
}

func (pm pairMismatch) text() string {
	if pm.which != "first" && pm.which != "second" {
		return fmt.Sprintf("function computing %s then %s on the %s engine: %s (expected %s)", pm.A.op.Name, pm.B.op.Name, engineNames[pm.engine], pm.got, pm.wantText)
	}
	wrong := pm.A.op.Name
	if pm.which == "second" {
		wrong = pm.B.op.Name
	}
	return fmt.Sprintf("one function computing %s(%s) and then %s(%s) on the %s engine: the %s result (%s) is %s, specification gives %s",
		pm.A.op.Name, fmtIn(pm.A.op, pm.A.tuples[pm.ia]), pm.B.op.Name, fmtIn(pm.B.op, pm.B.tuples[pm.ib]), engineNames[pm.engine], pm.which, wrong, pm.got, pm.wantText)
}
