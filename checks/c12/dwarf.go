package main

import (
	"encoding/binary"

	"github.com/tetratelabs/wazero/verif/wb"
)

// validDWARF synthesises a minimal but well-formed DWARF v4 description (one compile unit covering
// code-section offsets [1, 1+span), one line-number sequence advancing one source line per byte) so
// that wazero really parses it, builds a source map in the compiler and resolves lines when a trap's
// stack trace is rendered. Address 0 is avoided because wazero treats it as a tombstone.
func validDWARF(span uint32, file string) []wb.Custom {
	le32 := func(v uint32) []byte { return binary.LittleEndian.AppendUint32(nil, v) }
	le16 := func(v uint16) []byte { return binary.LittleEndian.AppendUint16(nil, v) }

	// .debug_abbrev: abbrev 1 = DW_TAG_compile_unit, no children
	abbrev := []byte{
		1, 0x11, 0,
		0x03, 0x08, // DW_AT_name, DW_FORM_string
		0x10, 0x17, // DW_AT_stmt_list, DW_FORM_sec_offset
		0x11, 0x01, // DW_AT_low_pc, DW_FORM_addr
		0x12, 0x06, // DW_AT_high_pc, DW_FORM_data4 (offset from low_pc)
		0, 0,
		0,
	}
	// .debug_info
	var die []byte
	die = append(die, 1)
	die = append(die, append([]byte(file), 0)...)
	die = append(die, le32(0)...)    // stmt_list
	die = append(die, le32(1)...)    // low_pc
	die = append(die, le32(span)...) // high_pc (size)
	var cu []byte
	cu = append(cu, le16(4)...) // version
	cu = append(cu, le32(0)...) // abbrev offset
	cu = append(cu, 4)          // address size
	cu = append(cu, die...)
	info := append(le32(uint32(len(cu))), cu...)

	// .debug_line
	var hdrRest []byte
	hdrRest = append(hdrRest, 1)          // minimum_instruction_length
	hdrRest = append(hdrRest, 1)          // maximum_operations_per_instruction
	hdrRest = append(hdrRest, 1)          // default_is_stmt
	hdrRest = append(hdrRest, byte(0xfb)) // line_base = -5
	hdrRest = append(hdrRest, 14)         // line_range
	hdrRest = append(hdrRest, 13)         // opcode_base
	hdrRest = append(hdrRest, 0, 1, 1, 1, 1, 0, 0, 0, 1, 0, 0, 1)
	hdrRest = append(hdrRest, 0) // include_directories: none
	hdrRest = append(hdrRest, append([]byte(file), 0)...)
	hdrRest = append(hdrRest, 0, 0, 0) // dir index, mtime, length
	hdrRest = append(hdrRest, 0)       // end of file_names
	var prog []byte
	prog = append(prog, 0, 5, 2)    // DW_LNE_set_address
	prog = append(prog, le32(1)...) //   address 1
	n := span
	if n > 200 {
		n = 200
	}
	for i := uint32(0); i < n; i++ {
		// special opcode: address += 1, line += 1  => (1 - line_base) + line_range*1 + opcode_base
		prog = append(prog, byte((1+5)+14*1+13))
	}
	prog = append(prog, 0x02, 0x80, 0x80, 0x04) // DW_LNS_advance_pc 65536
	prog = append(prog, 0, 1, 1)                // DW_LNE_end_sequence
	var unit []byte
	unit = append(unit, le16(4)...)
	unit = append(unit, le32(uint32(len(hdrRest)))...)
	unit = append(unit, hdrRest...)
	unit = append(unit, prog...)
	line := append(le32(uint32(len(unit))), unit...)

	return []wb.Custom{
		{Name: ".debug_abbrev", Data: abbrev},
		{Name: ".debug_info", Data: info},
		{Name: ".debug_line", Data: line},
		{Name: ".debug_str", Data: append([]byte(file), 0)},
	}
}

// garbageDWARF: sections with the DWARF names and deterministic pseudo-random contents (k selects the pattern).
func garbageDWARF(k int) []wb.Custom {
	gen := func(n int, seed uint32) []byte {
		b := make([]byte, n)
		x := seed*2654435761 + 12345
		for i := range b {
			x = x*1664525 + 1013904223
			b[i] = byte(x >> 24)
		}
		return b
	}
	names := []string{".debug_info", ".debug_abbrev", ".debug_line", ".debug_str", ".debug_ranges", ".debug_loc"}
	var out []wb.Custom
	for i, nm := range names {
		if k > 0 && (k>>uint(i%4))&1 == 1 && i > 0 {
			continue // leave some sections out in the variants
		}
		out = append(out, wb.Custom{Name: nm, Data: gen(24+17*i+5*k, uint32(i+7*k+1))})
	}
	return out
}
