package main

import (
	"context"
	"encoding/binary"
	"errors"
	"fmt"
	"os"
	"strings"

	"github.com/tetratelabs/wazero"
	"github.com/tetratelabs/wazero/api"
	"github.com/tetratelabs/wazero/experimental"
	"github.com/tetratelabs/wazero/internal/wasm"
	"github.com/tetratelabs/wazero/internal/wasmruntime"
	"github.com/tetratelabs/wazero/sys"
)

// ---------------------------------------------------------------- settings of one runtime

// settings is everything that distinguishes one runtime from another in this check. Engine, Limit and
// V1 are semantic (they select the baseline the run is compared with); the other six are the toggles
// the property calls non-semantic.
type settings struct {
	Engine   string `json:"engine"`          // "compiler" | "interpreter"
	Limit    uint32 `json:"limit,omitempty"` // WithMemoryLimitPages; 0 = wazero's default (65536)
	V1       bool   `json:"v1,omitempty"`    // WithCoreFeatures(api.CoreFeaturesV1)
	// Feat: the experimental core feature the PROGRAM needs on top of WebAssembly 2.0 ("" none, "tail"
	// tail calls, "threads" atomics). Semantic: set from the program in newRT for every runtime of the
	// program (baseline and point alike) unless the runtime is a CoreFeaturesV1 one.
	Feat string `json:"feat,omitempty"`
	CapMax   bool   `json:"capmax,omitempty"`
	Alloc    bool   `json:"alloc,omitempty"`
	NoDebug  bool   `json:"nodebug,omitempty"`
	Custom   bool   `json:"custom,omitempty"`
	Listener bool   `json:"listener,omitempty"`
	LMode    string `json:"lmode,omitempty"` // with Listener: "" every function, "nil" no function, "subset" every other function
	COD      bool   `json:"cod,omitempty"`
}

func (s settings) config(cache wazero.CompilationCache) wazero.RuntimeConfig {
	var c wazero.RuntimeConfig
	if s.Engine == "compiler" {
		c = wazero.NewRuntimeConfigCompiler()
	} else {
		c = wazero.NewRuntimeConfigInterpreter()
	}
	if s.Limit != 0 {
		c = c.WithMemoryLimitPages(s.Limit)
	}
	switch {
	case s.V1:
		c = c.WithCoreFeatures(api.CoreFeaturesV1)
	case s.Feat == "tail":
		c = c.WithCoreFeatures(api.CoreFeaturesV2 | experimental.CoreFeaturesTailCall)
	case s.Feat == "threads":
		c = c.WithCoreFeatures(api.CoreFeaturesV2 | experimental.CoreFeaturesThreads)
	case s.Feat != "":
		panic("unknown feature " + s.Feat)
	}
	if s.CapMax {
		c = c.WithMemoryCapacityFromMax(true)
	}
	if s.NoDebug {
		c = c.WithDebugInfoEnabled(false)
	}
	if s.Custom {
		c = c.WithCustomSections(true)
	}
	if s.COD {
		c = c.WithCloseOnContextDone(true)
	}
	if cache != nil {
		c = c.WithCompilationCache(cache)
	}
	return c
}

// toggles renders the non-semantic toggles that are on, in a fixed order.
func (s settings) toggles() string {
	var t []string
	if s.CapMax {
		t = append(t, "capmax")
	}
	if s.Alloc {
		t = append(t, "alloc")
	}
	if s.NoDebug {
		t = append(t, "nodebug")
	}
	if s.Custom {
		t = append(t, "custom")
	}
	if s.Listener {
		if s.LMode == "" {
			t = append(t, "listener")
		} else {
			t = append(t, "listener-"+s.LMode)
		}
	}
	if s.COD {
		t = append(t, "cod")
	}
	return strings.Join(t, "+")
}

func (s settings) limit() uint32 {
	if s.Limit == 0 {
		return 65536
	}
	return s.Limit
}

// ---------------------------------------------------------------- recorders

// movAlloc is a conforming experimental.MemoryAllocator that is as unfriendly as the contract allows
// for non-shared memories: every Reallocate MOVES the memory and the abandoned buffer is poisoned, so
// an engine that keeps a stale base pointer or length reads garbage. Contents are preserved and new
// bytes are zero. It ignores the capacity hint (no large reservation is ever made).
type movAlloc struct {
	allocs, reallocs, frees int
}

type movMem struct {
	a   *movAlloc
	buf []byte
}

func (a *movAlloc) Allocate(cap, max uint64) experimental.LinearMemory {
	a.allocs++
	return &movMem{a: a}
}

func (m *movMem) Reallocate(size uint64) []byte {
	m.a.reallocs++
	nb := make([]byte, size)
	copy(nb, m.buf)
	for i := range m.buf {
		m.buf[i] = 0xA5
	}
	m.buf = nb
	return nb
}

func (m *movMem) Free() {
	m.a.frees++
	for i := range m.buf {
		m.buf[i] = 0xA5
	}
	m.buf = nil
}

// lstRec is a recording listener (one instance for all functions): it only counts. The factory is in the
// context both when the guest modules are compiled and when the "env" host module is instantiated, so host
// functions are listened too; with hostOnly it returns a listener for host functions only.
type lstRec struct {
	hostOnly                   bool
	mode                       string // "" every function, "nil" none (the factory declines every function), "subset" every other function
	made, before, after, abort int
}

func (l *lstRec) NewFunctionListener(def api.FunctionDefinition) experimental.FunctionListener {
	switch {
	case l.mode == "nil":
		return nil
	case l.mode == "subset":
		if def.Index()%2 == 1 {
			return nil
		}
	case l.hostOnly && def.GoFunction() == nil:
		return nil
	}
	l.made++
	return l
}
func (l *lstRec) Before(context.Context, api.Module, api.FunctionDefinition, []uint64, experimental.StackIterator) {
	l.before++
}
func (l *lstRec) After(context.Context, api.Module, api.FunctionDefinition, []uint64) { l.after++ }
func (l *lstRec) Abort(context.Context, api.Module, api.FunctionDefinition, error)    { l.abort++ }

func (l *lstRec) String() string {
	return fmt.Sprintf("made=%d before=%d after=%d abort=%d", l.made, l.before, l.after, l.abort)
}

// ---------------------------------------------------------------- one runtime running one program

type rtRun struct {
	s       settings
	rt      wazero.Runtime
	ctx     context.Context
	cancel  context.CancelFunc
	lst     *lstRec
	alloc   *movAlloc
	envErr  string
	libCode wazero.CompiledModule
	code    wazero.CompiledModule
	tr      []string // the canonical trace (guest-observable behaviour only)
	lstLine string   // listener event counts: secondary observation, compared among listener-on points only
	customs int      // number of custom sections the CompiledModule exposes (outcome histogram only)
	capPre  bool     // the memory was created with capacity beyond its minimum (outcome histogram only)
	done    bool
	fns     map[string]api.Function // one api.Function per export, re-used sequentially (never re-entered)
	cur     *callCtx                // the context of the scripted call in progress (family ctxdone)
}

func (r *rtRun) add(format string, a ...any) { r.tr = append(r.tr, fmt.Sprintf(format, a...)) }

// newRT creates the runtime and its "env" host module.
func newRT(p *program, s settings, cache wazero.CompilationCache) *rtRun {
	s.Feat = p.Feat
	r := &rtRun{s: s}
	ctx, cancel := context.WithCancel(context.Background()) // cancellable but never cancelled while the guest runs
	r.cancel = cancel
	if s.Listener {
		r.lst = &lstRec{hostOnly: p.ListenHostOnly, mode: s.LMode}
		ctx = experimental.WithFunctionListenerFactory(ctx, r.lst)
	}
	if s.Alloc {
		r.alloc = &movAlloc{}
		ctx = experimental.WithMemoryAllocator(ctx, r.alloc)
	}
	r.ctx = ctx
	r.rt = wazero.NewRuntimeWithConfig(context.Background(), s.config(cache))
	r.buildEnv()
	return r
}

var (
	tI32 = api.ValueTypeI32
	tI64 = api.ValueTypeI64
	tF32 = api.ValueTypeF32
	tF64 = api.ValueTypeF64
	tExt = api.ValueTypeExternref
)

// buildEnv instantiates the host module "env". The host functions append to the same ordered trace as
// the calls, which gives the ordered host-call log of the property.
func (r *rtRun) buildEnv() {
	b := r.rt.NewHostModuleBuilder("env")
	def := func(name string, params, results []api.ValueType, fn func(ctx context.Context, mod api.Module, stack []uint64)) {
		b = b.NewFunctionBuilder().WithGoModuleFunction(api.GoModuleFunc(fn), params, results).Export(name)
	}
	def("log", []api.ValueType{tI32}, nil, func(_ context.Context, _ api.Module, st []uint64) {
		r.add(" host log(%d)", uint32(st[0]))
	})
	def("add64", []api.ValueType{tI64, tI64}, []api.ValueType{tI64}, func(_ context.Context, _ api.Module, st []uint64) {
		r.add(" host add64(%#x,%#x)", st[0], st[1])
		st[0] = st[0] + st[1]
	})
	def("rw", []api.ValueType{tI32, tI32}, []api.ValueType{tI32}, func(_ context.Context, mod api.Module, st []uint64) {
		ptr, n := uint32(st[0]), uint32(st[1])
		mem := memOf(mod)
		if mem == nil {
			r.add(" host rw(%d,%d) nomem", ptr, n)
			st[0] = uint64(uint32(0xfffffffe))
			return
		}
		buf, ok := mem.Read(ptr, n)
		if !ok {
			r.add(" host rw(%d,%d) oob", ptr, n)
			st[0] = uint64(uint32(0xffffffff))
			return
		}
		sum := uint32(0)
		for _, c := range buf {
			sum = sum*31 + uint32(c)
		}
		rev := make([]byte, len(buf))
		for i, c := range buf {
			rev[len(buf)-1-i] = c
		}
		mem.Write(ptr, rev)
		r.add(" host rw(%d,%d) sum=%#x", ptr, n, sum)
		st[0] = uint64(sum)
	})
	def("f64pass", []api.ValueType{tF64}, []api.ValueType{tF64}, func(_ context.Context, _ api.Module, st []uint64) {
		r.add(" host f64pass(%#x)", st[0])
	})
	def("f32pass", []api.ValueType{tF32}, []api.ValueType{tF32}, func(_ context.Context, _ api.Module, st []uint64) {
		r.add(" host f32pass(%#x)", uint32(st[0]))
	})
	def("panic", nil, nil, func(context.Context, api.Module, []uint64) {
		r.add(" host panic()")
		panic("c12 host panic")
	})
	def("exit", []api.ValueType{tI32}, nil, func(ctx context.Context, mod api.Module, st []uint64) {
		// the way WASI proc_exit leaves the guest: close the module, then unwind with sys.ExitError.
		code := uint32(st[0])
		r.add(" host exit(%d)", code)
		_ = mod.CloseWithExitCode(ctx, code)
		panic(sys.NewExitError(code))
	})
	def("closeonly", []api.ValueType{tI32}, nil, func(ctx context.Context, mod api.Module, st []uint64) {
		// closes the module and RETURNS: a documented trigger of WithCloseOnContextDone (only used by
		// termination-sensitive programs, which are compared per value of that option).
		r.add(" host closeonly(%d)", uint32(st[0]))
		_ = mod.CloseWithExitCode(ctx, uint32(st[0]))
	})
	def("reenter", []api.ValueType{tI32}, []api.ValueType{tI32}, func(ctx context.Context, mod api.Module, st []uint64) {
		x := uint32(st[0])
		fn := mod.ExportedFunction("cb") // a fresh api.Function for the nested call
		if fn == nil {
			r.add(" host reenter(%d) nocb", x)
			st[0] = 0
			return
		}
		r.add(" host reenter(%d) >", x)
		res, err := fn.Call(ctx, uint64(x))
		if err != nil {
			r.add(" host reenter(%d) < %s", x, errKind(err))
			panic(err)
		}
		r.add(" host reenter(%d) < %d", x, uint32(res[0]))
		st[0] = uint64(uint32(res[0]) + 1)
	})
	def("memgrow", []api.ValueType{tI32}, []api.ValueType{tI32}, func(_ context.Context, mod api.Module, st []uint64) {
		d := uint32(st[0])
		mem := memOf(mod)
		if mem == nil {
			st[0] = uint64(uint32(0xfffffffe))
			return
		}
		prev, ok := mem.Grow(d)
		r.add(" host memgrow(%d) -> %d,%v size=%d", d, prev, ok, mem.Size())
		if !ok {
			prev = 0xffffffff
		}
		st[0] = uint64(prev)
	})
	def("peek", []api.ValueType{tI32}, []api.ValueType{tI32}, func(_ context.Context, mod api.Module, st []uint64) {
		// the embedder reading guest memory through api.Memory
		addr := uint32(st[0])
		v, ok := uint32(0xfffffffd), false
		if mem := memOf(mod); mem != nil {
			v, ok = mem.ReadUint32Le(addr)
		}
		r.add(" host peek(%d) -> %#x,%v", addr, v, ok)
		st[0] = uint64(v)
	})
	if !r.s.V1 { // multi-value and reference types do not exist under CoreFeaturesV1
		def("pair", []api.ValueType{tI32}, []api.ValueType{tI32, tI64}, func(_ context.Context, _ api.Module, st []uint64) {
			x := uint32(st[0])
			r.add(" host pair(%d)", x)
			st[0] = uint64(x + 1)
			st[1] = uint64(x) * 0x100000001
		})
		def("ext", []api.ValueType{tExt}, []api.ValueType{tExt}, func(_ context.Context, _ api.Module, st []uint64) {
			r.add(" host ext(%#x)", st[0])
		})
	}
	// module-dependent host functions in every definition style: what they do depends on WHICH module they are handed
	seen := func(mod api.Module) string {
		if mod == nil {
			return "<nil>"
		}
		return mod.Name()
	}
	def("mrd", []api.ValueType{tI32}, []api.ValueType{tI32}, func(_ context.Context, mod api.Module, st []uint64) { // api.GoModuleFunc
		addr := uint32(st[0])
		v := uint32(0xfffffffd)
		if mem := memOf(mod); mem != nil {
			if c, ok := mem.ReadByte(addr); ok {
				v = uint32(c)
			}
		}
		r.add(" host mrd(%d) in %s -> %#x", addr, seen(mod), v)
		st[0] = uint64(v)
	})
	b = b.NewFunctionBuilder().WithFunc(func(_ context.Context, mod api.Module, addr, val uint32) { // reflection, (ctx, api.Module, ...)
		ok := false
		if mem := memOf(mod); mem != nil {
			ok = mem.WriteByte(addr, byte(val))
		}
		r.add(" host mwr(%d,%#x) in %s -> %v", addr, val, seen(mod), ok)
	}).Export("mwr")
	b = b.NewFunctionBuilder().WithFunc(func(_ context.Context, mod api.Module) uint32 { // reflection
		h := uint32(fnv(seen(mod)))
		r.add(" host mname() in %s", seen(mod))
		return h
	}).Export("mname")
	def("mglob", nil, []api.ValueType{tI64}, func(_ context.Context, mod api.Module, st []uint64) {
		v := uint64(0xdead)
		if g := mod.ExportedGlobal("tag"); g != nil {
			v = g.Get()
		}
		r.add(" host mglob() in %s -> %#x", seen(mod), v)
		st[0] = v
	})
	b = b.NewFunctionBuilder().WithGoFunction(api.GoFunc(func(_ context.Context, st []uint64) { // api.GoFunc: no module at all
		r.add(" host note(%d)", uint32(st[0]))
		st[0] = uint64(uint32(st[0]) ^ 0x5a)
	}), []api.ValueType{tI32}, []api.ValueType{tI32}).Export("note")
	def("reentermain", []api.ValueType{tI32}, []api.ValueType{tI32}, func(ctx context.Context, mod api.Module, st []uint64) {
		// re-enters an export of the module named "main" whoever the caller is
		x := uint32(st[0])
		main := r.rt.Module("main")
		if main == nil || main.ExportedFunction("cb") == nil {
			r.add(" host reentermain(%d) in %s: no main.cb", x, seen(mod))
			st[0] = 0
			return
		}
		r.add(" host reentermain(%d) in %s >", x, seen(mod))
		res, err := main.ExportedFunction("cb").Call(ctx, uint64(x))
		if err != nil {
			r.add(" host reentermain(%d) < %s", x, errKind(err))
			panic(err)
		}
		r.add(" host reentermain(%d) in %s < %d", x, seen(mod), uint32(res[0]))
		st[0] = uint64(uint32(res[0]) + 1)
	})
	def("ctxdone", []api.ValueType{tI32}, []api.ValueType{tI32}, r.hostCtxDone) // last: keeps the indices of the others
	// the listener factory (if any) is in r.ctx: host functions get listeners as well
	if _, err := b.Instantiate(r.ctx); err != nil {
		r.envErr = err.Error()
	}
}

// errKind maps an error to a canonical class; error texts (stack traces, DWARF lines, function names)
// are deliberately not compared.
func errKind(err error) string {
	if err == nil {
		return "ok"
	}
	var ee *sys.ExitError
	if errors.As(err, &ee) {
		return fmt.Sprintf("exit(%d)", ee.ExitCode())
	}
	for _, s := range []*wasmruntime.Error{
		wasmruntime.ErrRuntimeStackOverflow, wasmruntime.ErrRuntimeInvalidConversionToInteger,
		wasmruntime.ErrRuntimeIntegerOverflow, wasmruntime.ErrRuntimeIntegerDivideByZero,
		wasmruntime.ErrRuntimeUnreachable, wasmruntime.ErrRuntimeOutOfBoundsMemoryAccess,
		wasmruntime.ErrRuntimeInvalidTableAccess, wasmruntime.ErrRuntimeIndirectCallTypeMismatch,
		wasmruntime.ErrRuntimeUnalignedAtomic, wasmruntime.ErrRuntimeExpectedSharedMemory,
	} {
		if errors.Is(err, s) {
			return "trap:" + s.Error()
		}
	}
	if strings.Contains(err.Error(), "c12 host panic") {
		return "host-panic"
	}
	if strings.Contains(err.Error(), "source module must be compiled before instantiation") {
		return "error:not-compiled"
	}
	return "error:other"
}

// compile compiles the optional library module and the program. Listener factories are taken from the
// context at this point.
func (r *rtRun) compile(p *program) {
	if r.envErr != "" {
		r.add("env err")
		return
	}
	if p.Lib != nil {
		c, err := r.rt.CompileModule(r.ctx, p.Lib)
		if err != nil {
			r.add("compile lib err")
			dbg("compile lib %s: %v", p.Name, err)
		} else {
			r.add("compile lib ok")
			r.libCode = c
		}
	}
	c, err := r.rt.CompileModule(r.ctx, p.Bin)
	if err != nil {
		r.add("compile err")
		dbg("compile %s [%s]: %v", p.Name, r.s.toggles(), err)
		return
	}
	r.add("compile ok")
	r.code = c
	r.customs = len(c.CustomSections())
	// the module's interface as the embedder sees it
	fns := c.ExportedFunctions()
	for _, nm := range sortedKeys(fns) {
		d := fns[nm]
		r.add("iface func %s %v->%v name=%q", nm, d.ParamTypes(), d.ResultTypes(), d.Name())
	}
	mems := c.ExportedMemories()
	for _, nm := range sortedKeys(mems) {
		d := mems[nm]
		mx, enc := d.Max()
		if !enc {
			mx = 0 // without a declared maximum Max() reports the runtime limit, which the baseline shares
		}
		r.add("iface mem %s min=%d max=%d,%v", nm, d.Min(), mx, enc)
	}
}

func sortedKeys[V any](m map[string]V) []string {
	ks := make([]string, 0, len(m))
	for k := range m {
		ks = append(ks, k)
	}
	for i := 1; i < len(ks); i++ {
		for j := i; j > 0 && ks[j] < ks[j-1]; j-- {
			ks[j], ks[j-1] = ks[j-1], ks[j]
		}
	}
	return ks
}

// run instantiates and drives the program, then records the final state and closes the instances.
func (r *rtRun) run(p *program) {
	r.done = true
	if r.code == nil {
		return
	}
	var lib api.Module
	if p.Lib != nil {
		if r.libCode == nil {
			r.add("instantiate lib skipped")
		} else {
			m, err := r.rt.InstantiateModule(r.ctx, r.libCode, wazero.NewModuleConfig().WithName("lib"))
			if err != nil {
				r.add("instantiate lib %s", errKind(err))
				dbg("instantiate lib %s: %v", p.Name, err)
			} else {
				r.add("instantiate lib ok")
				lib = m
			}
		}
	}
	mod, err := r.instantiate(p)
	if err != nil {
		r.add("instantiate %s", errKind(err))
		dbg("instantiate %s [%s]: %v", p.Name, r.s.toggles(), err)
	} else {
		r.add("instantiate ok name=%q", mod.Name())
		if mi, ok := mod.Memory().(*wasm.MemoryInstance); ok && mi != nil && mi.Cap > mi.Min {
			r.capPre = true
		}
		r.fns = map[string]api.Function{}
		for i, c := range p.Calls {
			r.call(mod, i, c)
		}
		r.final("main", mod, p.Globals)
	}
	if lib != nil {
		r.final("lib", lib, p.LibGlobals)
	}
	if mod != nil {
		mod.Close(r.ctx)
	}
	if lib != nil {
		lib.Close(r.ctx)
	}
	if r.lst != nil {
		r.lstLine = r.lst.String()
	}
}

func (r *rtRun) instantiate(p *program) (mod api.Module, err error) {
	defer func() {
		if x := recover(); x != nil {
			mod, err = nil, fmt.Errorf("go panic: %v", x)
			r.add(" go-panic in instantiate")
		}
	}()
	ctx, fin := r.ctx, func() {}
	if p.InstCtx != "" { // the start function runs under a context that is or becomes done (family ctxdone)
		ctx, fin = r.enterCtx(p.InstCtx)
	}
	defer fin()
	return r.rt.InstantiateModule(ctx, r.code, wazero.NewModuleConfig().WithName("main"))
}

func (r *rtRun) call(mod api.Module, i int, c call) {
	defer func() {
		if x := recover(); x != nil {
			r.add("call %d %s go-panic", i, c.Fn)
			dbg("go panic in call %s: %v", c.Fn, x)
		}
	}()
	fn, ok := r.fns[c.Fn]
	if !ok {
		fn = mod.ExportedFunction(c.Fn)
		r.fns[c.Fn] = fn
	}
	if fn == nil {
		r.add("call %d %s noexport", i, c.Fn)
		return
	}
	ctx, fin, sfx := r.ctx, func() {}, ""
	if c.Ctx != "" {
		ctx, fin = r.enterCtx(c.Ctx)
		sfx = " ctx=" + c.Ctx
	}
	res, err := fn.Call(ctx, c.Args...)
	fin()
	if err != nil {
		r.add("call %d %s%x%s -> %s", i, c.Fn, c.Args, sfx, errKind(err))
		return
	}
	r.add("call %d %s%x%s -> %x", i, c.Fn, c.Args, sfx, res)
}

func (r *rtRun) final(who string, mod api.Module, globals []string) {
	if mod.IsClosed() {
		// the guest exited (or the host closed it): its memory belongs to the allocator again (a custom
		// allocator's Free has run), so the final state of a closed module is not read.
		r.add("final %s closed", who)
		return
	}
	if mem := memOf(mod); mem != nil {
		pages, _ := mem.Grow(0)
		buf, ok := mem.Read(0, mem.Size())
		r.add("final %s mem pages=%d size=%d ok=%v digest=%016x", who, pages, mem.Size(), ok, digest(buf))
	} else {
		r.add("final %s mem none", who)
	}
	for _, g := range globals {
		eg := mod.ExportedGlobal(g)
		if eg == nil {
			r.add("final %s global %s missing", who, g)
			continue
		}
		r.add("final %s global %s=%#x", who, g, eg.Get())
	}
}

// digest: position-sensitive 64-bit hash over 8-byte words (memory sizes are multiples of 64 KiB).
func digest(b []byte) uint64 {
	h := uint64(14695981039346656037)
	for len(b) >= 8 {
		h = (h ^ binary.LittleEndian.Uint64(b)) * 1099511628211
		h ^= h >> 29
		b = b[8:]
	}
	for _, c := range b {
		h = (h ^ uint64(c)) * 1099511628211
	}
	return h
}

// memOf: api.Module.Memory() returns a typed nil (*wasm.MemoryInstance)(nil) for a module without memory.
func memOf(mod api.Module) api.Memory {
	mem := mod.Memory()
	if mi, ok := mem.(*wasm.MemoryInstance); ok && mi == nil {
		return nil
	}
	return mem
}

// finish applies the lifecycle action of the scenario to this runtime.
func (r *rtRun) finish(life string) {
	switch life {
	case "closeCompiled":
		if r.code != nil {
			r.code.Close(r.ctx)
		}
		if r.libCode != nil {
			r.libCode.Close(r.ctx)
		}
	case "closeRuntime":
		r.rt.Close(r.ctx)
	}
}

// dispose releases everything (after all traces of the scenario were taken).
func (r *rtRun) dispose() {
	r.rt.Close(context.Background())
	r.cancel()
}

var debugOn = os.Getenv("C12_DEBUG") != ""

func dbg(format string, a ...any) {
	if debugOn {
		fmt.Fprintf(os.Stderr, "DBG "+format+"\n", a...)
	}
}
