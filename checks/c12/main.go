// C12 — non-semantic configuration does not change guest behaviour.
//
// Exhaustive exploration of (a) the full lattice {compilation cache: none | in-memory | directory cold |
// directory warm | shared by two runtimes} x capacity-from-max x custom allocator x debug info x custom
// sections x function listener x close-on-context-done (never triggered) = 320 points and (b) every order
// in which 1-3 runtimes with DIFFERENT settings (default, close-on-context-done, listener, no debug info,
// smaller memory limit, CoreFeaturesV1) touch one shared cache, on a wb-built program corpus and both
// engines. Oracle (differential twin): the canonical execution trace of every run equals the trace of the
// same program with the same semantic settings, no cache and all toggles off.
package main

import (
	"context"
	"encoding/json"
	"fmt"
	"os"
	"path/filepath"
	"runtime"
	"sort"
	"strconv"
	"strings"
	"time"

	"github.com/tetratelabs/wazero"
	"github.com/tetratelabs/wazero/verif/fw"
)

const smallLimit = 8 // WithMemoryLimitPages of the "small" semantic base; the other base is wazero's default

// ---------------------------------------------------------------- lattice

// dirWarmX: like dirWarm, but the runtime that FILLS the directory has the four toggles that are not part of the
// module identity / cache key (capmax, alloc, nodebug, custom) flipped; the directory is then read through a
// fresh cache object by a runtime with the point's settings, and only that second run is compared. (Listener
// presence and close-on-context-done are part of the key: flipping them would be a cold compile.)
var cacheModes = []string{"none", "mem", "dirCold", "dirWarm", "shared", "dirWarmX"}

type point struct {
	Cache string `json:"cache"`
	Bits  int    `json:"bits"` // bit0 capmax, 1 alloc, 2 nodebug, 3 custom, 4 listener (factory for every function), 5 cod
	// LMode: the two further values of the listener dimension, "nil" (a factory that returns nil for every
	// function) and "subset" (a listener for every other function); bit 4 is 0 in these points.
	LMode string `json:"lmode,omitempty"`
}

func (pt point) settings(engine string, limit uint32) settings {
	s := settings{Engine: engine, Limit: limit,
		CapMax: pt.Bits&1 != 0, Alloc: pt.Bits&2 != 0, NoDebug: pt.Bits&4 != 0,
		Custom: pt.Bits&8 != 0, Listener: pt.Bits&16 != 0, COD: pt.Bits&32 != 0}
	if pt.LMode != "" {
		s.Listener, s.LMode = true, pt.LMode
	}
	return s
}

// lattice is the list of points of the tier (set by initLattice): the full 6 x 2^6 product with the listener
// dimension {no factory, listener for every function}, plus the listener values {nil for every function,
// every other function} x cache {none, dirCold, dirWarm, shared} x the other five toggles (thorough: all 32
// combinations; quick: none, each one alone, all five).
var lattice []point

func initLattice(thorough bool) {
	lattice = nil
	for _, c := range cacheModes {
		for b := 0; b < 64; b++ {
			lattice = append(lattice, point{Cache: c, Bits: b})
		}
	}
	for _, lm := range []string{"nil", "subset"} {
		for _, c := range cacheModes {
			if c == "mem" || c == "dirWarmX" {
				continue
			}
			for b := 0; b < 64; b++ {
				if b&16 != 0 {
					continue
				}
				rest := b & 47
				single := rest != 0 && rest&(rest-1) == 0
				if !thorough && !(rest == 0 || rest == 47 || single) {
					continue
				}
				lattice = append(lattice, point{Cache: c, Bits: b, LMode: lm})
			}
		}
	}
}

// cacheLE: partial order of the cache modes used for minimisation (none < mem < dirCold < dirWarm, mem < shared).
func cacheLE(a, b string) bool {
	if a == b || a == "none" {
		return true
	}
	switch a {
	case "mem":
		return b != "none"
	case "dirCold":
		return b == "dirWarm" || b == "dirWarmX"
	}
	return false
}

type env struct {
	tmp    string
	nscen  int
	counts map[string]int64
}

func (e *env) inc(k string) { e.counts[k]++ }

func (e *env) tick() {
	e.nscen++
	if e.nscen%48 == 0 {
		runtime.GC() // compiled code is unmapped by finalizers; keep the number of mappings bounded
	}
}

func (e *env) mkdir() string {
	d, err := os.MkdirTemp(e.tmp, "cache")
	if err != nil {
		fw.Fatalf("mkdtemp: %v", err)
	}
	return d
}

func dirCache(dir string) wazero.CompilationCache {
	c, err := wazero.NewCompilationCacheWithDir(dir)
	if err != nil {
		fw.Fatalf("NewCompilationCacheWithDir: %v", err)
	}
	return c
}

func countFiles(dir string) int {
	n := 0
	filepath.Walk(dir, func(_ string, info os.FileInfo, err error) error {
		if err == nil && !info.IsDir() {
			n++
		}
		return nil
	})
	return n
}

// hugeCapacity: points that would make wazero reserve a multi-GiB Go slice (capacity-from-max without a
// custom allocator on a memory whose effective maximum is huge) are not executed: a re-used 4 GiB span
// is cleared by the Go runtime, which costs seconds and gigabytes of RSS per run.
func hugeCapacity(p *program, s settings) bool {
	if !p.HasMem || !s.CapMax || s.Alloc {
		return false
	}
	eff := int64(s.limit())
	if p.DeclMax >= 0 && p.DeclMax < eff {
		eff = p.DeclMax
	}
	return eff > 1024
}

// runPoint executes one lattice point and returns the runs whose traces are to be compared.
func (e *env) runPoint(p *program, s settings, cache string) []*rtRun {
	e.tick()
	ctx := context.Background()
	one := func(c wazero.CompilationCache) *rtRun {
		r := newRT(p, s, c)
		r.compile(p)
		r.run(p)
		r.dispose()
		return r
	}
	switch cache {
	case "none":
		return []*rtRun{one(nil)}
	case "mem":
		c := wazero.NewCompilationCache()
		defer c.Close(ctx)
		return []*rtRun{one(c)}
	case "dirCold":
		dir := e.mkdir()
		defer os.RemoveAll(dir)
		c := dirCache(dir)
		defer c.Close(ctx)
		return []*rtRun{one(c)}
	case "dirWarm":
		dir := e.mkdir()
		defer os.RemoveAll(dir)
		c1 := dirCache(dir)
		a := one(c1)
		c1.Close(ctx)
		if s.Engine == "compiler" && a.code != nil {
			if countFiles(dir) > 0 {
				e.inc("dircache:entry-written")
			} else {
				e.inc("dircache:empty-after-compile")
			}
		}
		before := countFiles(dir)
		c2 := dirCache(dir)
		defer c2.Close(ctx)
		b := one(c2)
		if s.Engine == "compiler" && a.code != nil && before > 0 {
			if countFiles(dir) == before {
				e.inc("dircache:warm-run-adds-no-entry")
			} else {
				e.inc("dircache:warm-run-wrote-again")
			}
		}
		return []*rtRun{a, b}
	case "dirWarmX":
		dir := e.mkdir()
		defer os.RemoveAll(dir)
		s1 := s
		s1.CapMax, s1.Alloc, s1.NoDebug, s1.Custom = !s.CapMax, !s.Alloc, !s.NoDebug, !s.Custom
		if hugeCapacity(p, s1) {
			s1.CapMax = false
		}
		c1 := dirCache(dir)
		a := newRT(p, s1, c1)
		a.compile(p)
		a.run(p)
		a.dispose()
		c1.Close(ctx)
		before := countFiles(dir)
		c2 := dirCache(dir)
		defer c2.Close(ctx)
		b := one(c2)
		if s.Engine == "compiler" && a.code != nil && before > 0 {
			if countFiles(dir) == before {
				e.inc("dircacheX:entry-of-other-settings-reused")
			} else {
				e.inc("dircacheX:second-runtime-wrote-again")
			}
		}
		return []*rtRun{b}
	case "shared":
		c := wazero.NewCompilationCache()
		defer c.Close(ctx)
		r1, r2 := newRT(p, s, c), newRT(p, s, c)
		r1.compile(p)
		r2.compile(p)
		r2.run(p)
		r1.run(p)
		r1.dispose()
		r2.dispose()
		return []*rtRun{r1, r2}
	}
	fw.Fatalf("unknown cache mode %q", cache)
	return nil
}

// diffTraces returns "" when equal, else a classifier key of the first differing step and a description.
func diffTraces(base, got []string) (key, detail string) {
	n := len(base)
	if len(got) < n {
		n = len(got)
	}
	i := 0
	for i < n && base[i] == got[i] {
		i++
	}
	if i == len(base) && i == len(got) {
		return "", ""
	}
	b, g := "<end of trace>", "<end of trace>"
	if i < len(base) {
		b = base[i]
	}
	if i < len(got) {
		g = got[i]
	}
	detail = fmt.Sprintf("step %d: baseline %q, here %q", i, b, g)
	// state of a compile/instantiate step on one side: "ok", the error class, or "absent" (the trace took another turn)
	st := func(l, pfx string) string {
		if !strings.HasPrefix(l, pfx) {
			return "absent"
		}
		rest := strings.TrimSpace(strings.TrimPrefix(l, pfx))
		if rest == "ok" || strings.HasPrefix(rest, "ok ") {
			return "ok"
		}
		if rest == "err" || rest == "error:other" {
			return "err"
		}
		return strings.TrimPrefix(rest, "error:")
	}
	// find: the step with that prefix on one side (the differing line itself, or wherever it is in the trace)
	find := func(tr []string, l, pfx string) string {
		if strings.HasPrefix(l, pfx) {
			return l
		}
		for _, x := range tr {
			if strings.HasPrefix(x, pfx) && (pfx != "compile" || !strings.HasPrefix(x, "compile lib")) && (pfx != "instantiate" || !strings.HasPrefix(x, "instantiate lib")) {
				return x
			}
		}
		return l
	}
	step := func(pfx, name string) bool {
		if strings.HasPrefix(b, pfx) || strings.HasPrefix(g, pfx) {
			from, to := st(find(base, b, pfx), pfx), st(find(got, g, pfx), pfx)
			key = name + ":" + from + "->" + to
			if to == "not-compiled" { // whatever the baseline does at this step, the cached code is gone
				key = name + ":not-compiled"
			}
			return true
		}
		return false
	}
	isFail := func(l string) bool {
		return strings.Contains(l, "-> trap:") || strings.Contains(l, "-> exit(") || strings.Contains(l, "-> error:") ||
			strings.Contains(l, "-> host-panic") || strings.Contains(l, "go-panic") || strings.Contains(l, "noexport")
	}
	ref := b
	if i >= len(base) {
		ref = g
	}
	switch {
	case strings.HasPrefix(b, "env") || strings.HasPrefix(g, "env"):
		key = "env-module"
	case step("compile lib", "compile-lib"):
	case step("compile", "compile"):
	case step("instantiate lib", "instantiate-lib"):
	case step("instantiate", "instantiate"):
	case strings.HasPrefix(ref, "iface"):
		key = "module-interface"
	case strings.HasPrefix(ref, "call"):
		if isFail(b) || isFail(g) {
			key = "call-outcome"
		} else {
			key = "call-result"
		}
	case strings.HasPrefix(ref, " host"):
		key = "host-call-log"
	case strings.HasPrefix(ref, " go-panic"):
		key = "go-panic"
	case strings.HasPrefix(ref, "final") && (strings.Contains(ref, " mem ") || strings.Contains(ref, " closed")):
		key = "final-memory"
	case strings.HasPrefix(ref, "final"):
		key = "final-global"
	default:
		key = "trace"
	}
	return key, detail
}

// tagFor: failure classes that by their nature do not depend on the program carry a fixed tag.
func tagFor(key, tag string) string {
	switch {
	case key == "listener-events":
		return "events-go-to-the-first-compilation"
	case strings.Contains(key, "not-compiled"):
		return "any-program"
	}
	return tag
}

type viol struct {
	Sig    string `json:"sig"`
	What   string `json:"what"`
	Replay any    `json:"replay"`
}

// group: order-scenario failures with the same cause, generalised over the dimensions that do not matter.
type group struct {
	Engine, Key, Victim, With, Tag string
	Modes, Lives, Caches, Pos      map[string]bool
	N                              int
	What                           string
	Replay                         any
}

type caseResult struct {
	Evals   int64            `json:"evals"`   // trace comparisons against a baseline
	Runs    int64            `json:"runs"`    // runtime life cycles executed
	Scen    int64            `json:"scen"`    // lattice points / order scenarios executed
	Counts  map[string]int64 `json:"counts"`  // outcome histogram
	Digests []string         `json:"digests"` // distinct baseline trace digests
	Viols   []viol           `json:"viols"`   // lattice violations (already minimal)
	Groups  []*group         `json:"groups"`  // order violations (minimal), to be merged by the parent
	Unrepro []string         `json:"unrepro"` // differences that did not recur in two re-executions (noted, not reported)
	// NeverCompiles: the program is rejected at the baseline AND at every other lattice point of this case. Only
	// if that holds for every lattice case of the program (both engines, both bases) is it a corpus error.
	NeverCompiles string `json:"nevercompiles"`
}

func traceDigest(tr []string) string { return fmt.Sprintf("%x", fnv(strings.Join(tr, "\n"))) }

func fnv(s string) uint64 {
	h := uint64(14695981039346656037)
	for i := 0; i < len(s); i++ {
		h ^= uint64(s[i])
		h *= 1099511628211
	}
	return h
}

func (e *env) noteBaseline(res *caseResult, p *program, tr []string) {
	res.Digests = append(res.Digests, traceDigest(tr))
	for _, l := range tr {
		if i := strings.Index(l, "-> trap:"); i >= 0 {
			e.inc("baseline-step:" + l[i+3:])
		} else if strings.Contains(l, "-> exit(") {
			e.inc("baseline-step:exit")
		} else if strings.Contains(l, "-> host-panic") {
			e.inc("baseline-step:host-panic")
		} else if strings.HasPrefix(l, " host") {
			e.inc("baseline-step:host-call")
		} else if strings.HasPrefix(l, "instantiate") && !strings.Contains(l, " ok") {
			e.inc("baseline-step:instantiate-error")
		} else if l == "compile err" {
			e.inc("baseline-step:compile-error")
		} else if strings.HasPrefix(l, "call") {
			e.inc("baseline-step:call-returns")
		}
	}
}

type latticeReplay struct {
	Kind    string `json:"kind"`
	Tier    string `json:"tier"`
	Engine  string `json:"engine"`
	Limit   uint32 `json:"limit"`
	Program string `json:"program"`
	Point   point  `json:"point"`
	// for compile-outcome differences: the other configuration and what each of the two does
	Other    *point            `json:"other_point,omitempty"`
	Outcomes map[string]string `json:"outcomes,omitempty"`
}

// rejected: the program (or its library, or the host module) was not accepted in this run.
func rejected(tr []string) bool {
	return hasLine(tr, "env err") || hasLine(tr, "compile err") || hasLine(tr, "compile lib err")
}

// latticeCase runs the whole lattice for one (engine, base limit, program). only >= 0 restricts it to one point.
func (e *env) latticeCase(tier, engine string, limit uint32, p *program, only int) *caseResult {
	res := &caseResult{}
	base0 := point{Cache: "none"}
	baseRun := map[bool]*rtRun{}
	baseline := func(cod bool) *rtRun {
		if !p.TermSensitive {
			cod = false
		}
		if r, ok := baseRun[cod]; ok {
			return r
		}
		s := base0.settings(engine, limit)
		s.COD = cod
		r := e.runPoint(p, s, "none")[0]
		res.Runs++
		baseRun[cod] = r
		e.noteBaseline(res, p, r.tr)
		return r
	}
	b := baseline(false)
	// The baseline is not privileged: a program it rejects is only a corpus problem if EVERY point rejects it.
	// Otherwise the acceptance difference is the property's violation (reported at the minimal accepting
	// points), and the accepting points are compared among themselves against the first of them.
	baseRejects := rejected(b.tr)
	var alt *rtRun
	var altPt point
	if baseRejects {
		for _, pt := range lattice {
			s := pt.settings(engine, limit)
			if hugeCapacity(p, s) {
				continue
			}
			runs := e.runPoint(p, s, pt.Cache)
			res.Runs += int64(len(runs))
			if !rejected(runs[0].tr) {
				alt, altPt = runs[0], pt
				break
			}
		}
		if alt == nil {
			res.NeverCompiles = fmt.Sprintf("%s is rejected at every lattice point (%s, limit %d): %v", p.Name, engine, limit, b.tr)
			e.inc("lattice:program-rejected-at-every-point")
			return res
		}
		e.inc("lattice:baseline-rejects-what-another-point-accepts")
	}
	lstRefs := map[string]string{} // listener events at (no cache, that listener value only [+cod for termination-sensitive programs])
	pts := lattice
	type fail struct {
		pt     point
		key    string
		detail string
	}
	var fails []fail
	for i, pt := range pts {
		if only >= 0 && i != only {
			continue
		}
		s := pt.settings(engine, limit)
		if hugeCapacity(p, s) {
			e.inc("skipped:multi-GiB-capacity")
			continue
		}
		runs := e.runPoint(p, s, pt.Cache)
		res.Scen++
		res.Runs += int64(len(runs))
		ref := baseline(s.COD)
		worst, wdetail := "", ""
		for ri, r := range runs {
			res.Evals++
			k, d := diffTraces(ref.tr, r.tr)
			if k != "" {
				// confirm before believing it: the point must differ again (not necessarily at the same step:
				// a stale-pointer defect reads whatever happens to be there) in one of two re-executions
				recurs := false
				for a := 0; a < 2 && !recurs; a++ {
					again := e.runPoint(p, s, pt.Cache)
					k2, _ := diffTraces(ref.tr, again[ri].tr)
					recurs = k2 != ""
				}
				if !recurs {
					res.Unrepro = append(res.Unrepro, fmt.Sprintf("%s %s limit %d %+v runtime %d: %s (%s) did not recur in two re-executions", p.Name, engine, limit, pt, ri+1, k, d))
					e.inc("lattice:difference-not-reproduced")
					continue
				}
				if worst == "" {
					worst, wdetail = k, fmt.Sprintf("runtime %d of the point: %s", ri+1, d)
				}
				if baseRejects && !rejected(r.tr) && !(p.TermSensitive && s.COD) {
					// an accepting point: its behaviour must equal that of the first accepting point
					if k2, d2 := diffTraces(alt.tr, r.tr); k2 != "" {
						e.inc("lattice:diff:among-accepting-points:" + k2)
						fails = append(fails, fail{pt, "among-accepting-points:" + k2,
							fmt.Sprintf("runtime %d of the point differs from the first accepting point (cache=%s toggles=[%s]): %s", ri+1, altPt.Cache, altPt.settings(engine, limit).toggles(), d2)})
					}
				}
				continue
			}
			if s.Listener {
				lcod := s.COD && p.TermSensitive
				lkey := fmt.Sprint(lcod, s.LMode)
				lstRef, known := lstRefs[lkey]
				if !known {
					ls := settings{Engine: engine, Limit: limit, Listener: true, LMode: s.LMode, COD: lcod}
					lr := e.runPoint(p, ls, "none")[0]
					res.Runs++
					lstRef = lr.lstLine
					lstRefs[lkey] = lstRef
				}
				if r.lstLine != lstRef && worst == "" {
					worst, wdetail = "listener-events", fmt.Sprintf("runtime %d of the point: listener saw %s, alone without cache it sees %s", ri+1, r.lstLine, lstRef)
				}
			}
			if r.alloc != nil && r.alloc.allocs > 0 {
				e.inc("toggle-effect:allocator-used")
			}
			if r.lst != nil && r.lst.before > 0 {
				e.inc("toggle-effect:listener-notified")
			}
			if r.customs > 0 {
				e.inc("toggle-effect:custom-sections-visible")
			}
			if r.capPre {
				e.inc("toggle-effect:capacity-preallocated")
			}
		}
		if worst == "" {
			e.inc("lattice:equal")
		} else {
			e.inc("lattice:diff:" + worst)
			fails = append(fails, fail{pt, worst, wdetail})
		}
	}
	// report only minimal failing points
	for _, f := range fails {
		minimal := true
		for _, g := range fails {
			if g.pt != f.pt && g.key == f.key && (g.pt.LMode == f.pt.LMode || (g.pt.LMode == "" && g.pt.Bits&16 == 0)) && g.pt.Bits&^f.pt.Bits == 0 && cacheLE(g.pt.Cache, f.pt.Cache) {
				minimal = false
				break
			}
		}
		if !minimal {
			e.inc("lattice:diff-implied-by-smaller-point")
			continue
		}
		s := f.pt.settings(engine, limit)
		tag := p.tag()
		if strings.HasPrefix(f.key, "compile") && p.DeclMax > int64(s.limit()) {
			tag = "declared-max>limit"
		}
		tag = tagFor(f.key, tag)
		tg := s.toggles()
		if tg == "" {
			tg = "none"
		}
		rp := latticeReplay{Kind: "lattice", Tier: tier, Engine: engine, Limit: limit, Program: p.Name, Point: f.pt}
		sig := fmt.Sprintf("lattice:%s:%s:cache=%s:toggles=%s:%s", engine, f.key, f.pt.Cache, tg, tag)
		if f.key == "compile:ok->err" || f.key == "compile:err->ok" || f.key == "compile-lib:ok->err" || f.key == "compile-lib:err->ok" {
			// acceptance depends on the configuration: neither side is "right"
			dir, here, there := "baseline-accepts", "rejected", "accepted"
			if strings.HasSuffix(f.key, "err->ok") {
				dir, here, there = "baseline-rejects", "accepted", "rejected"
			}
			sig = fmt.Sprintf("lattice:%s:compile-outcome-differs:toggles=%s:cache=%s:%s:%s", engine, tg, f.pt.Cache, dir, tag)
			rp.Other = &point{Cache: "none"}
			rp.Outcomes = map[string]string{"point": here, "other_point (no cache, all toggles off)": there}
		}
		res.Viols = append(res.Viols, viol{
			Sig:    sig,
			What:   fmt.Sprintf("%s, program %s, memory limit %d pages, cache=%s toggles=[%s]: %s", engine, p.Name, s.limit(), f.pt.Cache, tg, f.detail),
			Replay: rp,
		})
	}
	return res
}

// ---------------------------------------------------------------- orders of first touch

var letters = []string{"D", "T", "L", "N", "M", "F", "C", "A"}

func letterSettings(engine string, l string) settings {
	s := settings{Engine: engine, Limit: smallLimit}
	switch l {
	case "T":
		s.COD = true
	case "L":
		s.Listener = true
	case "N":
		s.NoDebug = true
	case "M":
		s.Limit = 2
	case "F":
		s.V1 = true
	case "C":
		s.CapMax = true
	case "A":
		s.Alloc = true
	}
	return s
}

type scenario struct {
	Cache string   `json:"cache"` // "mem" | "dir"
	Life  string   `json:"life"`  // "keep" | "closeRuntime" | "closeCompiled"
	Mode  string   `json:"mode"`  // "seq" | "inter" | "inter-rev"
	Tuple []string `json:"tuple"` // setting letters in creation order
}

func (s scenario) key() string {
	return s.Cache + "|" + s.Life + "|" + s.Mode + "|" + strings.Join(s.Tuple, "")
}

var lives = []string{"keep", "closeRuntime", "closeCompiled"}

func tuples() [][]string {
	var out [][]string
	for _, a := range letters {
		out = append(out, []string{a})
	}
	for _, a := range letters {
		for _, b := range letters {
			if a != b {
				out = append(out, []string{a, b})
			}
		}
	}
	for _, a := range letters {
		for _, b := range letters {
			for _, c := range letters {
				if a != b && a != c && b != c {
					out = append(out, []string{a, b, c})
				}
			}
		}
	}
	return out
}

// scenario levels: 0 quick; 1 thorough; 2 thorough for the programs flagged Order.
//
//	singles: sequential, every life cycle (all levels)
//	pairs:   {seq, inter, inter-rev} x every life cycle (all levels)
//	triples: 0: inter x keep;  1: {seq, inter, inter-rev} x keep;
//	         2: {seq, inter, inter-rev} x every life cycle, plus the four remaining orders of compilation x keep
func scenLevel(p *program, thorough bool) int {
	switch {
	case !thorough:
		return 0
	case p.Order:
		return 2
	}
	return 1
}

var allModes = []string{"seq", "inter", "inter-rev", "inter-021", "inter-102", "inter-120", "inter-201"}

func enumScenarios(cache string, level int) []scenario {
	var out []scenario
	for _, life := range lives {
		for _, t := range tuples() {
			modes := allModes[:3]
			switch {
			case len(t) == 1:
				modes = allModes[:1]
			case len(t) == 3 && level == 2:
				modes = allModes
			}
			for mi, m := range modes {
				if len(t) == 3 {
					switch level {
					case 0:
						if life != "keep" || m != "inter" {
							continue
						}
					case 1:
						if life != "keep" {
							continue
						}
					case 2:
						if mi >= 3 && life != "keep" {
							continue
						}
					}
				}
				out = append(out, scenario{cache, life, m, t})
			}
		}
	}
	return out
}

// compileOrder: the order (indices into the tuple) in which the runtimes of an interleaved scenario compile.
func compileOrder(mode string, n int) []int {
	o := make([]int, n)
	for i := range o {
		switch {
		case mode == "inter-rev":
			o[i] = n - 1 - i
		case mode == "inter" || mode == "seq":
			o[i] = i
		default:
			o[i] = int(mode[len("inter-")+i] - '0')
		}
	}
	return o
}

// subMode: the mode of the scenario that remains when runtime `drop` is removed (the induced order of compilation).
func subMode(mode string, n, drop int) string {
	if mode == "seq" || n <= 2 {
		return "seq"
	}
	var rest []int
	for _, j := range compileOrder(mode, n) {
		if j == drop {
			continue
		}
		if j > drop {
			j--
		}
		rest = append(rest, j)
	}
	if mode != "seq" && len(rest) == 2 {
		if rest[0] == 0 {
			return "inter"
		}
		return "inter-rev"
	}
	return mode
}

// runScenario returns one run per tuple position.
func (e *env) runScenario(p *program, engine string, sc scenario) []*rtRun {
	e.tick()
	ctx := context.Background()
	var cache wazero.CompilationCache
	if sc.Cache == "dir" {
		dir := e.mkdir()
		defer os.RemoveAll(dir)
		cache = dirCache(dir)
	} else {
		cache = wazero.NewCompilationCache()
	}
	defer cache.Close(ctx)
	n := len(sc.Tuple)
	runs := make([]*rtRun, n)
	switch sc.Mode {
	case "seq":
		for i, l := range sc.Tuple {
			r := newRT(p, letterSettings(engine, l), cache)
			runs[i] = r
			r.compile(p)
			r.run(p)
			r.finish(sc.Life)
		}
	case "inter", "inter-rev", "inter-021", "inter-102", "inter-120", "inter-201":
		for i, l := range sc.Tuple {
			runs[i] = newRT(p, letterSettings(engine, l), cache)
		}
		for _, j := range compileOrder(sc.Mode, n) {
			runs[j].compile(p)
		}
		for _, r := range runs {
			r.run(p)
			r.finish(sc.Life)
		}
	default:
		fw.Fatalf("unknown mode %q", sc.Mode)
	}
	for _, r := range runs {
		r.dispose()
	}
	return runs
}

type batchReplay struct {
	Kind     string `json:"kind"`
	Tier     string `json:"tier"`
	Engine   string `json:"engine"`
	CaseKind string `json:"case_kind"`
	Limit    uint32 `json:"limit"`
	Program  string `json:"program"`
	Cache    string `json:"cache"`
}

type orderReplay struct {
	Kind     string   `json:"kind"`
	Tier     string   `json:"tier"`
	Engine   string   `json:"engine"`
	Program  string   `json:"program"`
	Scenario scenario `json:"scenario"`
	Victim   int      `json:"victim"`
}

func (e *env) ordersCase(tier, engine string, p *program, cache string, only int) *caseResult {
	res := &caseResult{}
	type baseInfo struct {
		tr  []string
		lst string
	}
	bases := map[string]*baseInfo{}
	baseline := func(l string) *baseInfo {
		if b, ok := bases[l]; ok {
			return b
		}
		r := e.runPoint(p, letterSettings(engine, l), "none")[0]
		res.Runs++
		b := &baseInfo{r.tr, r.lstLine}
		bases[l] = b
		e.noteBaseline(res, p, r.tr)
		return b
	}
	scs := enumScenarios(cache, scenLevel(p, tier == "thorough"))
	// failing[scenarioKey][letter] = key
	failing := map[string]map[string]string{}
	type frec struct {
		sc     scenario
		pos    int
		key    string
		detail string
	}
	var fails []frec
	for si, sc := range scs {
		if only >= 0 && si != only {
			continue
		}
		runs := e.runScenario(p, engine, sc)
		res.Scen++
		res.Runs += int64(len(runs))
		for pos, r := range runs {
			res.Evals++
			l := sc.Tuple[pos]
			b := baseline(l)
			k, d := diffTraces(b.tr, r.tr)
			if k == "" && r.s.Listener && r.lstLine != b.lst {
				k, d = "listener-events", fmt.Sprintf("listener saw %s, alone without cache it sees %s", r.lstLine, b.lst)
			}
			if k == "" {
				e.inc("order:equal")
				continue
			}
			recurs := false
			for a := 0; a < 2 && !recurs; a++ {
				again := e.runScenario(p, engine, sc)
				k2, _ := diffTraces(b.tr, again[pos].tr)
				recurs = k2 != "" || (again[pos].s.Listener && again[pos].lstLine != b.lst)
			}
			if !recurs {
				res.Unrepro = append(res.Unrepro, fmt.Sprintf("%s %s %+v position %d: %s (%s) did not recur in two re-executions", p.Name, engine, sc, pos, k, d))
				e.inc("order:difference-not-reproduced")
				continue
			}
			e.inc("order:diff:" + k)
			if failing[sc.key()] == nil {
				failing[sc.key()] = map[string]string{}
			}
			failing[sc.key()][l] = k
			fails = append(fails, frec{sc, pos, k, d})
		}
	}
	groups := map[string]*group{}
	for _, f := range fails {
		victim := f.sc.Tuple[f.pos]
		// sub-scenarios: same cache and mode; life -> keep; one other runtime dropped
		minimal := true
		check := func(sub scenario) {
			if len(sub.Tuple) == 1 {
				sub.Mode = "seq"
			}
			if m := failing[sub.key()]; m != nil && m[victim] == f.key {
				minimal = false
			}
		}
		if f.sc.Life != "keep" {
			sub := f.sc
			sub.Life = "keep"
			check(sub)
		}
		for drop := range f.sc.Tuple {
			if drop == f.pos {
				continue
			}
			sub := f.sc
			sub.Tuple = append(append([]string{}, f.sc.Tuple[:drop]...), f.sc.Tuple[drop+1:]...)
			sub.Mode = subMode(f.sc.Mode, len(f.sc.Tuple), drop)
			check(sub)
		}
		if !minimal {
			e.inc("order:diff-implied-by-smaller-scenario")
			continue
		}
		var others []string
		for i, l := range f.sc.Tuple {
			if i != f.pos {
				others = append(others, l)
			}
		}
		sort.Strings(others)
		with := strings.Join(others, "+")
		if with == "" {
			with = "nobody"
		}
		tag := p.tag()
		vs := letterSettings(engine, victim)
		if strings.HasPrefix(f.key, "compile") && p.DeclMax > int64(vs.limit()) {
			tag = "declared-max>limit"
		}
		tag = tagFor(f.key, tag)
		gk := f.key + "|" + victim + "|" + with + "|" + tag
		g := groups[gk]
		if g == nil {
			g = &group{Engine: engine, Key: f.key, Victim: victim, With: with, Tag: tag,
				Modes: map[string]bool{}, Lives: map[string]bool{}, Caches: map[string]bool{}, Pos: map[string]bool{},
				What: fmt.Sprintf("%s, program %s, shared %s cache, runtimes created in order %v (mode %s, after each run: %s): runtime %s differs from itself alone without cache: %s",
					engine, p.Name, f.sc.Cache, f.sc.Tuple, f.sc.Mode, f.sc.Life, victim, f.detail),
				Replay: orderReplay{"order", tier, engine, p.Name, f.sc, f.pos}}
			groups[gk] = g
		}
		g.N++
		g.Modes[f.sc.Mode] = true
		g.Lives[f.sc.Life] = true
		g.Caches[f.sc.Cache] = true
		if len(f.sc.Tuple) > 1 {
			if f.pos == 0 {
				g.Pos["first"] = true
			} else {
				g.Pos["later"] = true
			}
		}
	}
	gks := make([]string, 0, len(groups))
	for k := range groups {
		gks = append(gks, k)
	}
	sort.Strings(gks)
	for _, k := range gks {
		res.Groups = append(res.Groups, groups[k])
	}
	return res
}

func renderSet(m map[string]bool, all int) string {
	if len(m) == 0 {
		return "-"
	}
	if len(m) >= all {
		return "any"
	}
	ks := make([]string, 0, len(m))
	for k := range m {
		ks = append(ks, k)
	}
	sort.Strings(ks)
	return strings.Join(ks, "+")
}

// renderModes: "any" when sequential, interleaved and reverse-interleaved all fail (the additional
// compile orders of the thorough tier exist for triples only and do not change the class).
func renderModes(m map[string]bool) string {
	if m["seq"] && m["inter"] && m["inter-rev"] {
		return "any"
	}
	return renderSet(m, 1<<30)
}

// renderRelation renders a set of (victim, with) pairs: "among=A,B,C" when every member fails next to
// every other member, "victim=A,B:with=C,D" for a full product, else the list of pairs.
func renderRelation(rel map[[2]string]bool) string {
	vs, ws := map[string]bool{}, map[string]bool{}
	for p := range rel {
		vs[p[0]] = true
		ws[p[1]] = true
	}
	keys := func(m map[string]bool) []string {
		ks := make([]string, 0, len(m))
		for k := range m {
			ks = append(ks, k)
		}
		sort.Strings(ks)
		return ks
	}
	V, W := keys(vs), keys(ws)
	product, cnt := true, 0
	for _, v := range V {
		for _, w := range W {
			if v == w {
				continue
			}
			cnt++
			if !rel[[2]string{v, w}] {
				product = false
			}
		}
	}
	if product && cnt == len(rel) {
		if strings.Join(V, ",") == strings.Join(W, ",") && len(V) > 1 {
			return "among=" + strings.Join(V, ",")
		}
		return "victim=" + strings.Join(V, ",") + ":with=" + strings.Join(W, ",")
	}
	var ps []string
	for p := range rel {
		ps = append(ps, p[0]+"<"+p[1])
	}
	sort.Strings(ps)
	return "pairs=" + strings.Join(ps, ",")
}

// ---------------------------------------------------------------- cases

type caseDesc struct {
	Kind   string // "lattice" | "orders"
	Engine string
	Limit  uint32
	Prog   int
	Cache  string
}

func buildCases(corpus []*program, thorough bool) []caseDesc {
	var cs []caseDesc
	engines := []string{"compiler", "interpreter"}
	filter := os.Getenv("C12_PROG") // development aid: restrict the corpus by name substring
	for pi, p := range corpus {
		if filter != "" && !strings.Contains(p.Name, filter) {
			continue
		}
		for _, eng := range engines {
			if !thorough && p.ThoroughOnlyOn == eng {
				continue
			}
			cs = append(cs, caseDesc{"lattice", eng, smallLimit, pi, ""})
			if p.HasMem {
				cs = append(cs, caseDesc{"lattice", eng, 0, pi, ""})
			}
		}
	}
	for pi, p := range corpus {
		if !orderMember(p, thorough) || (filter != "" && !strings.Contains(p.Name, filter)) {
			continue
		}
		for _, eng := range engines {
			if p.ThoroughOnlyOn == eng {
				continue
			}
			for _, c := range []string{"mem", "dir"} {
				cs = append(cs, caseDesc{"orders", eng, smallLimit, pi, c})
			}
		}
	}
	return cs
}

// orderMember: the slice of the corpus used for the order scenarios (quick: the programs flagged Order;
// thorough: additionally the first member of every family variant sweep, i.e. every quick-tier program).
func orderMember(p *program, thorough bool) bool {
	if p.Order {
		return true
	}
	if !thorough {
		return false
	}
	return quickNames[p.Name]
}

var quickNames = map[string]bool{}

func (e *env) runCase(tier string, corpus []*program, c caseDesc, only int) *caseResult {
	e.counts = map[string]int64{}
	var res *caseResult
	if c.Kind == "lattice" {
		res = e.latticeCase(tier, c.Engine, c.Limit, corpus[c.Prog], only)
	} else {
		res = e.ordersCase(tier, c.Engine, corpus[c.Prog], c.Cache, only)
	}
	res.Counts = e.counts
	return res
}

func caseSize(c caseDesc, p *program, thorough bool) int {
	if c.Kind == "lattice" {
		return len(lattice)
	}
	return len(enumScenarios(c.Cache, scenLevel(p, thorough)))
}

// ---------------------------------------------------------------- main

func main() {
	if len(os.Args) > 1 && os.Args[1] == "replay" {
		replay(os.Args[2])
		return
	}
	run := fw.Start("C12", "exploration")
	thorough := run.Thorough()
	for _, p := range buildCorpus(false) {
		quickNames[p.Name] = true
	}
	corpus := buildCorpus(thorough)
	initLattice(thorough)
	cases := buildCases(corpus, thorough)

	if fw.IsChild() {
		e := &env{tmp: os.Getenv("C12_TMP")}
		mode := fw.ChildMode()
		if strings.HasPrefix(mode, "single:") {
			ci, _ := strconv.Atoi(strings.TrimPrefix(mode, "single:"))
			fw.ChildLoop(func(i int) string {
				b, _ := json.Marshal(e.runCase(run.Tier, corpus, cases[ci], i))
				return string(b)
			})
		}
		// C12_FAULT="<case>" / "<case>:once": self-test of the crash classification (the child dies after the
		// whole case <case>; with ":once" only in the first run). Never set in normal operation.
		fault := func(ci int, again bool) {
			f := os.Getenv("C12_FAULT")
			if f == strconv.Itoa(ci) || (f == strconv.Itoa(ci)+":once" && !again) {
				panic("C12_FAULT: injected death of the child after the whole case")
			}
		}
		if strings.HasPrefix(mode, "rebatch:") { // one whole case again, in a fresh child
			ci, _ := strconv.Atoi(strings.TrimPrefix(mode, "rebatch:"))
			fw.ChildLoop(func(int) string {
				b, _ := json.Marshal(e.runCase(run.Tier, corpus, cases[ci], -1))
				fault(ci, true)
				return string(b)
			})
		}
		fw.ChildLoop(func(i int) string {
			b, _ := json.Marshal(e.runCase(run.Tier, corpus, cases[i], -1))
			fault(i, false)
			return string(b)
		})
		return
	}

	// cache directories: tmpfs when there is one (the file cache fsyncs every entry), else the default temp dir
	tmpParent := ""
	if st, err := os.Stat("/dev/shm"); err == nil && st.IsDir() {
		if d, err := os.MkdirTemp("/dev/shm", "c12-probe"); err == nil {
			os.RemoveAll(d)
			tmpParent = "/dev/shm"
		}
	}
	tmp, err := os.MkdirTemp(tmpParent, "c12-")
	if err != nil {
		fw.Fatalf("mkdtemp: %v", err)
	}
	defer os.RemoveAll(tmp)
	finish := func() { os.RemoveAll(tmp) }

	outcomes := fw.NewCounter()
	samples := fw.NewSampler(16)
	caseDone := make([]bool, len(cases))
	digests := map[string]bool{}
	var evals, runs, scen int64
	groups := map[string]*group{}
	var lviols []viol
	var crashed []int
	latticeCases := map[int]int{}       // program -> lattice cases completed
	neverCompiles := map[int][]string{} // program -> cases in which no point at all accepts it
	batchCrash := map[int]*fw.Crash{}
	perKind := map[string]int64{}
	workers := runtime.NumCPU()
	childEnv := []string{"C12_TMP=" + tmp, "GOMAXPROCS=2"}
	handle := func(ci int, res string) {
		var r caseResult
		if err := json.Unmarshal([]byte(res), &r); err != nil {
			finish()
			fw.Fatalf("case %d: bad child result: %v: %.200s", ci, err, res)
		}
		if cases[ci].Kind == "lattice" {
			latticeCases[cases[ci].Prog]++
			if r.NeverCompiles != "" {
				neverCompiles[cases[ci].Prog] = append(neverCompiles[cases[ci].Prog], r.NeverCompiles)
			}
		}
		for _, u := range r.Unrepro {
			run.Note("unreproduced difference (not reported): %s", u)
		}
		evals += r.Evals
		runs += r.Runs
		scen += r.Scen
		for k, v := range r.Counts {
			outcomes.AddN(k, v)
		}
		for _, d := range r.Digests {
			digests[d] = true
		}
		lviols = append(lviols, r.Viols...)
		for _, g := range r.Groups {
			k := g.Engine + "|" + g.Key + "|" + g.Victim + "|" + g.With + "|" + g.Tag
			if old := groups[k]; old == nil {
				groups[k] = g
			} else {
				old.N += g.N
				for _, pair := range []struct{ dst, src map[string]bool }{{old.Modes, g.Modes}, {old.Lives, g.Lives}, {old.Caches, g.Caches}, {old.Pos, g.Pos}} {
					for x := range pair.src {
						pair.dst[x] = true
					}
				}
				if g.What < old.What { // deterministic representative
					old.What, old.Replay = g.What, g.Replay
				}
			}
		}
	}
	t0 := time.Now()
	done := fw.Supervise(fw.SupOpts{N: len(cases), Workers: workers, CaseTimeout: 25 * time.Minute, Mode: "batch", Env: childEnv, Stop: run.Expired},
		func(i int, res string, crash *fw.Crash) {
			c := cases[i]
			if crash != nil {
				crashed = append(crashed, i)
				batchCrash[i] = crash
				return
			}
			perKind[c.Kind]++
			caseDone[i] = true
			handle(i, res)
		})
	if done < len(cases) {
		run.Capped("budget")
	}
	// crashed or hung cases: pinpoint the scenario in one-scenario-per-step children
	sort.Ints(crashed)
	for _, ci := range crashed {
		c := cases[ci]
		n := caseSize(c, corpus[c.Prog], thorough)
		found := 0
		fw.Supervise(fw.SupOpts{N: n, Workers: workers, CaseTimeout: 10 * time.Minute, Mode: fmt.Sprintf("single:%d", ci), Env: childEnv},
			func(j int, res string, crash *fw.Crash) {
				if crash == nil {
					return // results of one-scenario runs are not merged (minimisation needs the whole case)
				}
				found++
				var what string
				var rp any
				var cls string
				if c.Kind == "lattice" {
					pt := lattice[j]
					s := pt.settings(c.Engine, c.Limit)
					cls = fmt.Sprintf("lattice:cache=%s:toggles=%s", pt.Cache, s.toggles())
					what = fmt.Sprintf("program %s, limit %d, cache=%s toggles=[%s]", corpus[c.Prog].Name, s.limit(), pt.Cache, s.toggles())
					rp = latticeReplay{Kind: "lattice", Tier: run.Tier, Engine: c.Engine, Limit: c.Limit, Program: corpus[c.Prog].Name, Point: pt}
				} else {
					sc := enumScenarios(c.Cache, scenLevel(corpus[c.Prog], thorough))[j]
					cls = fmt.Sprintf("order:tuple=%s:mode=%s:life=%s:cache=%s", strings.Join(sc.Tuple, ""), sc.Mode, sc.Life, sc.Cache)
					what = fmt.Sprintf("program %s, scenario %+v", corpus[c.Prog].Name, sc)
					rp = orderReplay{"order", run.Tier, c.Engine, corpus[c.Prog].Name, sc, -1}
				}
				outcomes.Inc("process-" + crash.Kind)
				run.Violation(fmt.Sprintf("%s:%s:%s:%s", crash.Kind, c.Engine, cls, corpus[c.Prog].tag()),
					fmt.Sprintf("the process %s in %s: %s", map[string]string{"crash": "died", "timeout": "hung"}[crash.Kind], what, fw.FirstLines(crash.Stderr, 4)), rp)
			})
		if found > 0 {
			continue
		}
		// No single scenario crashes alone (e.g. heap corruption that needs the accumulated state of the
		// batch): run the whole case twice more in fresh children. Crashing in 2 of the 3 runs is a verdict;
		// a crash that never recurs is a note in the evidence, never a harness error.
		crashes, merged := 1, false
		first := batchCrash[ci]
		for attempt := 0; attempt < 2; attempt++ {
			fw.Supervise(fw.SupOpts{N: 1, Workers: 1, CaseTimeout: 25 * time.Minute, Mode: fmt.Sprintf("rebatch:%d", ci), Env: childEnv},
				func(_ int, res string, crash *fw.Crash) {
					if crash != nil {
						crashes++
						return
					}
					if !merged {
						merged = true
						perKind[c.Kind]++
						caseDone[ci] = true
						handle(ci, res)
					}
				})
		}
		if crashes >= 2 {
			outcomes.Inc("process-" + first.Kind + "-batch")
			run.Violation(fmt.Sprintf("process-crash:batch:%s:%s", c.Engine, c.Kind),
				fmt.Sprintf("the child process %s in %d of 3 runs of the whole case %s (%s, limit %d, program %s, cache %q) although no single scenario of it crashes alone: %s",
					map[string]string{"crash": "died", "timeout": "hung"}[first.Kind], crashes, c.Kind, c.Engine, c.Limit, corpus[c.Prog].Name, c.Cache, fw.FirstLines(first.Stderr, 4)),
				batchReplay{"batch", run.Tier, c.Engine, c.Kind, c.Limit, corpus[c.Prog].Name, c.Cache})
		} else {
			run.Note("case %d (%s %s limit %d program %s cache %q): the child %s once, no single scenario and neither of two further whole-case runs reproduced it: %s",
				ci, c.Kind, c.Engine, c.Limit, corpus[c.Prog].Name, c.Cache, first.Kind, fw.FirstLines(first.Stderr, 2))
		}
	}
	// corpus self-check: a program no configuration of either engine accepts says nothing (harness error);
	// one that only some case never accepts is noted (engine differences are another property's subject).
	var npi []int
	for pi := range neverCompiles {
		npi = append(npi, pi)
	}
	sort.Ints(npi)
	for _, pi := range npi {
		if len(neverCompiles[pi]) == latticeCases[pi] {
			finish()
			fw.Fatalf("corpus self-check: program %s is rejected at every lattice point of every case: %s", corpus[pi].Name, neverCompiles[pi][0])
		}
		sort.Strings(neverCompiles[pi])
		run.Note("program %s is never accepted in %d of its %d lattice cases: %s", corpus[pi].Name, len(neverCompiles[pi]), latticeCases[pi], neverCompiles[pi][0])
	}
	for i, c := range cases { // samples in case order (the callback order is not deterministic)
		if !caseDone[i] {
			continue
		}
		if c.Kind == "lattice" {
			samples.Add(map[string]any{"kind": "lattice", "engine": c.Engine, "limit_pages": c.Limit, "program": corpus[c.Prog].Name, "points": len(lattice)})
		} else {
			samples.Add(map[string]any{"kind": "orders", "engine": c.Engine, "program": corpus[c.Prog].Name, "cache": c.Cache, "scenarios": caseSize(c, corpus[c.Prog], thorough)})
		}
	}
	sort.Slice(lviols, func(i, j int) bool {
		if lviols[i].Sig != lviols[j].Sig {
			return lviols[i].Sig < lviols[j].Sig
		}
		return lviols[i].What < lviols[j].What
	})
	for _, v := range lviols {
		run.Violation(v.Sig, v.What, v.Replay)
	}
	// second-level merge: groups that differ only in WHO fails next to WHOM become one class whose
	// signature carries the victim<with relation in a compact form.
	type bucket struct {
		rel map[[2]string]bool
		rep *group
		n   int
		pfx string
		sfx string
	}
	buckets := map[string]*bucket{}
	gks := make([]string, 0, len(groups))
	for k := range groups {
		gks = append(gks, k)
	}
	sort.Strings(gks)
	for _, k := range gks {
		g := groups[k]
		pfx := fmt.Sprintf("order:%s:%s", g.Engine, g.Key)
		sfx := fmt.Sprintf("pos=%s:mode=%s:life=%s:cache=%s:%s", renderSet(g.Pos, 2), renderModes(g.Modes), renderSet(g.Lives, 3), renderSet(g.Caches, 2), g.Tag)
		b := buckets[pfx+"|"+sfx]
		if b == nil {
			b = &bucket{rel: map[[2]string]bool{}, rep: g, pfx: pfx, sfx: sfx}
			buckets[pfx+"|"+sfx] = b
		}
		b.rel[[2]string{g.Victim, g.With}] = true
		b.n += g.N
	}
	bks := make([]string, 0, len(buckets))
	for k := range buckets {
		bks = append(bks, k)
	}
	sort.Strings(bks)
	var orderSigs []string
	for _, k := range bks {
		b := buckets[k]
		sig := b.pfx + ":" + renderRelation(b.rel) + ":" + b.sfx
		orderSigs = append(orderSigs, fmt.Sprintf("%s (%d)", sig, b.n))
		run.Violation(sig, fmt.Sprintf("%s (%d minimal scenarios in this class)", b.rep.What, b.n), b.rep.Replay)
	}
	if debugOn {
		seen := map[string]int{}
		for _, v := range lviols {
			seen[v.Sig]++
		}
		var ls []string
		for k, n := range seen {
			ls = append(ls, fmt.Sprintf("%s (%d)", k, n))
		}
		sort.Strings(ls)
		for _, l := range append(ls, orderSigs...) {
			fmt.Fprintln(os.Stderr, "SIG", l)
		}
	}
	families := map[string]int{}
	for _, p := range corpus {
		families[p.Family]++
	}
	nOrder := 0
	for _, p := range corpus {
		if orderMember(p, thorough) {
			nOrder++
		}
	}
	finish()
	run.Finish(fw.Coverage{
		Evaluations:     evals,
		DistinctNontriv: scen,
		Rule: "one case = (engine, semantic base, program, lattice point) or (engine, program, cache kind, lifecycle, mode, ordered tuple of distinct settings); " +
			"all are distinct by construction and every one executes the real runtime (compile, instantiate, the whole call script); evaluations = traces compared with a baseline (a point with two runtimes yields two)",
		Samples: samples.List(), Exhaustive: true, Outcomes: outcomes.Map(),
		Bounds: map[string]any{
			"programs": len(corpus), "programs_per_family": families, "programs_in_order_scenarios": nOrder,
			"lattice_points": len(lattice), "listener_values": []string{"no factory", "listener for every function (host functions included)", "nil for every function", "every other function"}, "cache_modes": cacheModes, "toggles": []string{"capmax", "alloc", "nodebug", "custom", "listener", "cod"},
			"semantic_bases":           []string{fmt.Sprintf("WithMemoryLimitPages(%d): all programs", smallLimit), "default limit (65536): programs with a memory", "experimental.CoreFeaturesTailCall in every runtime of the programs of family tailcall"},
			"order_settings":           map[string]string{"D": "default", "T": "WithCloseOnContextDone(true)", "L": "function listener", "N": "WithDebugInfoEnabled(false)", "M": "WithMemoryLimitPages(2)", "F": "WithCoreFeatures(V1)", "C": "WithMemoryCapacityFromMax(true)", "A": "custom MemoryAllocator"},
			"order_tuples":             len(tuples()),
			"order_scenarios_per_case": map[string]int{"quick": len(enumScenarios("mem", 0)), "thorough": len(enumScenarios("mem", 1)), "thorough_order_flagged_programs": len(enumScenarios("mem", 2))},
			"engines":                  []string{"compiler", "interpreter"},
		},
		Extra: map[string]any{
			"runtime_life_cycles": runs, "cases": len(cases), "cases_done": perKind, "distinct_baseline_traces": len(digests), "explore_wall_s": time.Since(t0).Seconds(),
		},
	}, []string{
		"error TEXTS (stack traces, DWARF lines, function names in messages) are not compared, only error-or-not and the trap/exit class",
		"CompiledModule.CustomSections() is the purpose of WithCustomSections and is not part of the guest trace; listener event counts are a secondary observation compared among listener-on runs only",
		"points that would reserve a multi-GiB Go slice (capacity-from-max, no custom allocator, effective maximum > 1024 pages) are skipped and counted",
		"programs whose host function closes the module and returns (a documented trigger of WithCloseOnContextDone) are compared per value of that option",
		"stack depth at exhaustion is not exposed by any program (resource limit, not behaviour)",
		"no concurrency: runtimes sharing a cache are driven from one goroutine in every enumerated order",
	})
}

func hasLine(tr []string, l string) bool {
	for _, x := range tr {
		if x == l {
			return true
		}
	}
	return false
}

// ---------------------------------------------------------------- replay

func replay(file string) {
	raw, err := os.ReadFile(file)
	if err != nil {
		fw.Fatalf("replay: %v", err)
	}
	var doc struct {
		Signature string          `json:"signature"`
		What      string          `json:"what"`
		Replay    json.RawMessage `json:"replay"`
	}
	if err := json.Unmarshal(raw, &doc); err != nil {
		fw.Fatalf("replay: %v", err)
	}
	var kind struct {
		Kind, Tier, Program string
	}
	json.Unmarshal(doc.Replay, &kind)
	for _, p := range buildCorpus(false) {
		quickNames[p.Name] = true
	}
	corpus := buildCorpus(kind.Tier == "thorough")
	initLattice(kind.Tier == "thorough")
	var p *program
	for _, q := range corpus {
		if q.Name == kind.Program {
			p = q
		}
	}
	if p == nil {
		fw.Fatalf("replay: unknown program %q", kind.Program)
	}
	tmp, _ := os.MkdirTemp("", "c12-replay-")
	defer os.RemoveAll(tmp)
	e := &env{tmp: tmp, counts: map[string]int64{}}
	fmt.Printf("replaying %s\n  %s\n", doc.Signature, doc.What)
	show := func(title string, tr []string) {
		fmt.Printf("--- %s (%d steps)\n", title, len(tr))
		for i, l := range tr {
			if i < 12 || i >= len(tr)-6 {
				fmt.Println("   ", l)
			} else if i == 12 {
				fmt.Println("    ...")
			}
		}
	}
	failed := false
	switch kind.Kind {
	case "lattice":
		var r latticeReplay
		json.Unmarshal(doc.Replay, &r)
		s := r.Point.settings(r.Engine, r.Limit)
		bs := (point{Cache: "none"}).settings(r.Engine, r.Limit)
		if p.TermSensitive {
			bs.COD = s.COD
		}
		base := e.runPoint(p, bs, "none")[0]
		show("baseline", base.tr)
		var lref string
		if s.Listener {
			lref = e.runPoint(p, settings{Engine: r.Engine, Limit: r.Limit, Listener: true, LMode: s.LMode, COD: s.COD && p.TermSensitive}, "none")[0].lstLine
		}
		for i, run := range e.runPoint(p, s, r.Point.Cache) {
			k, d := diffTraces(base.tr, run.tr)
			if k == "" && s.Listener && run.lstLine != lref {
				k, d = "listener-events", fmt.Sprintf("listener saw %s, reference %s", run.lstLine, lref)
			}
			show(fmt.Sprintf("runtime %d at cache=%s toggles=[%s]", i+1, r.Point.Cache, s.toggles()), run.tr)
			if k != "" {
				failed = true
				fmt.Printf("DIFFERS (%s): %s\n", k, d)
			} else {
				fmt.Println("equal to the baseline")
			}
		}
	case "order":
		var r orderReplay
		json.Unmarshal(doc.Replay, &r)
		runs := e.runScenario(p, r.Engine, r.Scenario)
		for pos, run := range runs {
			l := r.Scenario.Tuple[pos]
			b := e.runPoint(p, letterSettings(r.Engine, l), "none")[0]
			k, d := diffTraces(b.tr, run.tr)
			if k == "" && run.s.Listener && run.lstLine != b.lstLine {
				k, d = "listener-events", fmt.Sprintf("listener saw %s, alone %s", run.lstLine, b.lstLine)
			}
			if r.Victim < 0 || r.Victim == pos {
				show(fmt.Sprintf("runtime %s alone, no cache", l), b.tr)
				show(fmt.Sprintf("runtime %s at position %d of %v", l, pos, r.Scenario.Tuple), run.tr)
			}
			if k != "" {
				failed = true
				fmt.Printf("runtime %s DIFFERS (%s): %s\n", l, k, d)
			} else {
				fmt.Printf("runtime %s equal to itself alone\n", l)
			}
		}
	case "batch":
		var r batchReplay
		json.Unmarshal(doc.Replay, &r)
		pi := -1
		for i, q := range corpus {
			if q == p {
				pi = i
			}
		}
		fmt.Printf("running the whole %s case in this process (a crash of this process reproduces the finding)\n", r.CaseKind)
		res := e.runCase(r.Tier, corpus, caseDesc{r.CaseKind, r.Engine, r.Limit, pi, r.Cache}, -1)
		fmt.Printf("completed without crashing: %d scenarios, %d comparisons, %d lattice differences, %d order difference classes\n", res.Scen, res.Evals, len(res.Viols), len(res.Groups))
		for _, v := range res.Viols {
			fmt.Println("  ", v.Sig)
		}
		for _, g := range res.Groups {
			fmt.Printf("   order:%s:%s victim=%s with=%s (%d)\n", g.Engine, g.Key, g.Victim, g.With, g.N)
		}
	default:
		fw.Fatalf("replay: unknown kind %q", kind.Kind)
	}
	if failed {
		fmt.Println("REPLAY: still fails")
		os.Exit(1)
	}
	fmt.Println("REPLAY: passes")
}
