package main

// Family ctxdone: cache temperature x "a context that is (or becomes) done" (added after seeded change c12-9).
//
// WithCloseOnContextDone(true) is decided partly at compile time (exit checks in the code, part of the module
// identity) and partly per call by the call engine (refuse a call whose context is already done; arm a watcher
// that closes the module when the context becomes done DURING the call). The second half lives in a flag of the
// compiled module that is NOT part of a serialized cache entry, so it has to be re-established whenever an entry
// is re-bound. Until this family every call of the corpus used a context that is never done while the guest
// runs, so the per-call half was never exercised at any cache temperature.
//
// One program per context kind (a done context closes the module when the option is on, so each kind needs its
// own instance); every program is TermSensitive: it is compared with the baseline (no cache) that has the SAME
// value of close-on-context-done, at every lattice point (5 cache temperatures x all other toggles).

import (
	"context"
	"fmt"
	"runtime"
	"sync"
	"sync/atomic"
	"time"

	"github.com/tetratelabs/wazero/api"
	"github.com/tetratelabs/wazero/verif/wb"
)

// ctxKinds: the alphabet of call contexts.
//
//	cancelled         already cancelled when Call is entered
//	deadline-past     context.WithDeadline with a deadline in the past (DeadlineExceeded on entry)
//	nodone            context.Background(): Done() == nil
//	cancel-mid        cancelled by the embedder (host function) while the guest is inside the call
//	deadline-mid      an embedder-defined context.Context that reports DeadlineExceeded from a moment DURING the
//	                  call (a wall-clock timeout could fire before the guest reaches the host function)
//	nested-cancelled  the outer call's context is live; a host function re-enters the guest with a cancelled one
//
// and, as a prefix of every script, cancel-after: live during the call, cancelled right after Call returned —
// the module must stay usable whatever the option.
var ctxKinds = []string{"cancelled", "deadline-past", "nodone", "cancel-mid", "deadline-mid", "nested-cancelled"}

type callCtx struct {
	kind string
	ctx  context.Context
	fire func() // makes ctx done (mid kinds)
}

// manualCtx is an embedder-defined context whose Done channel is closed by expire().
type manualCtx struct {
	context.Context
	mu   sync.Mutex
	done chan struct{}
	err  error
}

func (m *manualCtx) Done() <-chan struct{} { return m.done }
func (m *manualCtx) Err() error {
	m.mu.Lock()
	defer m.mu.Unlock()
	return m.err
}
func (m *manualCtx) expire() {
	m.mu.Lock()
	defer m.mu.Unlock()
	if m.err == nil {
		m.err = context.DeadlineExceeded
		close(m.done)
	}
}

// enterCtx builds the context of one scripted call; fin runs right after Call returned.
func (r *rtRun) enterCtx(kind string) (context.Context, func()) {
	cc := &callCtx{kind: kind, ctx: r.ctx}
	after := func() {}
	switch kind {
	case "nested-cancelled":
	case "nodone":
		cc.ctx = context.Background()
	case "cancelled":
		c, cancel := context.WithCancel(r.ctx)
		cancel()
		cc.ctx = c
	case "deadline-past":
		c, cancel := context.WithDeadline(r.ctx, time.Unix(1, 0))
		cc.ctx, after = c, cancel
	case "cancel-mid":
		c, cancel := context.WithCancel(r.ctx)
		cc.ctx, cc.fire, after = c, cancel, cancel
	case "deadline-mid":
		m := &manualCtx{Context: r.ctx, done: make(chan struct{})}
		cc.ctx, cc.fire, after = m, m.expire, m.expire
	case "cancel-after":
		c, cancel := context.WithCancel(r.ctx)
		cc.ctx, after = c, cancel
	default:
		panic("unknown context kind " + kind)
	}
	r.cur = cc
	return cc.ctx, func() { after(); r.cur = nil }
}

// watchdogExpired counts expired waits of this process. The first wait for an event that the unchanged tree
// delivers within microseconds is given 30 s; once a wait HAS expired in this process (a difference is already
// certain) later waits get 1 s, so that a broken tree is reported in reasonable time.
var watchdogExpired atomic.Int64

func waitFor(cond func() bool) bool {
	limit := 30 * time.Second
	if watchdogExpired.Load() > 0 {
		limit = time.Second
	}
	t0 := time.Now()
	for n := 0; !cond(); n++ {
		if time.Since(t0) > limit {
			watchdogExpired.Add(1)
			return false
		}
		if n < 100 {
			runtime.Gosched()
		} else {
			time.Sleep(100 * time.Microsecond)
		}
	}
	return true
}

// hostCtxDone is env.ctxdone(x) -> x+1. What it does depends on the kind of the scripted call in progress.
func (r *rtRun) hostCtxDone(ctx context.Context, mod api.Module, st []uint64) {
	x := uint32(st[0])
	kind, nested := "live", "-"
	if r.cur != nil {
		kind = r.cur.kind
	}
	switch kind {
	case "cancel-mid", "deadline-mid":
		r.cur.fire()
		// the context the HOST function was handed must be done as well (it derives from the call's context)
		seen := waitFor(func() bool {
			select {
			case <-ctx.Done():
				return true
			default:
				return false
			}
		})
		if !seen {
			nested = "host-context-never-done"
		}
		if r.s.COD {
			// documented: the module is closed when the context is done during the call; no time bound is
			// promised, so wait for the event (see waitFor) before returning into the guest
			waitFor(mod.IsClosed)
		}
	case "nested-cancelled":
		nctx, cancel := context.WithCancel(ctx)
		cancel()
		res, err := mod.ExportedFunction("cb").Call(nctx, uint64(x))
		if err != nil {
			nested = errKind(err)
		} else {
			nested = fmt.Sprintf("%x", res)
		}
	}
	r.add(" host ctxdone(%d) kind=%s ctxerr=%v nested=%s closed=%v", x, kind, ctx.Err(), nested, mod.IsClosed())
	st[0] = uint64(x + 1)
}

func ctxDoneProg(kind string) *program {
	b := newP("ctxdone", "ctxdone-"+kind, "log", "ctxdone")
	b.p.TermSensitive = true
	b.p.Tag = "call-context-" + kind
	helper := b.fn([]byte{i32}, []byte{i32}, nil, asm().LocalGet(0).I32Const(3).Op(0x6c).I32Const(1).Op(0x6a))
	logh := b.fn([]byte{i32}, []byte{i32}, nil, asm().LocalGet(0).Call(b.env["log"]).LocalGet(0).Call(helper))
	loop := func(a *wb.Asm, callee uint32) *wb.Asm { // locals: 1 = i, 2 = acc
		return a.Block(wb.Void).Loop(wb.Void).
			LocalGet(1).LocalGet(0).Op(0x4f).BrIf(1).
			LocalGet(2).LocalGet(1).Call(callee).Op(0x6a).LocalSet(2).
			LocalGet(1).I32Const(1).Op(0x6a).LocalSet(1).Br(0).End().End()
	}
	b.exp("work", []byte{i32}, []byte{i32}, []byte{i32, i32}, loop(asm(), helper).LocalGet(2))
	b.exp("hostwork", []byte{i32}, []byte{i32}, []byte{i32, i32, i32},
		loop(asm().LocalGet(0).Call(b.env["ctxdone"]).LocalSet(3), logh).LocalGet(2).LocalGet(3).Op(0x6a))
	b.exp("cb", []byte{i32}, []byte{i32}, nil, asm().LocalGet(0).I32Const(2).Op(0x6c).I32Const(1).Op(0x6a))
	g := b.global("g", i32, true, wb.CI32(5))
	b.exp("bump", nil, []byte{i32}, nil, asm().GlobalGet(g).I32Const(1).Op(0x6a).GlobalSet(g).GlobalGet(g))
	with := func(ctx, fn string, args ...uint64) {
		b.p.Calls = append(b.p.Calls, call{Fn: fn, Args: args, Ctx: ctx})
	}
	b.call("work", 3)
	with("cancel-after", "hostwork", 2)
	b.call("bump")
	with(kind, "hostwork", 2)
	b.call("work", 1)
	b.call("bump")
	with(kind, "work", 2)
	b.call("hostwork", 1)
	return b.done()
}

// ctxDoneStartProg: the START function runs under the context kind (InstantiateModule is given that context):
// it stores to a global, calls env.ctxdone (which makes a mid kind's context done) and iterates; afterwards the
// script calls into whatever instance exists.
func ctxDoneStartProg(kind string) *program {
	b := newP("ctxdone", "ctxdone-start-"+kind, "log", "ctxdone")
	b.p.TermSensitive = true
	b.p.InstCtx = kind
	b.p.Tag = "start-context-" + kind
	g := b.global("g", i32, true, wb.CI32(5))
	logh := b.fn([]byte{i32}, nil, nil, asm().LocalGet(0).Call(b.env["log"]))
	st := b.fn(nil, nil, []byte{i32}, asm().
		I32Const(9).GlobalSet(g).
		I32Const(7).Call(b.env["ctxdone"]).GlobalSet(g).
		Block(wb.Void).Loop(wb.Void).
		LocalGet(0).I32Const(2).Op(0x4f).BrIf(1).
		LocalGet(0).Call(logh).
		LocalGet(0).I32Const(1).Op(0x6a).LocalSet(0).Br(0).End().End().
		GlobalGet(g).I32Const(100).Op(0x6a).GlobalSet(g))
	b.m.Start = &st
	b.exp("bump", nil, []byte{i32}, nil, asm().GlobalGet(g).I32Const(1).Op(0x6a).GlobalSet(g).GlobalGet(g))
	b.exp("hostwork", []byte{i32}, []byte{i32}, nil, asm().LocalGet(0).Call(b.env["ctxdone"]))
	b.exp("cb", []byte{i32}, []byte{i32}, nil, asm().LocalGet(0).I32Const(2).Op(0x6c).I32Const(1).Op(0x6a))
	b.call("bump")
	b.call("hostwork", 3)
	b.call("bump")
	return b.done()
}

// famCtxDone: quick = every call-context kind + the start function under {cancelled, cancel-mid};
// thorough adds the start function under the remaining kinds.
func famCtxDone(th bool) []*program {
	var ps []*program
	for _, k := range ctxKinds {
		ps = append(ps, ctxDoneProg(k))
	}
	startKinds := []string{"cancelled", "cancel-mid"}
	if th {
		startKinds = []string{"cancelled", "deadline-past", "nodone", "cancel-mid", "deadline-mid", "nested-cancelled"}
	}
	for _, k := range startKinds {
		ps = append(ps, ctxDoneStartProg(k))
	}
	return ps
}
