package main

import (
	"fmt"
	"math"

	"github.com/tetratelabs/wazero/verif/fw"
	"github.com/tetratelabs/wazero/verif/wb"
)

// The program corpus: finite families of by-construction valid modules built with wb, each with a fixed
// call script (export, arguments). Quick uses variant 0 of every family member; thorough sweeps the
// variant parameter (constants, sizes, limits, layouts).

const (
	i32 = wb.I32
	i64 = wb.I64
	f32 = wb.F32
	f64 = wb.F64
)

type call struct {
	Fn   string   `json:"fn"`
	Args []uint64 `json:"args"`
	// Ctx: the kind of context the call is made with ("" = the runtime's live cancellable context); see ctxdone.go
	Ctx string `json:"ctx,omitempty"`
}

type program struct {
	Name, Family string
	Tag          string // feature class used in signatures (defaults to the family)
	Bin, Lib     []byte
	Calls        []call
	Globals      []string
	LibGlobals   []string
	HasMem       bool
	DeclMax      int64 // declared maximum (pages) of the program's own or imported memory; -1 = none
	MemMin       uint32
	// TermSensitive: the program triggers a documented WithCloseOnContextDone condition (the host closes
	// the module and returns into the guest); it is compared per value of that option.
	TermSensitive bool
	Order         bool // member of the quick-tier slice used for shared-cache order scenarios
	// ListenHostOnly: when the listener toggle is on, the factory returns listeners for host functions only
	// (default: for every function, guest and host).
	ListenHostOnly bool
	// ThoroughOnlyOn: engine on which the program is too expensive for the quick tier (stack exhaustion in
	// the compiler touches a 50 MB stack: ~0.2 s per run).
	ThoroughOnlyOn string
	// Feat: experimental core feature every runtime of this program enables on top of WebAssembly 2.0
	// ("" none, "tail" = CoreFeaturesTailCall, "threads" = CoreFeaturesThreads). A semantic base like the
	// memory limit: the baseline has it too.
	Feat string
	// InstCtx: kind of the context InstantiateModule (and so the start function) is called with ("" = live); ctxdone.go
	InstCtx string
}

func (p *program) tag() string {
	if p.Tag != "" {
		return p.Tag
	}
	return p.Family
}

var envSigs = map[string][2][]byte{
	"log":         {{i32}, nil},
	"add64":       {{i64, i64}, {i64}},
	"rw":          {{i32, i32}, {i32}},
	"f64pass":     {{f64}, {f64}},
	"f32pass":     {{f32}, {f32}},
	"panic":       {nil, nil},
	"exit":        {{i32}, nil},
	"closeonly":   {{i32}, nil},
	"reenter":     {{i32}, {i32}},
	"memgrow":     {{i32}, {i32}},
	"mrd":         {{i32}, {i32}},
	"mwr":         {{i32, i32}, nil},
	"mname":       {nil, {i32}},
	"mglob":       {nil, {i64}},
	"note":        {{i32}, {i32}},
	"reentermain": {{i32}, {i32}},
	"peek":        {{i32}, {i32}},
	"ctxdone":     {{i32}, {i32}},
	"pair":        {{i32}, {i32, i64}},
	"ext":         {{wb.ExternRef}, {wb.ExternRef}},
}

type pb struct {
	m   *wb.Module
	p   *program
	env map[string]uint32
}

func newP(family, name string, imports ...string) *pb {
	b := &pb{m: &wb.Module{}, p: &program{Name: name, Family: family, DeclMax: -1}, env: map[string]uint32{}}
	for _, im := range imports {
		sg, ok := envSigs[im]
		if !ok {
			panic("unknown env import " + im)
		}
		b.env[im] = b.m.ImportFunc("env", im, sg[0], sg[1])
	}
	return b
}

func (b *pb) next() uint32 { return b.m.NumImportedFuncs() + uint32(len(b.m.Funcs)) }

func (b *pb) fn(params, results, locals []byte, a *wb.Asm) uint32 {
	return b.m.AddFunc(params, results, locals, a.B)
}

func (b *pb) exp(name string, params, results, locals []byte, a *wb.Asm) uint32 {
	idx := b.fn(params, results, locals, a)
	b.m.ExportFunc(name, idx)
	return idx
}

func (b *pb) call(fn string, args ...uint64) {
	b.p.Calls = append(b.p.Calls, call{Fn: fn, Args: append([]uint64{}, args...)})
}

func (b *pb) mem(min uint32, max int64) {
	l := &wb.Limits{Min: min}
	if max >= 0 {
		l.Max, l.HasMax = uint32(max), true
	}
	b.m.Mem = l
	b.m.Exports = append(b.m.Exports, wb.Export{Name: "memory", Kind: wb.KindMemory, Idx: 0})
	b.p.HasMem, b.p.DeclMax, b.p.MemMin = true, max, min
}

func (b *pb) global(name string, t byte, mut bool, init []byte) uint32 {
	g := b.m.AddGlobal(t, mut, init)
	if name != "" {
		b.m.Exports = append(b.m.Exports, wb.Export{Name: name, Kind: wb.KindGlobal, Idx: g})
		b.p.Globals = append(b.p.Globals, name)
	}
	return g
}

func (b *pb) done() *program {
	b.p.Bin = b.m.Encode()
	return b.p
}

func asm() *wb.Asm { return &wb.Asm{} }

func u32(x int64) uint64    { return uint64(uint32(x)) }
func c32(x uint32) int32    { return int32(x) }
func fb32(f float32) uint64 { return uint64(math.Float32bits(f)) }
func fb64(f float64) uint64 { return math.Float64bits(f) }

var (
	argsI32 = []uint64{0, 1, u32(-1), 0x7fffffff, 0x80000000, 7, 0x12345678, 33}
	argsI64 = []uint64{0, 1, ^uint64(0), 0x7fffffffffffffff, 0x8000000000000000, 7, 0x123456789abcdef0, 65}
	argsF32 = []uint64{fb32(0), 0x80000000, fb32(1.5), fb32(-2.25), 0x7f800000, 0xff800000, 0x7fc00000, 0x7f7fffff, 1, fb32(4294967296), fb32(-1e10)}
	argsF64 = []uint64{fb64(0), 0x8000000000000000, fb64(1.5), fb64(-2.25), 0x7ff0000000000000, 0xfff0000000000000, 0x7ff8000000000000, 0x7fefffffffffffff, 1, fb64(4294967296), fb64(-1e19), fb64(2147483648)}
)

func argsOf(t byte) []uint64 {
	switch t {
	case i32:
		return argsI32
	case i64:
		return argsI64
	case f32:
		return argsF32
	}
	return argsF64
}

// pairsOf: a fixed set of argument pairs (every value paired with its two cyclic successors).
func pairsOf(t byte) [][2]uint64 {
	a := argsOf(t)
	var out [][2]uint64
	for i := range a {
		out = append(out, [2]uint64{a[i], a[(i+1)%len(a)]}, [2]uint64{a[i], a[(i+3)%len(a)]})
	}
	out = append(out, [2]uint64{a[5], a[0]}, [2]uint64{a[4], a[2]}) // x/0 and INT_MIN/-1 for the integer types
	return out
}

type opset struct {
	t             byte
	tn            string
	unary, binary []byte
	cmp           []byte // result i32
	test          []byte // unary with i32 result (eqz)
}

func rng(lo, hi byte) []byte {
	var o []byte
	for x := lo; x <= hi; x++ {
		o = append(o, x)
		if x == 0xff {
			break
		}
	}
	return o
}

var opsets = []opset{
	{i32, "i32", rng(0x67, 0x69), rng(0x6a, 0x78), rng(0x46, 0x4f), []byte{0x45}},
	{i64, "i64", rng(0x79, 0x7b), rng(0x7c, 0x8a), rng(0x51, 0x5a), []byte{0x50}},
	{f32, "f32", rng(0x8b, 0x91), rng(0x92, 0x98), rng(0x5b, 0x60), nil},
	{f64, "f64", rng(0x99, 0x9f), rng(0xa0, 0xa6), rng(0x61, 0x66), nil},
}

func arithProg(name string, os opset, groups string) *program {
	b := newP("arith", name)
	t := os.t
	has := func(c byte) bool {
		for i := 0; i < len(groups); i++ {
			if groups[i] == c {
				return true
			}
		}
		return false
	}
	if has('u') {
		for _, op := range os.unary {
			n := fmt.Sprintf("u%02x", op)
			b.exp(n, []byte{t}, []byte{t}, nil, asm().LocalGet(0).Op(op))
			for _, a := range argsOf(t) {
				b.call(n, a)
			}
		}
		for _, op := range os.test {
			n := fmt.Sprintf("t%02x", op)
			b.exp(n, []byte{t}, []byte{i32}, nil, asm().LocalGet(0).Op(op))
			for _, a := range argsOf(t) {
				b.call(n, a)
			}
		}
	}
	if has('b') {
		for _, op := range os.binary {
			n := fmt.Sprintf("b%02x", op)
			b.exp(n, []byte{t, t}, []byte{t}, nil, asm().LocalGet(0).LocalGet(1).Op(op))
			for _, a := range pairsOf(t) {
				b.call(n, a[0], a[1])
			}
		}
	}
	if has('c') {
		for _, op := range os.cmp {
			n := fmt.Sprintf("c%02x", op)
			b.exp(n, []byte{t, t}, []byte{i32}, nil, asm().LocalGet(0).LocalGet(1).Op(op))
			for _, a := range pairsOf(t) {
				b.call(n, a[0], a[1])
			}
		}
	}
	return b.done()
}

// arithConstProg: x op C and C op x with a constant operand (constant folding / immediate lowering paths).
func arithConstProg(os opset, ci int) *program {
	t := os.t
	c := argsOf(t)[ci]
	b := newP("arith", fmt.Sprintf("arith-%s-const%d", os.tn, ci))
	for _, op := range os.binary {
		n := fmt.Sprintf("r%02x", op)
		b.exp(n, []byte{t}, []byte{t}, nil, asm().LocalGet(0).Const(t, c).Op(op))
		l := fmt.Sprintf("l%02x", op)
		b.exp(l, []byte{t}, []byte{t}, nil, asm().Const(t, c).LocalGet(0).Op(op))
		for _, a := range argsOf(t) {
			b.call(n, a)
			b.call(l, a)
		}
	}
	return b.done()
}

type conv struct {
	op       byte
	from, to byte
}

var convs = []conv{
	{0xa7, i64, i32}, {0xa8, f32, i32}, {0xa9, f32, i32}, {0xaa, f64, i32}, {0xab, f64, i32},
	{0xac, i32, i64}, {0xad, i32, i64}, {0xae, f32, i64}, {0xaf, f32, i64}, {0xb0, f64, i64}, {0xb1, f64, i64},
	{0xb2, i32, f32}, {0xb3, i32, f32}, {0xb4, i64, f32}, {0xb5, i64, f32}, {0xb6, f64, f32},
	{0xb7, i32, f64}, {0xb8, i32, f64}, {0xb9, i64, f64}, {0xba, i64, f64}, {0xbb, f32, f64},
	{0xbc, f32, i32}, {0xbd, f64, i64}, {0xbe, i32, f32}, {0xbf, i64, f64},
}

func convProg(name string, lo, hi int) *program {
	b := newP("arith", name)
	for _, c := range convs[lo:hi] {
		n := fmt.Sprintf("v%02x", c.op)
		b.exp(n, []byte{c.from}, []byte{c.to}, nil, asm().LocalGet(0).Op(c.op))
		for _, a := range argsOf(c.from) {
			b.call(n, a)
		}
	}
	return b.done()
}

func famArith(th bool) []*program {
	var ps []*program
	for _, os := range opsets {
		ps = append(ps, arithProg("arith-"+os.tn, os, "ubc"))
	}
	ps = append(ps, convProg("arith-conv", 0, len(convs)))
	if th {
		for _, os := range opsets {
			for _, g := range []string{"u", "b", "c"} {
				ps = append(ps, arithProg("arith-"+os.tn+"-"+g, os, g))
			}
			for _, ci := range []int{1, 2, 4, 6} {
				ps = append(ps, arithConstProg(os, ci))
			}
		}
		ps = append(ps, convProg("arith-conv-a", 0, 6), convProg("arith-conv-b", 6, 11), convProg("arith-conv-c", 11, 21), convProg("arith-conv-d", 21, len(convs)))
	}
	return ps
}

// ---------------------------------------------------------------- control flow

func ctlFib(k int) *program {
	b := newP("control", fmt.Sprintf("ctl-fib-%d", k))
	self := b.next()
	b.exp("fib", []byte{i32}, []byte{i32}, nil, asm().
		LocalGet(0).I32Const(2).Op(0x48).If(i32).LocalGet(0).
		Else().LocalGet(0).I32Const(1).Op(0x6b).Call(self).LocalGet(0).I32Const(2).Op(0x6b).Call(self).Op(0x6a).I32Const(int32(k)).Op(0x6a).End())
	for _, n := range []uint64{0, 1, 2, 10, uint64(14 + k%3)} {
		b.call("fib", n)
	}
	return b.done()
}

func ctlLoop(k int) *program {
	b := newP("control", fmt.Sprintf("ctl-loop-%d", k))
	b.exp("sum", []byte{i32}, []byte{i64}, []byte{i64, i32}, asm().
		Block(wb.Void).Loop(wb.Void).
		LocalGet(2).LocalGet(0).Op(0x4f).BrIf(1).
		LocalGet(1).LocalGet(2).Op(0xad).I64Const(int64(k+1)).Op(0x7e).Op(0x7c).LocalSet(1).
		LocalGet(2).I32Const(1).Op(0x6a).LocalSet(2).Br(0).
		End().End().LocalGet(1))
	for _, n := range []uint64{0, 1, 10, uint64(1000 + 37*k)} {
		b.call("sum", n)
	}
	return b.done()
}

func ctlSwitch(k int) *program {
	b := newP("control", fmt.Sprintf("ctl-switch-%d", k))
	a := asm().Block(wb.Void).Block(wb.Void).Block(wb.Void).Block(wb.Void).
		LocalGet(0).BrTable([]uint32{0, 1, 2}, 3).End().
		I32Const(int32(10 + k)).Return().End().
		I32Const(int32(20 + k)).Return().End().
		I32Const(int32(30 + k)).Return().End().
		I32Const(99)
	b.exp("sw", []byte{i32}, []byte{i32}, nil, a)
	for _, n := range []uint64{0, 1, 2, 3, 4, u32(-1)} {
		b.call("sw", n)
	}
	return b.done()
}

func ctlNested(k int) *program {
	b := newP("control", fmt.Sprintf("ctl-nested-%d", k))
	lo, hi := int32(-5-k), int32(100+k)
	b.exp("clamp", []byte{i32}, []byte{i32}, nil, asm().
		LocalGet(0).I32Const(lo).Op(0x48).If(i32).I32Const(lo).
		Else().LocalGet(0).I32Const(hi).Op(0x4a).If(i32).I32Const(hi).Else().LocalGet(0).End().End())
	b.exp("sel", []byte{i32, i32, i32}, []byte{i32}, nil, asm().LocalGet(0).LocalGet(1).LocalGet(2).Select())
	// br out of two nested blocks carrying a value
	b.exp("deep", []byte{i32}, []byte{i32}, nil, asm().
		Block(i32).Block(i32).LocalGet(0).LocalGet(0).I32Const(int32(3+k)).Op(0x4b).BrIf(1).Drop().I32Const(7).End().I32Const(1).Op(0x6a).End())
	for _, n := range []uint64{0, u32(-100), 50, 1000, u32(int64(lo)), u32(int64(hi))} {
		b.call("clamp", n)
		b.call("deep", n)
	}
	b.call("sel", 1, 2, 0)
	b.call("sel", 1, 2, 5)
	return b.done()
}

func ctlCollatz(k int) *program {
	b := newP("control", fmt.Sprintf("ctl-collatz-%d", k))
	b.exp("steps", []byte{i64}, []byte{i32}, []byte{i32}, asm().
		Block(wb.Void).Loop(wb.Void).
		LocalGet(0).I64Const(1).Op(0x58).BrIf(1). // n <= 1 (unsigned)
		LocalGet(0).I64Const(1).Op(0x83).Op(0xa7).If(i64).
		LocalGet(0).I64Const(3).Op(0x7e).I64Const(int64(1+2*k)).Op(0x7c).
		Else().LocalGet(0).I64Const(1).Op(0x88).End().LocalSet(0).
		LocalGet(1).I32Const(1).Op(0x6a).LocalTee(1).I32Const(5000).Op(0x4f).BrIf(1).
		Br(0).End().End().LocalGet(1))
	for _, n := range []uint64{0, 1, 6, 27, uint64(97 + k)} {
		b.call("steps", n)
	}
	return b.done()
}

func famControl(th bool) []*program {
	gens := []func(int) *program{ctlFib, ctlLoop, ctlSwitch, ctlNested, ctlCollatz}
	var ps []*program
	n := 1
	if th {
		n = 5
	}
	for _, g := range gens {
		for k := 0; k < n; k++ {
			ps = append(ps, g(k))
		}
	}
	return ps
}

// ---------------------------------------------------------------- memory growth

func memFuncs(b *pb) {
	b.exp("size", nil, []byte{i32}, nil, asm().MemorySize())
	b.exp("grow", []byte{i32}, []byte{i32}, nil, asm().LocalGet(0).MemoryGrow())
	b.exp("st", []byte{i32, i32}, nil, nil, asm().LocalGet(0).LocalGet(1).Mem(0x36, 2, 0))
	b.exp("ld", []byte{i32}, []byte{i32}, nil, asm().LocalGet(0).Mem(0x28, 2, 0))
	b.exp("ld64", []byte{i32}, []byte{i64}, nil, asm().LocalGet(0).Mem(0x29, 3, 0))
	// touchlast: write the page count into the last byte of the memory and read it back
	b.exp("touchlast", nil, []byte{i32}, []byte{i32}, asm().
		MemorySize().I32Const(16).Op(0x74).I32Const(1).Op(0x6b).LocalTee(0).MemorySize().Mem(0x3a, 0, 0).LocalGet(0).Mem(0x2d, 0, 0))
	// probe_past: the first byte after the memory must trap
	b.exp("probe_past", nil, []byte{i32}, nil, asm().MemorySize().I32Const(16).Op(0x74).Mem(0x2d, 0, 0))
}

func memGrowProg(min uint32, max int64) *program {
	mx := "none"
	if max >= 0 {
		mx = fmt.Sprint(max)
	}
	b := newP("memgrow", fmt.Sprintf("mem-%d-%s", min, mx))
	b.mem(min, max)
	memFuncs(b)
	b.call("size")
	b.call("touchlast")
	b.call("probe_past")
	b.call("st", 0, 0x11223344)
	b.call("ld", 0)
	for _, d := range []uint64{1, 2, 1, 1, 1, 1, 1, 1, 1} {
		b.call("grow", d)
		b.call("size")
		b.call("touchlast")
		b.call("probe_past")
	}
	b.call("grow", 0)
	b.call("grow", 0x10000)
	b.call("grow", 0x7fffffff)
	b.call("grow", 0xffffffff)
	b.call("size")
	b.call("ld", 0)
	b.call("ld64", 65536-8)
	b.call("ld64", 65536-7)
	b.call("st", 2*65536-4, 0x55667788)
	b.call("ld", 2*65536-4)
	return b.done()
}

// memGrowStore: one activation stores, grows the memory (so that the buffer moves whenever its capacity is
// below the declared maximum), stores and loads again; later calls and the host (api.Memory) read the same
// addresses. The growth happens directly, inside a callee, or inside a host function.
func memGrowStore(k int) *program {
	b := newP("memgrow", fmt.Sprintf("mem-growstore-%d", k), "memgrow", "peek")
	b.p.Tag = "store-grow-store"
	b.mem(1, int64(4+k))
	growDirect := func(a *wb.Asm) *wb.Asm { return a.I32Const(1).MemoryGrow().Drop() }
	callee := b.fn(nil, nil, nil, asm().I32Const(1).MemoryGrow().Drop())
	growCallee := func(a *wb.Asm) *wb.Asm { return a.Call(callee) }
	growHost := func(a *wb.Asm) *wb.Asm { return a.I32Const(1).Call(b.env["memgrow"]).Drop() }
	for _, v := range []struct {
		name string
		grow func(*wb.Asm) *wb.Asm
	}{{"go", growDirect}, {"gocallee", growCallee}, {"gohost", growHost}} {
		a := asm().LocalGet(0).LocalGet(2).Mem(0x36, 2, 0)
		a = v.grow(a)
		a.LocalGet(1).LocalGet(3).Mem(0x36, 2, 0).
			LocalGet(0).Mem(0x28, 2, 0).Op(0xad).I64Const(32).Op(0x86).
			LocalGet(1).Mem(0x28, 2, 0).Op(0xad).Op(0x84)
		b.exp(v.name, []byte{i32, i32, i32, i32}, []byte{i64}, nil, a)
	}
	b.exp("rd", []byte{i32}, []byte{i32}, nil, asm().LocalGet(0).Mem(0x28, 2, 0))
	b.exp("hostrd", []byte{i32}, []byte{i32}, nil, asm().LocalGet(0).Call(b.env["peek"]))
	b.exp("size", nil, []byte{i32}, nil, asm().MemorySize())
	base := uint64(8 + 64*k)
	step := func(fn string, a, bb, v, w uint64) {
		b.call(fn, a, bb, v, w)
		b.call("rd", a)
		b.call("rd", bb)
		b.call("hostrd", a)
		b.call("hostrd", bb)
		b.call("size")
	}
	step("go", base, base, 7, 42)           // the same address before and after the growth
	step("gocallee", base+8, base, 9, 43)   // overwrites an earlier cell after the growth
	step("gohost", base+16, base+8, 11, 44) // growth by the embedder during the call
	step("go", base+24, base+16, 13, 45)    // growth refused once the maximum is reached
	return b.done()
}

func famMem(th bool) []*program {
	type mm struct {
		min uint32
		max int64
	}
	list := []mm{{1, -1}, {1, 4}, {0, 2}, {2, 2}, {1, 9}, {1, 100}}
	if th {
		list = nil
		for _, min := range []uint32{0, 1, 2, 3} {
			for _, max := range []int64{-1, int64(min), int64(min) + 1, 4, 8, 9, 16, 100, 65536} {
				if max >= 0 && max < int64(min) {
					continue
				}
				dup := false
				for _, l := range list {
					if l.min == min && l.max == max {
						dup = true
					}
				}
				if !dup {
					list = append(list, mm{min, max})
				}
			}
		}
	}
	var ps []*program
	for _, l := range list {
		p := memGrowProg(l.min, l.max)
		if l.min == 1 && l.max == 4 {
			p.Order = true
		}
		ps = append(ps, p)
	}
	gs := memGrowStore(0)
	gs.Order = true
	ps = append(ps, gs)
	if th {
		for k := 1; k < 4; k++ {
			ps = append(ps, memGrowStore(k))
		}
	}
	return ps
}

// ---------------------------------------------------------------- globals

func globalsProg(k int) *program {
	b := newP("globals", fmt.Sprintf("globals-%d", k))
	gi := b.global("gi", i32, true, wb.CI32(int32(5+k)))
	gl := b.global("gl", i64, true, wb.CI64(int64(-7-k)))
	gf := b.global("gf", f32, true, wb.CF32(wb.F32Bits(1.25+float32(k))))
	gd := b.global("gd", f64, true, wb.CF64(wb.F64Bits(-0.5*float64(k+1))))
	gc := b.global("gc", i32, false, wb.CI32(int32(1000+k)))
	hidden := b.global("", i64, true, wb.CI64(int64(k)))
	b.exp("seti", []byte{i32}, nil, nil, asm().LocalGet(0).GlobalSet(gi))
	b.exp("geti", nil, []byte{i32}, nil, asm().GlobalGet(gi).GlobalGet(gc).Op(0x6a))
	b.exp("addl", []byte{i64}, []byte{i64}, nil, asm().GlobalGet(gl).LocalGet(0).Op(0x7c).GlobalSet(gl).GlobalGet(gl))
	b.exp("mulf", []byte{f32}, []byte{f32}, nil, asm().GlobalGet(gf).LocalGet(0).Op(0x94).GlobalSet(gf).GlobalGet(gf))
	b.exp("setd", []byte{f64}, nil, nil, asm().LocalGet(0).GlobalSet(gd))
	b.exp("bump", nil, []byte{i64}, nil, asm().GlobalGet(hidden).I64Const(3).Op(0x7c).GlobalSet(hidden).GlobalGet(hidden))
	b.call("geti")
	b.call("seti", 77)
	b.call("geti")
	b.call("addl", 100)
	b.call("addl", ^uint64(0))
	b.call("mulf", fb32(2))
	b.call("mulf", 0x7fc00000)
	b.call("setd", fb64(3.75))
	b.call("bump")
	b.call("bump")
	return b.done()
}

func famGlobals(th bool) []*program {
	ps := []*program{globalsProg(0), globalsProg(1)}
	if th {
		for k := 2; k < 10; k++ {
			ps = append(ps, globalsProg(k))
		}
	}
	return ps
}

// ---------------------------------------------------------------- tables

func tblCallIndirect(k int) *program {
	b := newP("tables", fmt.Sprintf("tbl-ci-%d", k))
	tA := b.m.Type([]byte{i32}, []byte{i32})
	fAdd := b.fn([]byte{i32}, []byte{i32}, nil, asm().LocalGet(0).I32Const(int32(1+k)).Op(0x6a))
	fDbl := b.fn([]byte{i32}, []byte{i32}, nil, asm().LocalGet(0).I32Const(2).Op(0x6c))
	fL := b.fn([]byte{i64}, []byte{i64}, nil, asm().LocalGet(0))
	b.m.Tables = []wb.Table{{Elem: wb.FuncRef, Lim: wb.Limits{Min: uint32(4 + k), Max: 8, HasMax: true}}}
	b.m.Elems = []wb.Elem{{Mode: 0, Offset: wb.CI32(int32(k % 2)), Funcs: []uint32{fAdd, fDbl, fL}}}
	b.exp("ci", []byte{i32, i32}, []byte{i32}, nil, asm().LocalGet(1).LocalGet(0).CallIndirect(tA, 0))
	for idx := uint64(0); idx < uint64(6+k); idx++ {
		b.call("ci", idx, 5)
	}
	b.call("ci", u32(-1), 5)
	return b.done()
}

func tblOps(k int) *program {
	b := newP("tables", fmt.Sprintf("tbl-ops-%d", k))
	tA := b.m.Type([]byte{i32}, []byte{i32})
	f0 := b.fn([]byte{i32}, []byte{i32}, nil, asm().LocalGet(0).I32Const(100).Op(0x6a))
	f1 := b.fn([]byte{i32}, []byte{i32}, nil, asm().LocalGet(0).I32Const(200).Op(0x6a))
	f2 := b.fn([]byte{i32}, []byte{i32}, nil, asm().LocalGet(0).I32Const(300).Op(0x6a))
	b.m.Tables = []wb.Table{{Elem: wb.FuncRef, Lim: wb.Limits{Min: uint32(2 + k), Max: uint32(6 + k), HasMax: true}}}
	b.m.Elems = []wb.Elem{
		{Mode: 0, Offset: wb.CI32(0), Funcs: []uint32{f0}},
		{Mode: 1, Funcs: []uint32{f1, f2, f0}},
		{Mode: 2, Funcs: []uint32{f0, f1, f2}},
	}
	b.exp("ci", []byte{i32, i32}, []byte{i32}, nil, asm().LocalGet(1).LocalGet(0).CallIndirect(tA, 0))
	b.exp("tsize", nil, []byte{i32}, nil, asm().TableSize(0))
	b.exp("tgrow", []byte{i32}, []byte{i32}, nil, asm().RefNull(wb.FuncRef).LocalGet(0).TableGrow(0))
	b.exp("tgrowf", []byte{i32}, []byte{i32}, nil, asm().RefFunc(f2).LocalGet(0).TableGrow(0))
	b.exp("tset1", []byte{i32}, nil, nil, asm().LocalGet(0).RefFunc(f1).TableSet(0))
	b.exp("tnull", []byte{i32}, []byte{i32}, nil, asm().LocalGet(0).TableGet(0).RefIsNull())
	b.exp("tfill", []byte{i32, i32}, nil, nil, asm().LocalGet(0).RefFunc(f2).LocalGet(1).TableFill(0))
	b.exp("tcopy", []byte{i32, i32, i32}, nil, nil, asm().LocalGet(0).LocalGet(1).LocalGet(2).TableCopy(0, 0))
	b.exp("tinit", []byte{i32, i32, i32}, nil, nil, asm().LocalGet(0).LocalGet(1).LocalGet(2).TableInit(1, 0))
	b.exp("edrop", nil, nil, nil, asm().ElemDrop(1))
	b.call("tsize")
	b.call("ci", 0, 1)
	b.call("ci", 1, 1)
	b.call("tnull", 0)
	b.call("tnull", 1)
	b.call("tnull", 99)
	b.call("tset1", 1)
	b.call("ci", 1, 1)
	b.call("tgrow", 2)
	b.call("tsize")
	b.call("tgrowf", 1)
	b.call("tgrow", 100)
	b.call("tsize")
	b.call("ci", uint64(4+k), 1)
	b.call("tfill", 2, 2)
	b.call("ci", 3, 1)
	b.call("tfill", 3, 100)
	b.call("tcopy", 0, 3, 1)
	b.call("ci", 0, 1)
	b.call("tcopy", 0, 1, 100)
	b.call("tinit", 0, 0, 3)
	b.call("ci", 0, 1)
	b.call("ci", 1, 1)
	b.call("tinit", 0, 2, 2)
	b.call("edrop")
	b.call("tinit", 0, 0, 0)
	b.call("tinit", 0, 0, 1)
	b.call("tset1", 1000)
	return b.done()
}

func tblTwo(k int) *program {
	b := newP("tables", fmt.Sprintf("tbl-two-%d", k))
	tA := b.m.Type([]byte{i32}, []byte{i32})
	f0 := b.fn([]byte{i32}, []byte{i32}, nil, asm().LocalGet(0).I32Const(int32(11+k)).Op(0x6c))
	f1 := b.fn([]byte{i32}, []byte{i32}, nil, asm().LocalGet(0).I32Const(int32(13+k)).Op(0x6c))
	b.m.Tables = []wb.Table{{Elem: wb.FuncRef, Lim: wb.Limits{Min: 2}}, {Elem: wb.FuncRef, Lim: wb.Limits{Min: uint32(3 + k)}}}
	b.m.Elems = []wb.Elem{
		{Mode: 0, TableIdx: 1, Offset: wb.CI32(1), Funcs: []uint32{f0, f1}},
		{Mode: 0, Offset: wb.CI32(0), Funcs: []uint32{f1}, UseExprs: true},
	}
	b.m.Exports = append(b.m.Exports, wb.Export{Name: "t1", Kind: wb.KindTable, Idx: 1})
	b.exp("ci0", []byte{i32, i32}, []byte{i32}, nil, asm().LocalGet(1).LocalGet(0).CallIndirect(tA, 0))
	b.exp("ci1", []byte{i32, i32}, []byte{i32}, nil, asm().LocalGet(1).LocalGet(0).CallIndirect(tA, 1))
	b.exp("cp10", []byte{i32, i32, i32}, nil, nil, asm().LocalGet(0).LocalGet(1).LocalGet(2).TableCopy(0, 1))
	for i := uint64(0); i < 4; i++ {
		b.call("ci0", i, 3)
		b.call("ci1", i, 3)
	}
	b.call("cp10", 0, 1, 2)
	b.call("ci0", 0, 3)
	b.call("ci0", 1, 3)
	b.call("cp10", 1, 1, 2)
	return b.done()
}

func famTables(th bool) []*program {
	p := tblCallIndirect(0)
	p.Order = true
	ps := []*program{p, tblOps(0), tblTwo(0)}
	if th {
		for k := 1; k < 8; k++ {
			ps = append(ps, tblCallIndirect(k%4+k/4), tblOps(k), tblTwo(k))
		}
		ps = dedup(ps)
	}
	return ps
}

func dedup(ps []*program) []*program {
	seen := map[string]bool{}
	var out []*program
	for _, p := range ps {
		if !seen[p.Name] {
			seen[p.Name] = true
			out = append(out, p)
		}
	}
	return out
}

// ---------------------------------------------------------------- bulk memory

func sumFunc(b *pb) {
	// sum(addr,len): rolling checksum of a byte range (traps when the range leaves the memory)
	b.exp("sum", []byte{i32, i32}, []byte{i32}, []byte{i32}, asm().
		Block(wb.Void).Loop(wb.Void).
		LocalGet(1).Op(0x45).BrIf(1).
		LocalGet(2).I32Const(31).Op(0x6c).LocalGet(0).Mem(0x2d, 0, 0).Op(0x6a).LocalSet(2).
		LocalGet(0).I32Const(1).Op(0x6a).LocalSet(0).
		LocalGet(1).I32Const(1).Op(0x6b).LocalSet(1).Br(0).End().End().LocalGet(2))
}

func bulkCopyFill(k int) *program {
	b := newP("bulk", fmt.Sprintf("bulk-copyfill-%d", k))
	b.mem(1, 2)
	base := uint64(16 + 3*k)
	b.m.Datas = []wb.Data{{Offset: wb.CI32(int32(base)), Bytes: []byte("The quick brown fox jumps")[:19+k%5]}}
	sumFunc(b)
	b.exp("copy", []byte{i32, i32, i32}, nil, nil, asm().LocalGet(0).LocalGet(1).LocalGet(2).MemoryCopy())
	b.exp("fill", []byte{i32, i32, i32}, nil, nil, asm().LocalGet(0).LocalGet(1).LocalGet(2).MemoryFill())
	b.call("sum", base, 19)
	b.call("copy", base+4, base, 10)
	b.call("sum", base, 32)
	b.call("copy", base-6, base-2, 12)
	b.call("sum", base-8, 40)
	b.call("fill", 100, 0xab+uint64(k), 50)
	b.call("sum", 90, 70)
	b.call("copy", 65530, 0, 10)
	b.call("sum", 65500, 36)
	b.call("fill", 65536, 1, 0)
	b.call("fill", 65537, 1, 0)
	b.call("copy", 0, 65536, 0)
	b.call("copy", 65537, 0, 0)
	b.call("fill", 65535, 9, 2)
	b.call("sum", 65535, 1)
	return b.done()
}

func bulkInit(k int) *program {
	b := newP("bulk", fmt.Sprintf("bulk-init-%d", k))
	b.mem(1, -1)
	b.m.DataCount = true
	b.m.Datas = []wb.Data{
		{Passive: true, Bytes: []byte("0123456789abcdefghij")[:16+k%4]},
		{Offset: wb.CI32(int32(200 + k)), Bytes: []byte{1, 2, 3, byte(k)}},
	}
	sumFunc(b)
	b.exp("init", []byte{i32, i32, i32}, nil, nil, asm().LocalGet(0).LocalGet(1).LocalGet(2).MemoryInit(0))
	b.exp("drop", nil, nil, nil, asm().DataDrop(0))
	b.exp("drop1", nil, nil, nil, asm().DataDrop(1))
	b.call("sum", 200, 8)
	b.call("init", 0, 0, 16)
	b.call("sum", 0, 16)
	b.call("init", 100, 10, 6)
	b.call("sum", 100, 6)
	b.call("init", 0, 10, 17)
	b.call("init", 65530, 0, 7)
	b.call("drop1")
	b.call("drop")
	b.call("init", 0, 0, 0)
	b.call("init", 0, 0, 1)
	b.call("drop")
	b.call("sum", 0, 300)
	return b.done()
}

// bulkPassive: the results depend on the CONTENTS of passive data and element segments, whose instances the
// compiler reads through the module context; the bulk instructions sit in functions other than the first and
// run after a call.
func bulkPassive(k int) *program {
	b := newP("bulk", fmt.Sprintf("bulk-passive-%d", k))
	b.p.Tag = "passive-segments"
	b.mem(1, -1)
	b.m.DataCount = true
	tA := b.m.Type([]byte{i32}, []byte{i32})
	g := b.global("calls", i32, true, wb.CI32(0))
	helper := b.exp("helper", nil, nil, nil, asm().GlobalGet(g).I32Const(1).Op(0x6a).GlobalSet(g)) // function 0
	f1 := b.fn([]byte{i32}, []byte{i32}, nil, asm().LocalGet(0).I32Const(int32(1000+k)).Op(0x6a))
	f2 := b.fn([]byte{i32}, []byte{i32}, nil, asm().LocalGet(0).I32Const(int32(2000+k)).Op(0x6a))
	f3 := b.fn([]byte{i32}, []byte{i32}, nil, asm().LocalGet(0).I32Const(int32(3000+k)).Op(0x6a))
	b.m.Tables = []wb.Table{{Elem: wb.FuncRef, Lim: wb.Limits{Min: 6}}}
	b.m.Datas = []wb.Data{
		{Passive: true, Bytes: []byte("first-passive-segment")},
		{Passive: true, Bytes: []byte("SECOND_PASSIVE_SEGMENT!")[:20+k%4]},
	}
	b.m.Elems = []wb.Elem{
		{Mode: 1, Funcs: []uint32{f1, f2}},
		{Mode: 1, Funcs: []uint32{f3, f1, f2}},
	}
	sumFunc(b)
	for seg := uint32(0); seg < 2; seg++ {
		b.exp(fmt.Sprintf("dinit%d", seg), []byte{i32, i32, i32}, nil, nil, asm().Call(helper).LocalGet(0).LocalGet(1).LocalGet(2).MemoryInit(seg))
		b.exp(fmt.Sprintf("tinit%d", seg), []byte{i32, i32, i32}, nil, nil, asm().Call(helper).LocalGet(0).LocalGet(1).LocalGet(2).TableInit(seg, 0))
		b.exp(fmt.Sprintf("ddrop%d", seg), nil, nil, nil, asm().Call(helper).DataDrop(seg))
		b.exp(fmt.Sprintf("edrop%d", seg), nil, nil, nil, asm().Call(helper).ElemDrop(seg))
	}
	b.exp("ci", []byte{i32, i32}, []byte{i32}, nil, asm().Call(helper).LocalGet(1).LocalGet(0).CallIndirect(tA, 0))
	b.call("dinit0", 0, 0, 21)
	b.call("dinit1", 32, 0, 20)
	b.call("sum", 0, 64)
	b.call("dinit1", 8, 7, 8)
	b.call("sum", 0, 64)
	b.call("dinit0", 0, 10, 12) // source range past the segment: trap
	b.call("tinit0", 0, 0, 2)
	b.call("tinit1", 2, 0, 3)
	for i := uint64(0); i < 6; i++ {
		b.call("ci", i, 1)
	}
	b.call("tinit1", 0, 2, 1)
	b.call("ci", 0, 1)
	b.call("tinit0", 4, 1, 2) // source range past the segment: trap
	b.call("ddrop0")
	b.call("dinit0", 0, 0, 1) // dropped: trap
	b.call("dinit0", 0, 0, 0)
	b.call("dinit1", 100, 3, 5)
	b.call("edrop1")
	b.call("tinit1", 0, 0, 1) // dropped: trap
	b.call("tinit0", 5, 1, 1)
	b.call("ci", 5, 1)
	b.call("ddrop1")
	b.call("edrop0")
	b.call("sum", 96, 16)
	return b.done()
}

func famBulk(th bool) []*program {
	ps := []*program{bulkCopyFill(0), bulkInit(0), bulkPassive(0)}
	if th {
		for k := 1; k < 10; k++ {
			ps = append(ps, bulkCopyFill(k), bulkInit(k))
		}
		for k := 1; k < 4; k++ {
			ps = append(ps, bulkPassive(k))
		}
	}
	return ps
}

// ---------------------------------------------------------------- host calls

func hostBasic(k int) *program {
	b := newP("host", fmt.Sprintf("host-basic-%d", k), "log", "add64", "rw", "f64pass", "f32pass", "pair")
	b.mem(1, -1)
	b.m.Datas = []wb.Data{{Offset: wb.CI32(32), Bytes: []byte("host-visible bytes")}}
	b.exp("t1", []byte{i32}, []byte{i64}, nil, asm().
		LocalGet(0).Call(b.env["log"]).LocalGet(0).I32Const(int32(1+k)).Op(0x6a).Call(b.env["log"]).
		LocalGet(0).Op(0xad).I64Const(int64(5+k)).Call(b.env["add64"]))
	b.exp("rwtest", []byte{i32, i32}, []byte{i32}, nil, asm().
		LocalGet(0).LocalGet(1).Call(b.env["rw"]).LocalGet(0).Mem(0x2d, 0, 0).Op(0x6a))
	b.exp("fp", []byte{f64, f32}, []byte{f64}, nil, asm().
		LocalGet(0).Call(b.env["f64pass"]).LocalGet(1).Call(b.env["f32pass"]).Op(0xbb).Op(0xa0))
	b.exp("pr", []byte{i32}, []byte{i64}, nil, asm().LocalGet(0).Call(b.env["pair"]).LocalSet(1).Op(0xad).LocalGet(1).Op(0x7c))
	// pr needs an i64 local at index 1
	b.m.Funcs[len(b.m.Funcs)-1].Locals = []byte{i64}
	b.call("t1", 3)
	b.call("t1", u32(-1))
	b.call("rwtest", 32, 18)
	b.call("rwtest", 32, 18)
	b.call("rwtest", 65530, 10)
	b.call("rwtest", 40, 0)
	b.call("fp", fb64(1.5), fb32(2.5))
	b.call("fp", 0x7ff8000000000001, 0x7fa00000)
	b.call("pr", 9)
	return b.done()
}

func hostReenter(k int) *program {
	b := newP("host", fmt.Sprintf("host-reenter-%d", k), "log", "reenter")
	g := b.global("depth", i32, true, wb.CI32(0))
	b.exp("cb", []byte{i32}, []byte{i32}, nil, asm().
		GlobalGet(g).I32Const(1).Op(0x6a).GlobalSet(g).LocalGet(0).Call(b.env["log"]).
		LocalGet(0).I32Const(int32(90+k)).Op(0x46).If(wb.Void).Unreachable().End().
		LocalGet(0).I32Const(2).Op(0x6c))
	b.exp("go", []byte{i32}, []byte{i32}, nil, asm().
		LocalGet(0).Call(b.env["reenter"]).LocalGet(0).I32Const(1).Op(0x6a).Call(b.env["reenter"]).Op(0x6a))
	b.call("go", 4)
	b.call("go", uint64(89+k)) // the second nested call traps inside the callback
	b.call("go", 1)
	return b.done()
}

func hostMemGrow(k int) *program {
	b := newP("host", fmt.Sprintf("host-memgrow-%d", k), "memgrow")
	b.mem(1, int64(4+k))
	b.exp("go", []byte{i32}, []byte{i32}, nil, asm().
		I32Const(8).I32Const(c32(0xcafe0000+uint32(k))).Mem(0x36, 2, 0).
		LocalGet(0).Call(b.env["memgrow"]).Drop().
		I32Const(65536+12).I32Const(77).Mem(0x36, 2, 0). // touches the page the host just added (traps if it did not)
		I32Const(8).Mem(0x28, 2, 0).I32Const(65536+12).Mem(0x28, 2, 0).Op(0x6a).MemorySize().Op(0x6a))
	b.exp("size", nil, []byte{i32}, nil, asm().MemorySize())
	b.call("go", 1)
	b.call("size")
	b.call("go", 1)
	b.call("go", 100)
	b.call("go", 0)
	b.call("size")
	return b.done()
}

func hostPanic(k int) *program {
	b := newP("host", fmt.Sprintf("host-panic-%d", k), "log", "panic")
	b.mem(1, -1)
	g := b.global("g", i32, true, wb.CI32(0))
	b.exp("go", []byte{i32}, []byte{i32}, nil, asm().
		I32Const(0).LocalGet(0).Mem(0x36, 2, 0).LocalGet(0).GlobalSet(g).LocalGet(0).Call(b.env["log"]).
		Call(b.env["panic"]).
		I32Const(0).I32Const(int32(2+k)).Mem(0x36, 2, 0).I32Const(5))
	b.exp("ld", nil, []byte{i32}, nil, asm().I32Const(0).Mem(0x28, 2, 0))
	b.call("go", uint64(41+k))
	b.call("ld")
	b.call("go", 1)
	b.call("ld")
	return b.done()
}

func hostExit(k int) *program {
	b := newP("host", fmt.Sprintf("host-exit-%d", k), "log", "exit")
	b.mem(1, -1)
	b.exp("go", []byte{i32}, []byte{i32}, nil, asm().
		I32Const(0).LocalGet(0).Mem(0x36, 2, 0).I32Const(1).Call(b.env["log"]).
		LocalGet(0).Call(b.env["exit"]).I32Const(2).Call(b.env["log"]).I32Const(5))
	b.exp("ld", nil, []byte{i32}, nil, asm().I32Const(0).Mem(0x28, 2, 0))
	b.call("ld")
	b.call("go", uint64(3+k))
	b.call("ld")
	b.call("go", 0)
	return b.done()
}

func hostCloseOnly(k int) *program {
	b := newP("host", fmt.Sprintf("host-closeonly-%d", k), "log", "closeonly")
	b.p.TermSensitive = true
	b.p.Tag = "host-closes-module-and-returns"
	self := b.next()
	_ = self
	helper := b.fn([]byte{i32}, nil, nil, asm().LocalGet(0).Call(b.env["log"]))
	b.exp("go", []byte{i32}, []byte{i32}, []byte{i32}, asm().
		LocalGet(0).Call(b.env["closeonly"]).
		Block(wb.Void).Loop(wb.Void).
		LocalGet(1).I32Const(int32(3+k)).Op(0x4f).BrIf(1).
		LocalGet(1).Call(helper).
		LocalGet(1).I32Const(1).Op(0x6a).LocalSet(1).Br(0).End().End().I32Const(42))
	b.call("go", 7)
	b.call("go", 8)
	return b.done()
}

func famHost(th bool) []*program {
	hb := hostBasic(0)
	hb.Order = true
	hc := hostCloseOnly(0)
	hc.Order = true
	ps := []*program{hb, hostReenter(0), hostMemGrow(0), hostPanic(0), hostExit(0), hc}
	if th {
		for k := 1; k < 5; k++ {
			ps = append(ps, hostBasic(k), hostReenter(k), hostMemGrow(k), hostPanic(k), hostExit(k), hostCloseOnly(k))
		}
	}
	return ps
}

// ---------------------------------------------------------------- traps

func trapMem(k int) *program {
	b := newP("traps", fmt.Sprintf("trap-mem-%d", k))
	b.mem(1, 1)
	type ls struct {
		op    byte
		width uint64
		t     byte
	}
	loads := []ls{{0x28, 4, i32}, {0x29, 8, i64}, {0x2a, 4, f32}, {0x2b, 8, f64}, {0x2c, 1, i32}, {0x2d, 1, i32}, {0x2e, 2, i32}, {0x2f, 2, i32},
		{0x30, 1, i64}, {0x31, 1, i64}, {0x32, 2, i64}, {0x33, 2, i64}, {0x34, 4, i64}, {0x35, 4, i64}}
	stores := []ls{{0x36, 4, i32}, {0x37, 8, i64}, {0x38, 4, f32}, {0x39, 8, f64}, {0x3a, 1, i32}, {0x3b, 2, i32}, {0x3c, 1, i64}, {0x3d, 2, i64}, {0x3e, 4, i64}}
	off := uint64(0xfff0 + 16*uint64(k%2))
	if k%2 == 1 {
		off = 0x100
	}
	for _, l := range loads {
		n := fmt.Sprintf("l%02x", l.op)
		b.exp(n, []byte{i32}, []byte{l.t}, nil, asm().LocalGet(0).Mem(l.op, 0, 0))
		no := n + "o"
		b.exp(no, []byte{i32}, []byte{l.t}, nil, asm().LocalGet(0).Mem(l.op, 0, off))
		b.call(n, 65536-l.width)
		b.call(n, 65536-l.width+1)
		b.call(n, 0xffffffff)
		b.call(no, 65536-off-l.width)
		b.call(no, 65536-off-l.width+1)
		b.call(no, 0xffffffff)
		b.call(no, 0xffffffff-off+1)
	}
	for i, s := range stores {
		n := fmt.Sprintf("s%02x", s.op)
		b.exp(n, []byte{i32, s.t}, nil, nil, asm().LocalGet(0).LocalGet(1).Mem(s.op, 0, 0))
		no := n + "o"
		b.exp(no, []byte{i32, s.t}, nil, nil, asm().LocalGet(0).LocalGet(1).Mem(s.op, 0, off))
		v := uint64(0x0102030405060708) >> (8 * uint(i%3))
		if s.t == i32 || s.t == f32 {
			v &= 0xffffffff
		}
		b.call(n, 65536-s.width, v)
		b.call(n, 65536-s.width+1, v) // must not write the in-bounds prefix
		b.call(no, 65536-off-s.width-8, v)
		b.call(no, 65536-off-s.width+1, v)
		b.call(no, 0xffffffff, v)
	}
	return b.done()
}

func trapUnreach(k int) *program {
	b := newP("traps", fmt.Sprintf("trap-unreachable-%d", k))
	b.mem(1, -1)
	g := b.global("g", i32, true, wb.CI32(0))
	f3 := b.fn([]byte{i32}, []byte{i32}, nil, asm().
		LocalGet(0).GlobalSet(g).I32Const(4).LocalGet(0).Mem(0x36, 2, 0).
		LocalGet(0).I32Const(int32(10+k)).Op(0x4a).If(wb.Void).Unreachable().End().LocalGet(0))
	f2 := b.fn([]byte{i32}, []byte{i32}, nil, asm().LocalGet(0).I32Const(1).Op(0x6a).Call(f3).I32Const(1).Op(0x6a))
	b.exp("deep", []byte{i32}, []byte{i32}, nil, asm().LocalGet(0).I32Const(1).Op(0x6a).Call(f2).I32Const(1).Op(0x6a))
	b.exp("ld", nil, []byte{i32}, nil, asm().I32Const(4).Mem(0x28, 2, 0))
	b.exp("u", nil, nil, nil, asm().Unreachable())
	b.call("deep", 1)
	b.call("deep", 100)
	b.call("ld")
	b.call("u")
	b.call("deep", 2)
	return b.done()
}

func trapStack(k int) *program {
	b := newP("traps", fmt.Sprintf("trap-stack-%d", k))
	self := b.next()
	var params []byte
	a := asm()
	for i := 0; i < k; i++ { // wider frames in the variants
		params = append(params, i64)
		a.LocalGet(uint32(i))
	}
	a.Call(self).I32Const(1).Op(0x6a)
	b.exp("rec", params, []byte{i32}, nil, a)
	b.exp("ok", nil, []byte{i32}, nil, asm().I32Const(int32(7+k)))
	b.call("rec", make([]uint64, k)...)
	b.call("ok")
	b.p.ThoroughOnlyOn = "compiler"
	return b.done()
}

func trapArith(k int) *program {
	b := newP("traps", fmt.Sprintf("trap-arith-%d", k))
	tA := b.m.Type([]byte{i32, i32}, []byte{i32})
	g := b.global("n", i32, true, wb.CI32(0))
	div := b.fn([]byte{i32, i32}, []byte{i32}, nil, asm().GlobalGet(g).I32Const(1).Op(0x6a).GlobalSet(g).LocalGet(0).LocalGet(1).Op(byte(0x6d+k%4)))
	b.m.Tables = []wb.Table{{Elem: wb.FuncRef, Lim: wb.Limits{Min: 1}}}
	b.m.Elems = []wb.Elem{{Mode: 0, Offset: wb.CI32(0), Funcs: []uint32{div}}}
	b.exp("viaTable", []byte{i32, i32}, []byte{i32}, nil, asm().LocalGet(0).LocalGet(1).I32Const(0).CallIndirect(tA, 0))
	b.exp("trunc", []byte{f64}, []byte{i32}, nil, asm().LocalGet(0).Op(byte(0xaa+k%2)))
	b.exp("l", []byte{i64, i64}, []byte{i64}, nil, asm().LocalGet(0).LocalGet(1).Op(byte(0x7f+k%4)))
	b.call("viaTable", 7, 2)
	b.call("viaTable", 7, 0)
	b.call("viaTable", 0x80000000, u32(-1))
	b.call("trunc", fb64(3.9))
	b.call("trunc", 0x7ff8000000000000)
	b.call("trunc", fb64(1e10))
	b.call("trunc", fb64(-1))
	b.call("l", 9, 0)
	b.call("l", 0x8000000000000000, ^uint64(0))
	b.call("l", 9, 4)
	return b.done()
}

func famTraps(th bool) []*program {
	ps := []*program{trapMem(0), trapUnreach(0), trapStack(0), trapArith(0)}
	if th {
		for k := 1; k < 6; k++ {
			ps = append(ps, trapUnreach(k), trapArith(k))
		}
		ps = append(ps, trapMem(1), trapStack(1), trapStack(4))
	}
	return ps
}

// ---------------------------------------------------------------- multi-value

func mvFuncs(k int) *program {
	b := newP("multivalue", fmt.Sprintf("mv-funcs-%d", k))
	b.exp("swap", []byte{i32, i64}, []byte{i64, i32}, nil, asm().LocalGet(1).LocalGet(0))
	b.exp("three", nil, []byte{i32, i64, f64}, nil, asm().I32Const(int32(1+k)).I64Const(int64(-2-k)).F64Const(wb.F64Bits(3.5)))
	as := b.exp("addsub", []byte{i32, i32}, []byte{i32, i32}, nil, asm().LocalGet(0).LocalGet(1).Op(0x6a).LocalGet(0).LocalGet(1).Op(0x6b))
	b.exp("usemv", []byte{i32, i32}, []byte{i32}, nil, asm().LocalGet(0).LocalGet(1).Call(as).Op(0x6c))
	b.call("swap", 1, 2)
	b.call("three")
	b.call("addsub", 10, 3)
	b.call("usemv", 10, uint64(3+k))
	return b.done()
}

func mvBlocks(k int) *program {
	b := newP("multivalue", fmt.Sprintf("mv-blocks-%d", k))
	b.p.Tag = "multi-value-blocktype"
	t11 := b.m.Type([]byte{i32}, []byte{i32})
	t22 := b.m.Type([]byte{i32, i32}, []byte{i32, i32})
	t02 := b.m.Type(nil, []byte{i32, i64})
	b.exp("bp", []byte{i32}, []byte{i32}, nil, asm().LocalGet(0).BlockT(t11).I32Const(int32(1+k)).Op(0x6a).End())
	// countdown: loop with a parameter
	b.exp("cd", []byte{i32}, []byte{i32}, nil, asm().
		LocalGet(0).LoopT(t11).I32Const(1).Op(0x6b).LocalTee(0).LocalGet(0).I32Const(0).Op(0x4a).BrIf(0).End())
	b.exp("ifmv", []byte{i32, i32, i32}, []byte{i32, i32}, nil, asm().
		LocalGet(0).LocalGet(1).LocalGet(2).IfT(t22).Op(0x6a).I32Const(int32(k)).Else().Op(0x6b).I32Const(9).End())
	b.exp("blk2", nil, []byte{i32, i64}, nil, asm().BlockT(t02).I32Const(5).I64Const(int64(6+k)).End())
	b.call("bp", 41)
	b.call("cd", 5)
	b.call("cd", 0)
	b.call("ifmv", 7, 3, 1)
	b.call("ifmv", 7, 3, 0)
	b.call("blk2")
	return b.done()
}

func famMV(th bool) []*program {
	mb := mvBlocks(0)
	mb.Order = true
	ps := []*program{mvFuncs(0), mb}
	if th {
		for k := 1; k < 7; k++ {
			ps = append(ps, mvFuncs(k), mvBlocks(k))
		}
	}
	return ps
}

// ---------------------------------------------------------------- name / custom / DWARF sections

func sectionsBase(name string, k int) *pb {
	b := newP("sections", name, "log")
	b.mem(1, -1)
	g := b.global("g", i32, true, wb.CI32(int32(k)))
	inner := b.fn([]byte{i32}, []byte{i32}, nil, asm().
		LocalGet(0).GlobalSet(g).LocalGet(0).Call(b.env["log"]).
		LocalGet(0).I32Const(5).Op(0x4a).If(wb.Void).Unreachable().End().
		LocalGet(0).I32Const(3).Op(0x6c))
	outer := b.exp("run", []byte{i32}, []byte{i32}, nil, asm().LocalGet(0).Call(inner).I32Const(int32(1+k)).Op(0x6a))
	b.exp("oob", nil, []byte{i32}, nil, asm().I32Const(-1).Mem(0x28, 2, 0))
	b.m.FuncNames = map[uint32]string{0: "env.log", inner: "inner_fn", outer: "outer_fn"}
	b.call("run", 2)
	b.call("run", 9)
	b.call("oob")
	b.call("run", 4)
	return b
}

// withLeadingCustoms places custom sections right after the header (before the type section).
func withLeadingCustoms(bin []byte, cs []wb.Custom) []byte {
	out := append([]byte{}, bin[:8]...)
	for _, c := range cs {
		body := append(wb.ULEB(uint64(len(c.Name))), c.Name...)
		body = append(body, c.Data...)
		out = append(out, 0)
		out = append(out, wb.ULEB(uint64(len(body)))...)
		out = append(out, body...)
	}
	return append(out, bin[8:]...)
}

func famSections(th bool) []*program {
	var ps []*program
	mk := func(name string, k int, customs []wb.Custom, leading []wb.Custom, tag string) *program {
		b := sectionsBase(name, k)
		b.m.Customs = customs
		p := b.done()
		if leading != nil {
			p.Bin = withLeadingCustoms(p.Bin, leading)
		}
		p.Tag = tag
		ps = append(ps, p)
		return p
	}
	meta := wb.Custom{Name: "meta", Data: []byte("producer=c12")}
	p := mk("sec-dwarf-valid", 0, append([]wb.Custom{meta}, validDWARF(400, "c12.c")...), nil, "")
	p.Order = true
	mk("sec-dwarf-garbage", 0, append(garbageDWARF(0), meta), nil, "")
	mk("sec-custom-leading", 0, []wb.Custom{meta}, []wb.Custom{{Name: "first", Data: []byte{1, 2, 3}}, {Name: "empty-middle"}, {Name: ".debug_str", Data: []byte("x\x00")}}, "")
	mk("sec-custom-empty-last", 0, []wb.Custom{meta, {Name: "empty-last"}}, nil, "empty-trailing-custom-section")
	// debug sections that are present but not usable: every one of these programs is RUN at every point (normal
	// call, unreachable two frames deep, out-of-bounds load), so the DWARF line lookup of the error path is
	// exercised; trap kinds are compared, error texts are not.
	vd := validDWARF(400, "c12.c") // [.debug_abbrev, .debug_info, .debug_line, .debug_str]
	info := vd[1]
	mk("sec-dwarf-truncated-info", 0, []wb.Custom{vd[0], {Name: ".debug_info", Data: info.Data[:len(info.Data)/2]}, vd[2], vd[3]}, nil, "debug-info-not-valid-dwarf")
	mk("sec-dwarf-info-only", 0, []wb.Custom{meta, info}, nil, "debug-info-not-valid-dwarf")
	mk("sec-dwarf-empty-info", 0, []wb.Custom{vd[0], {Name: ".debug_info"}, vd[2], vd[3], meta}, nil, "debug-info-not-valid-dwarf")
	{
		// a "name" custom section with garbage the decoder has to skip (unknown subsections) around real names
		var nm []byte
		nm = append(nm, 7, 6, 0xde, 0xad, 0xbe, 0xef, 0x80, 0xff)
		nm = append(nm, 0, 8, 7)
		nm = append(nm, "c12-mod"...)
		nm = append(nm, 9, 3, 0xff, 0xff, 0xff)
		fn := append([]byte{1, 1, 13}, "inner_garbled"...)
		nm = append(nm, 1, byte(len(fn)))
		nm = append(nm, fn...)
		nm = append(nm, 0x7f, 4, 1, 2, 3, 4)
		b := sectionsBase("sec-name-garbage", 0)
		b.m.FuncNames = nil
		b.m.Customs = []wb.Custom{meta, {Name: "name", Data: nm}}
		p := b.done()
		p.Tag = "name-section-garbage"
		ps = append(ps, p)
	}
	for _, q := range ps {
		if q.Name == "sec-dwarf-garbage" {
			q.Tag = "debug-info-not-valid-dwarf"
		}
	}
	if th {
		for k := 1; k < 5; k++ {
			mk(fmt.Sprintf("sec-dwarf-valid-%d", k), k, validDWARF(uint32(50*k), fmt.Sprintf("f%d.c", k)), nil, "")
			mk(fmt.Sprintf("sec-dwarf-garbage-%d", k), k, garbageDWARF(k), nil, "")
			mk(fmt.Sprintf("sec-dwarf-leading-%d", k), k, []wb.Custom{meta}, validDWARF(uint32(100+k), "lead.c"), "")
		}
		mk("sec-dwarf-then-empty-last", 1, append(validDWARF(300, "c12.c"), wb.Custom{Name: "z"}), nil, "empty-trailing-custom-section")
		mk("sec-names-only", 2, nil, nil, "")
		mk("sec-dwarf-partial", 3, validDWARF(300, "p.c")[:2], nil, "")
	}
	return ps
}

// ---------------------------------------------------------------- start function

func startOK(k int) *program {
	b := newP("start", fmt.Sprintf("start-ok-%d", k), "log")
	b.mem(1, 3)
	g := b.global("g", i64, true, wb.CI64(1))
	st := b.fn(nil, nil, nil, asm().
		I32Const(64).I32Const(c32(0xfeed0000+uint32(k))).Mem(0x36, 2, 0).
		GlobalGet(g).I64Const(int64(41+k)).Op(0x7c).GlobalSet(g).I32Const(int32(k)).Call(b.env["log"]).
		I32Const(1).MemoryGrow().Drop())
	b.m.Start = &st
	b.exp("get", nil, []byte{i32}, nil, asm().I32Const(64).Mem(0x28, 2, 0).MemorySize().Op(0x6a))
	b.call("get")
	return b.done()
}

func startTrap(k int) *program {
	b := newP("start", fmt.Sprintf("start-trap-%d", k), "log", "exit")
	b.mem(1, -1)
	a := asm().I32Const(int32(5 + k)).Call(b.env["log"])
	switch k % 3 {
	case 0:
		a.Unreachable()
	case 1:
		a.I32Const(int32(k)).Call(b.env["exit"]) // exit inside the start function
	case 2:
		a.I32Const(-1).Mem(0x28, 2, 0).Drop()
	}
	st := b.fn(nil, nil, nil, a)
	b.m.Start = &st
	b.exp("get", nil, []byte{i32}, nil, asm().I32Const(1))
	b.call("get")
	return b.done()
}

func famStart(th bool) []*program {
	so := startOK(0)
	so.Order = true
	ps := []*program{so, startTrap(0)}
	if th {
		for k := 1; k < 5; k++ {
			ps = append(ps, startOK(k), startTrap(k))
		}
	}
	return ps
}

// ---------------------------------------------------------------- WebAssembly 2.0 features

func v2Simd(k int) *program {
	b := newP("v2", fmt.Sprintf("v2-simd-%d", k))
	b.mem(1, -1)
	b.exp("addlane", []byte{i32, i32}, []byte{i32}, nil, asm().
		LocalGet(0).Simd(17).LocalGet(1).Simd(17).Simd(174).Simd(27).Op(byte(k%4)))
	b.exp("memx", []byte{i32}, []byte{i64}, nil, asm().
		LocalGet(0).V128Const(0x0102030405060708, 0x1112131415161718+uint64(k)).SimdMem(11, 0, 0).
		LocalGet(0).SimdMem(0, 0, 0).V128Const(0xff, 0xff00).Simd(81).Simd(29).Op(1))
	b.call("addlane", 3, 4)
	b.call("addlane", 0x7fffffff, 1)
	b.call("memx", 16)
	b.call("memx", 65536-16)
	b.call("memx", 65536-15)
	return b.done()
}

func v2Scalar(k int) *program {
	b := newP("v2", fmt.Sprintf("v2-scalar-%d", k))
	for _, op := range []byte{0xc0, 0xc1} {
		n := fmt.Sprintf("x%02x", op)
		b.exp(n, []byte{i32}, []byte{i32}, nil, asm().LocalGet(0).I32Const(int32(k)).Op(0x6a).Op(op))
		for _, a := range argsI32 {
			b.call(n, a)
		}
	}
	for _, op := range []byte{0xc2, 0xc3, 0xc4} {
		n := fmt.Sprintf("x%02x", op)
		b.exp(n, []byte{i64}, []byte{i64}, nil, asm().LocalGet(0).Op(op))
		for _, a := range argsI64 {
			b.call(n, a)
		}
	}
	type sat struct {
		sub      uint32
		from, to byte
	}
	for _, s := range []sat{{0, f32, i32}, {1, f32, i32}, {2, f64, i32}, {3, f64, i32}, {4, f32, i64}, {5, f32, i64}, {6, f64, i64}, {7, f64, i64}} {
		n := fmt.Sprintf("sat%d", s.sub)
		b.exp(n, []byte{s.from}, []byte{s.to}, nil, asm().LocalGet(0).Misc(s.sub))
		for _, a := range argsOf(s.from) {
			b.call(n, a)
		}
	}
	return b.done()
}

func v2Ref(k int) *program {
	b := newP("v2", fmt.Sprintf("v2-ref-%d", k), "ext")
	b.m.Tables = []wb.Table{{Elem: wb.ExternRef, Lim: wb.Limits{Min: uint32(2 + k)}}}
	b.exp("er", []byte{wb.ExternRef}, []byte{wb.ExternRef}, nil, asm().LocalGet(0).Call(b.env["ext"]))
	b.exp("isnull", []byte{wb.ExternRef}, []byte{i32}, nil, asm().LocalGet(0).RefIsNull())
	b.exp("put", []byte{i32, wb.ExternRef}, nil, nil, asm().LocalGet(0).LocalGet(1).TableSet(0))
	b.exp("getnull", []byte{i32}, []byte{i32}, nil, asm().LocalGet(0).TableGet(0).RefIsNull())
	b.call("er", 0)
	b.call("isnull", 0)
	b.call("getnull", 0)
	b.call("getnull", uint64(2+k))
	b.call("put", 1, 0)
	b.call("getnull", 1)
	return b.done()
}

func famV2(th bool) []*program {
	ps := []*program{v2Simd(0), v2Scalar(0), v2Ref(0)}
	if th {
		for k := 1; k < 5; k++ {
			ps = append(ps, v2Simd(k), v2Scalar(k), v2Ref(k))
		}
	}
	return ps
}

// ---------------------------------------------------------------- linked modules (library + main through the same cache)

func libModule(k int, memMax int64) []byte {
	m := &wb.Module{}
	m.Mem = &wb.Limits{Min: 1}
	if memMax >= 0 {
		m.Mem.Max, m.Mem.HasMax = uint32(memMax), true
	}
	cnt := m.AddGlobal(i64, true, wb.CI64(int64(k)))
	base := m.AddGlobal(i32, false, wb.CI32(int32(16+k)))
	inc := m.AddFunc([]byte{i32}, []byte{i32}, nil, asm().GlobalGet(cnt).I64Const(1).Op(0x7c).GlobalSet(cnt).LocalGet(0).I32Const(int32(1+k)).Op(0x6a).B)
	m.Tables = []wb.Table{{Elem: wb.FuncRef, Lim: wb.Limits{Min: 2, Max: 4, HasMax: true}}}
	m.Elems = []wb.Elem{{Mode: 0, Offset: wb.CI32(0), Funcs: []uint32{inc}}}
	m.Exports = []wb.Export{
		{Name: "mem", Kind: wb.KindMemory, Idx: 0}, {Name: "tab", Kind: wb.KindTable, Idx: 0},
		{Name: "cnt", Kind: wb.KindGlobal, Idx: cnt}, {Name: "base", Kind: wb.KindGlobal, Idx: base},
		{Name: "inc", Kind: wb.KindFunc, Idx: inc},
	}
	return m.Encode()
}

func linkedProg(k int, badData bool) *program {
	name := fmt.Sprintf("linked-%d", k)
	if badData {
		name = fmt.Sprintf("linked-baddata-%d", k)
	}
	b := newP("linked", name)
	memMax := int64(3 + k%2)
	b.p.Lib = libModule(k, memMax)
	b.p.LibGlobals = []string{"cnt", "base"}
	b.p.HasMem, b.p.DeclMax, b.p.MemMin = true, memMax, 1
	inc := b.m.ImportFunc("lib", "inc", []byte{i32}, []byte{i32})
	b.m.Imports = append(b.m.Imports,
		wb.Import{Module: "lib", Name: "mem", Kind: wb.KindMemory, Mem: wb.Limits{Min: 1, Max: uint32(memMax), HasMax: true}},
		wb.Import{Module: "lib", Name: "tab", Kind: wb.KindTable, Table: wb.Table{Elem: wb.FuncRef, Lim: wb.Limits{Min: 2, Max: 4, HasMax: true}}},
		wb.Import{Module: "lib", Name: "cnt", Kind: wb.KindGlobal, GlobalType: i64, GlobalMut: true},
		wb.Import{Module: "lib", Name: "base", Kind: wb.KindGlobal, GlobalType: i32},
	)
	tA := b.m.Type([]byte{i32}, []byte{i32})
	own := b.global("copyOfBase", i32, false, wb.CGlobal(1))
	b.m.Datas = []wb.Data{{Offset: wb.CGlobal(1), Bytes: []byte("linked!")}}
	if badData {
		b.m.Datas = append(b.m.Datas, wb.Data{Offset: wb.CI32(65536 - 2), Bytes: []byte("overflow")})
	}
	dbl := b.fn([]byte{i32}, []byte{i32}, nil, asm().LocalGet(0).I32Const(2).Op(0x6c))
	b.m.Elems = []wb.Elem{{Mode: 0, Offset: wb.CI32(1), Funcs: []uint32{dbl}}}
	b.exp("go", []byte{i32}, []byte{i32}, nil, asm().
		GlobalGet(0).I64Const(10).Op(0x7c).GlobalSet(0).
		GlobalGet(own).LocalGet(0).Mem(0x36, 0, 32).
		LocalGet(0).Call(inc).LocalGet(0).I32Const(0).CallIndirect(tA, 0).Op(0x6a).
		LocalGet(0).I32Const(1).CallIndirect(tA, 0).Op(0x6a).
		I32Const(1).MemoryGrow().Op(0x6a))
	b.call("go", 5)
	b.call("go", 6)
	b.call("go", 7)
	return b.done()
}

func famLinked(th bool) []*program {
	l := linkedProg(0, false)
	l.Order = true
	ps := []*program{l, linkedProg(0, true)}
	if th {
		for k := 1; k < 5; k++ {
			ps = append(ps, linkedProg(k, false), linkedProg(k, true))
		}
	}
	return ps
}

// ---------------------------------------------------------------- linked modules + module-dependent host functions

// linkedHostMem: instances "main" and "lib", each with its OWN memory (different marker bytes) and its own
// exported mutable global "tag"; both import the module-dependent host functions. Call shapes: main->host,
// main->lib->host, main->lib->host->(re-enter main.cb)->host. What the host reads, writes and names depends on
// which module it is handed, and both final memories are part of the trace.
func linkedHostMem(k int, hostOnly bool) *program {
	imports := []string{"mrd", "mwr", "mname", "mglob", "note", "reentermain"}
	// ---- lib
	lb := newP("linked-hostmem", "lib", imports...)
	lb.m.Mem = &wb.Limits{Min: 1, Max: 2, HasMax: true}
	lb.m.Datas = []wb.Data{{Offset: wb.CI32(0), Bytes: []byte("LLLL-lib-memory")}}
	ltag := lb.m.AddGlobal(i64, true, wb.CI64(int64(0x11b00+k)))
	lb.m.Exports = append(lb.m.Exports, wb.Export{Name: "tag", Kind: wb.KindGlobal, Idx: ltag}, wb.Export{Name: "mem", Kind: wb.KindMemory, Idx: 0})
	lb.exp("lrd", []byte{i32}, []byte{i32}, nil, asm().LocalGet(0).Call(lb.env["mrd"]))
	lb.exp("lwr", []byte{i32, i32}, nil, nil, asm().LocalGet(0).LocalGet(1).Call(lb.env["mwr"]).
		GlobalGet(ltag).I64Const(1).Op(0x7c).GlobalSet(ltag))
	lb.exp("lname", nil, []byte{i32}, nil, asm().Call(lb.env["mname"]))
	lb.exp("lglob", nil, []byte{i64}, nil, asm().Call(lb.env["mglob"]))
	lb.exp("lnote", []byte{i32}, []byte{i32}, nil, asm().LocalGet(0).Call(lb.env["note"]))
	// lchain: lib -> host -> main.cb -> host, then lib reads its own memory through the host again
	lb.exp("lchain", []byte{i32}, []byte{i32}, nil, asm().
		LocalGet(0).Call(lb.env["reentermain"]).LocalGet(0).Call(lb.env["mrd"]).Op(0x6a))
	// ---- main
	b := newP("linked-hostmem", fmt.Sprintf("linked-hostmem-%d", k), imports...)
	if hostOnly {
		b.p.Name += "-hostlisteners"
		b.p.ListenHostOnly = true
	}
	b.p.Lib = lb.m.Encode()
	b.p.LibGlobals = []string{"tag"}
	type lf struct {
		name   string
		p, res []byte
	}
	libIdx := map[string]uint32{}
	for _, f := range []lf{{"lrd", []byte{i32}, []byte{i32}}, {"lwr", []byte{i32, i32}, nil}, {"lname", nil, []byte{i32}},
		{"lglob", nil, []byte{i64}}, {"lnote", []byte{i32}, []byte{i32}}, {"lchain", []byte{i32}, []byte{i32}}} {
		libIdx[f.name] = b.m.ImportFunc("lib", f.name, f.p, f.res)
	}
	b.mem(1, 2)
	b.m.Datas = []wb.Data{{Offset: wb.CI32(0), Bytes: []byte("MMMM-main-memory")}}
	tag := b.global("tag", i64, true, wb.CI64(int64(0x22a00+k)))
	// main -> host
	b.exp("hrd", []byte{i32}, []byte{i32}, nil, asm().LocalGet(0).Call(b.env["mrd"]))
	b.exp("hwr", []byte{i32, i32}, nil, nil, asm().LocalGet(0).LocalGet(1).Call(b.env["mwr"]).
		GlobalGet(tag).I64Const(1).Op(0x7c).GlobalSet(tag))
	b.exp("hname", nil, []byte{i32}, nil, asm().Call(b.env["mname"]))
	b.exp("hglob", nil, []byte{i64}, nil, asm().Call(b.env["mglob"]))
	b.exp("hnote", []byte{i32}, []byte{i32}, nil, asm().LocalGet(0).Call(b.env["note"]))
	// main -> lib -> host (wrapped: exported imports cannot be called directly with the compiler)
	b.exp("vrd", []byte{i32}, []byte{i32}, nil, asm().LocalGet(0).Call(libIdx["lrd"]))
	b.exp("vwr", []byte{i32, i32}, nil, nil, asm().LocalGet(0).LocalGet(1).Call(libIdx["lwr"]))
	b.exp("vname", nil, []byte{i32}, nil, asm().Call(libIdx["lname"]))
	b.exp("vglob", nil, []byte{i64}, nil, asm().Call(libIdx["lglob"]))
	b.exp("vnote", []byte{i32}, []byte{i32}, nil, asm().LocalGet(0).Call(libIdx["lnote"]))
	// mixed in one activation: own memory via host, lib's memory via lib->host, own again
	b.exp("mix", []byte{i32}, []byte{i32}, nil, asm().
		LocalGet(0).Call(b.env["mrd"]).I32Const(8).Op(0x74).
		LocalGet(0).Call(libIdx["lrd"]).Op(0x72).I32Const(8).Op(0x74).
		LocalGet(0).Call(b.env["mrd"]).Op(0x72))
	// main -> lib -> host -> main.cb -> host
	b.exp("cb", []byte{i32}, []byte{i32}, nil, asm().
		LocalGet(0).I32Const(int32(0x40+k)).Call(b.env["mwr"]).LocalGet(0).Call(b.env["mrd"]).Call(b.env["mname"]).Op(0x73))
	b.exp("chain", []byte{i32}, []byte{i32}, nil, asm().LocalGet(0).Call(libIdx["lchain"]))
	a := uint64(k % 4)
	b.call("hrd", a)
	b.call("vrd", a)
	b.call("mix", a+1)
	b.call("hname")
	b.call("vname")
	b.call("hglob")
	b.call("vglob")
	b.call("hnote", 3)
	b.call("vnote", 4)
	b.call("hwr", 20, 0x6d)
	b.call("vwr", 20, 0x6c)
	b.call("hrd", 20)
	b.call("vrd", 20)
	b.call("chain", 24)
	b.call("hrd", 24)
	b.call("vrd", 24)
	b.call("hglob")
	b.call("vglob")
	b.call("vrd", 70000) // outside lib's memory (and main's)
	return b.done()
}

func famLinkedHost(th bool) []*program {
	ps := []*program{linkedHostMem(0, false), linkedHostMem(0, true)}
	if th {
		for k := 1; k < 4; k++ {
			ps = append(ps, linkedHostMem(k, false), linkedHostMem(k, true))
		}
	}
	return ps
}

// ---------------------------------------------------------------- instantiation errors

func initErr(k int) *program {
	b := newP("initerr", fmt.Sprintf("initerr-%d", k))
	b.mem(1, -1)
	switch k % 2 {
	case 0:
		b.m.Datas = []wb.Data{{Offset: wb.CI32(0), Bytes: []byte("ok")}, {Offset: wb.CI32(int32(65536 - k)), Bytes: make([]byte, 4+k)}}
	case 1:
		f := b.fn(nil, nil, nil, asm())
		b.m.Tables = []wb.Table{{Elem: wb.FuncRef, Lim: wb.Limits{Min: 1}}}
		b.m.Elems = []wb.Elem{{Mode: 0, Offset: wb.CI32(int32(k)), Funcs: []uint32{f, f}}}
	}
	b.exp("get", nil, []byte{i32}, nil, asm().I32Const(1))
	b.call("get")
	return b.done()
}

func famInitErr(th bool) []*program {
	ps := []*program{initErr(0), initErr(1)}
	if th {
		for k := 2; k < 8; k++ {
			ps = append(ps, initErr(k))
		}
	}
	return ps
}

// ---------------------------------------------------------------- corpus

func buildCorpus(thorough bool) []*program {
	var ps []*program
	for _, f := range []func(bool) []*program{famArith, famControl, famMem, famGlobals, famTables, famBulk, famHost, famTraps, famMV, famSections, famStart, famV2, famLinked, famLinkedHost, famInitErr, famTailCall, famCtxDone} {
		ps = append(ps, f(thorough)...)
	}
	seen := map[string]bool{}
	for _, p := range ps {
		if seen[p.Name] {
			fw.Fatalf("corpus: duplicate program name %s", p.Name)
		}
		seen[p.Name] = true
	}
	return ps
}
