package main

import (
	"fmt"

	"github.com/tetratelabs/wazero/verif/wb"
)

// Programs that need an EXPERIMENTAL core feature on top of WebAssembly 2.0 (program.Feat): every runtime of
// such a program — baseline and lattice point / order letter alike — enables the feature (a semantic base,
// like the memory limit), and the non-semantic toggles are crossed with it exactly as for every other program.
//
// Family "tailcall" (CoreFeaturesTailCall). A tail call must behave like return + call: in particular a chain
// of tail calls of ANY length returns, where the same chain of ordinary calls would exhaust the stack. The
// programs therefore iterate through return_call / return_call_indirect with a depth alphabet that straddles
// the interpreter's call-frame ceiling (2000) and goes far beyond it, for every kind of target:
//   self · mutual pair · chain with changing arity and operand types · function of the same module reached
//   through the own / a second / an IMPORTED table · function of another module (direct import, through the
//   imported table, ping-pong between the two modules) · host function (direct, through a table, multi-value)
// and every way a chain can end: value, unreachable, division by zero, table traps (null, type mismatch, out
// of range) at depth, host call / host panic / exit at depth, callback re-entered from the host. Side effects
// inside the chain (memory stores, memory.grow, global updates, host log) are in the trace through the
// final-state lines; ordinary callers with live locals check that the caller's frame survives the chain.

// Depth alphabets. primary: the main loop of every target kind; secondary: the other chain shapes.
// 1999/2000/2001 straddle the interpreter's call-frame ceiling, 5000 (quick) and 10^5 (thorough) are far beyond.
func tailDepths(th bool) []uint64 {
	d := []uint64{0, 1, 2, 5, 1999, 2000, 2001, 5000}
	if th {
		d = append(d, 3000, 65536, 100000)
	}
	return d
}

func tailDepths2(th bool) []uint64 {
	d := []uint64{0, 2, 2001}
	if th {
		d = append(d, 1, 5, 1999, 2000, 5000)
	}
	return d
}

// ifZero: if local n == 0 { then; return }
func ifZero(a *wb.Asm, n uint32, then func(a *wb.Asm)) *wb.Asm {
	a.LocalGet(n).Op(0x45).If(wb.Void)
	then(a)
	return a.Return().End()
}

func dec(a *wb.Asm, n uint32) *wb.Asm { return a.LocalGet(n).I32Const(1).Op(0x6b) }

var tC = [2][]byte{{i32, i32}, {i32}} // (n, acc) -> i32

func tailDirect(k int, th bool) *program {
	b := newP("tailcall", fmt.Sprintf("tail-direct-%d", k), "log")
	b.p.Feat, b.p.Tag = "tail", "tail-call-direct"
	b.mem(1, 3)
	g := b.global("g", i64, true, wb.CI64(0))
	step := int32(1 + k)
	// self
	cnt := b.next()
	b.exp("count", tC[0], tC[1], nil, dec(ifZero(asm(), 0, func(a *wb.Asm) { a.LocalGet(1) }), 0).
		LocalGet(1).I32Const(step).Op(0x6a).ReturnCall(cnt))
	// mutual pair
	ev := b.next()
	od := ev + 1
	b.exp("even", []byte{i32}, []byte{i32}, nil, dec(ifZero(asm(), 0, func(a *wb.Asm) { a.I32Const(1) }), 0).ReturnCall(od))
	b.exp("odd", []byte{i32}, []byte{i32}, nil, dec(ifZero(asm(), 0, func(a *wb.Asm) { a.I32Const(0) }), 0).ReturnCall(ev))
	// chain with changing arity and operand types: a1(n) -> a3(n, i64, i32) -> a2(n, z) -> a3 ...
	a1 := b.next()
	a3, a2 := a1+1, a1+2
	b.exp("arity", []byte{i32}, []byte{i32}, nil, asm().
		LocalGet(0).LocalGet(0).Op(0xad).I64Const(3).Op(0x7e).I32Const(int32(7+k)).ReturnCall(a3))
	b.fn([]byte{i32, i64, i32}, []byte{i32}, nil, dec(ifZero(asm(), 0, func(a *wb.Asm) { a.LocalGet(1).Op(0xa7).LocalGet(2).Op(0x6a) }), 0).
		LocalGet(1).Op(0xa7).LocalGet(2).Op(0x73).ReturnCall(a2))
	b.fn([]byte{i32, i32}, []byte{i32}, nil, dec(ifZero(asm(), 0, func(a *wb.Asm) { a.LocalGet(1) }), 0).
		LocalGet(1).Op(0xad).I64Const(1).Op(0x7c).LocalGet(1).ReturnCall(a3))
	// ordinary caller with a live local around two chains
	b.exp("wrap", []byte{i32}, []byte{i32}, []byte{i32}, asm().
		LocalGet(0).I32Const(3).Op(0x6c).I32Const(1).Op(0x6a).LocalSet(1).
		LocalGet(0).Call(a1).LocalGet(0).I32Const(0).Call(cnt).Op(0x6a).LocalGet(1).Op(0x6a))
	// chains that end in a trap
	tr := b.next()
	b.exp("trapend", []byte{i32}, []byte{i32}, nil, dec(asm().LocalGet(0).Op(0x45).If(wb.Void).Unreachable().End(), 0).ReturnCall(tr))
	dv := b.next()
	b.exp("divend", tC[0], tC[1], nil, dec(ifZero(asm(), 0, func(a *wb.Asm) { a.I32Const(100).LocalGet(1).Op(0x6d) }), 0).
		LocalGet(1).ReturnCall(dv))
	// side effects in every iteration: memory cell (n mod 1024), global
	ml := b.next()
	b.exp("memloop", []byte{i32}, []byte{i32}, nil, dec(ifZero(asm().
		LocalGet(0).I32Const(1023).Op(0x71).I32Const(2).Op(0x74).LocalGet(0).Mem(0x36, 2, 0).
		GlobalGet(g).LocalGet(0).Op(0xad).Op(0x7c).GlobalSet(g),
		0, func(a *wb.Asm) { a.I32Const(4).Mem(0x28, 2, 0) }), 0).ReturnCall(ml))
	// memory.grow between the iterations (the buffer may move), then a store to the last page
	gl := b.next()
	b.exp("growloop", []byte{i32}, []byte{i32}, nil, dec(ifZero(asm(), 0, func(a *wb.Asm) { a.MemorySize() }).
		I32Const(1).MemoryGrow().Drop().
		MemorySize().I32Const(16).Op(0x74).I32Const(8).Op(0x6b).LocalGet(0).Mem(0x36, 2, 0), 0).ReturnCall(gl))
	// a host call in every iteration (ordered log)
	ll := b.next()
	b.exp("logloop", []byte{i32}, []byte{i32}, nil, dec(ifZero(asm().LocalGet(0).Call(b.env["log"]), 0, func(a *wb.Asm) { a.I32Const(5) }), 0).ReturnCall(ll))
	// operands below the tail call that must be discarded, tail call inside a block
	ns := b.next()
	b.exp("nested", []byte{i32}, []byte{i32}, nil, asm().I32Const(11).I32Const(int32(22+k)).
		Block(wb.Void).LocalGet(0).Op(0x45).BrIf(0).LocalGet(0).I32Const(1).Op(0x6b).ReturnCall(ns).End().Op(0x6a))
	// start function that is a tail call into a loop with side effects
	il := b.next()
	b.fn([]byte{i32}, nil, nil, dec(ifZero(asm().LocalGet(0).LocalGet(0).Mem(0x3a, 0, 8192), 0, func(a *wb.Asm) {}), 0).ReturnCall(il))
	st := b.fn(nil, nil, nil, asm().I32Const(int32(200+k)).ReturnCall(il))
	b.m.Start = &st

	for _, d := range tailDepths(th) {
		b.call("count", d, 0)
	}
	for _, d := range tailDepths2(th) {
		b.call("even", d)
		b.call("arity", d)
		b.call("wrap", d)
		b.call("memloop", d)
		b.call("nested", d)
		b.call("trapend", d)
		b.call("divend", d, 0)
		b.call("divend", d, 7)
	}
	b.call("logloop", 4)
	b.call("growloop", 1)
	b.call("growloop", 3)
	b.call("count", 2001, 5)
	return b.done()
}

func tailIndirect(k int, th bool) *program {
	b := newP("tailcall", fmt.Sprintf("tail-indirect-%d", k))
	b.p.Feat, b.p.Tag = "tail", "tail-call-indirect"
	t := b.m.Type(tC[0], tC[1])
	g := b.global("g", i32, true, wb.CI32(0))
	// table 0: 0 counti · 1..4 state functions · 5 wrong type · 6,7 null ; table 1: 0 count1
	ci := b.next()
	b.exp("counti", tC[0], tC[1], nil, dec(ifZero(asm(), 0, func(a *wb.Asm) { a.LocalGet(1) }), 0).
		LocalGet(1).I32Const(int32(1+k)).Op(0x6a).I32Const(0).ReturnCallIndirect(t, 0))
	var st []uint32
	for j := 0; j < 4; j++ {
		// s_j(n, s): ns = s*5+j+1 ; tail into table[1 + (ns>>2 & 3)] with (n-1, ns)
		st = append(st, b.fn(tC[0], tC[1], []byte{i32}, dec(ifZero(asm().
			GlobalGet(g).I32Const(int32(j+1)).Op(0x6a).GlobalSet(g), 0, func(a *wb.Asm) { a.LocalGet(1) }).
			LocalGet(1).I32Const(5).Op(0x6c).I32Const(int32(j+1+k)).Op(0x6a).LocalSet(2), 0).
			LocalGet(2).LocalGet(2).I32Const(2).Op(0x76).I32Const(3).Op(0x71).I32Const(1).Op(0x6a).ReturnCallIndirect(t, 0)))
	}
	fL := b.fn([]byte{i64}, []byte{i64}, nil, asm().LocalGet(0))
	c1 := b.next()
	b.exp("count1", tC[0], tC[1], nil, dec(ifZero(asm(), 0, func(a *wb.Asm) { a.LocalGet(1) }), 0).
		LocalGet(1).I32Const(2).Op(0x6a).I32Const(0).ReturnCallIndirect(t, 1))
	b.m.Tables = []wb.Table{{Elem: wb.FuncRef, Lim: wb.Limits{Min: 8, Max: 8, HasMax: true}}, {Elem: wb.FuncRef, Lim: wb.Limits{Min: 1}}}
	b.m.Elems = []wb.Elem{
		{Mode: 0, Offset: wb.CI32(0), Funcs: []uint32{ci, st[0], st[1], st[2], st[3], fL}},
		{Mode: 0, TableIdx: 1, Offset: wb.CI32(0), Funcs: []uint32{c1}},
	}
	b.exp("machine", tC[0], tC[1], nil, asm().LocalGet(0).LocalGet(1).I32Const(1).ReturnCallIndirect(t, 0))
	// via(n, idx): n direct tail iterations, then a tail call through table[idx] with (3, 0)
	via := b.next()
	b.exp("via", tC[0], tC[1], nil, dec(asm().LocalGet(0).Op(0x45).If(wb.Void).
		I32Const(3).I32Const(0).LocalGet(1).ReturnCallIndirect(t, 0).End(), 0).LocalGet(1).ReturnCall(via))
	b.exp("wrapi", []byte{i32}, []byte{i32}, []byte{i32}, asm().
		LocalGet(0).I32Const(7).Op(0x6c).LocalSet(1).
		LocalGet(0).I32Const(0).I32Const(0).CallIndirect(t, 0).LocalGet(0).I32Const(9).I32Const(1).CallIndirect(t, 0).Op(0x6a).LocalGet(1).Op(0x6a))
	b.exp("tset", []byte{i32, i32}, nil, nil, asm().LocalGet(0).LocalGet(1).TableGet(0).TableSet(0))
	b.exp("tnull", []byte{i32}, nil, nil, asm().LocalGet(0).RefNull(wb.FuncRef).TableSet(0))
	for _, d := range tailDepths(th) {
		b.call("counti", d, 0)
	}
	for _, d := range tailDepths2(th) {
		b.call("count1", d, 1)
		b.call("machine", d, uint64(k))
		b.call("wrapi", d)
		for _, idx := range []uint64{0, 3, 5, 6, 8, u32(-1)} { // ok, ok, type mismatch, null, out of range twice
			b.call("via", d, idx)
		}
	}
	b.call("tset", 0, 2) // slot 0 := state function 1: counti now leaves its own loop after one step
	b.call("counti", 2001, 0)
	b.call("tnull", 3)
	b.call("machine", 5000, 1) // reaches the null slot or not, by the same arithmetic at every point
	b.call("machine", 6, 2)
	return b.done()
}

// tailLinked: modules "lib" and "main" share lib's table. Same-module targets reached through the IMPORTED
// table are proper tail calls (any depth); targets of the other module are reached by direct import, through
// the table, and in a ping-pong main -> lib -> main ... through the table.
func tailLinked(k int, th bool) *program {
	lb := newP("tailcall", "lib")
	lt := lb.m.Type(tC[0], tC[1])
	lci := lb.next()
	lb.exp("lcounti", tC[0], tC[1], nil, dec(ifZero(asm(), 0, func(a *wb.Asm) { a.LocalGet(1) }), 0).
		LocalGet(1).I32Const(3).Op(0x6a).I32Const(0).ReturnCallIndirect(lt, 0))
	lpong := lb.exp("lpong", tC[0], tC[1], nil, dec(ifZero(asm(), 0, func(a *wb.Asm) { a.LocalGet(1) }), 0).
		LocalGet(1).I32Const(1).Op(0x6a).I32Const(2).ReturnCallIndirect(lt, 0))
	lc := lb.next()
	lb.exp("lcount", tC[0], tC[1], nil, dec(ifZero(asm(), 0, func(a *wb.Asm) { a.LocalGet(1) }), 0).
		LocalGet(1).I32Const(int32(2+k)).Op(0x6a).ReturnCall(lc))
	lb.m.Tables = []wb.Table{{Elem: wb.FuncRef, Lim: wb.Limits{Min: 4, Max: 4, HasMax: true}}}
	lb.m.Elems = []wb.Elem{{Mode: 0, Offset: wb.CI32(0), Funcs: []uint32{lci, lpong}}}
	lb.m.Exports = append(lb.m.Exports, wb.Export{Name: "tab", Kind: wb.KindTable, Idx: 0})

	b := newP("tailcall", fmt.Sprintf("tail-linked-%d", k))
	b.p.Feat, b.p.Tag = "tail", "tail-call-linked"
	b.p.Lib = lb.m.Encode()
	ilc := b.m.ImportFunc("lib", "lcount", tC[0], tC[1])
	b.m.Imports = append(b.m.Imports, wb.Import{Module: "lib", Name: "tab", Kind: wb.KindTable, Table: wb.Table{Elem: wb.FuncRef, Lim: wb.Limits{Min: 4, Max: 4, HasMax: true}}})
	t := b.m.Type(tC[0], tC[1])
	ping := b.exp("ping", tC[0], tC[1], nil, dec(ifZero(asm(), 0, func(a *wb.Asm) { a.LocalGet(1) }), 0).
		LocalGet(1).I32Const(2).Op(0x6a).I32Const(1).ReturnCallIndirect(t, 0))
	selfi := b.exp("selfi", tC[0], tC[1], nil, dec(ifZero(asm(), 0, func(a *wb.Asm) { a.LocalGet(1) }), 0).
		LocalGet(1).I32Const(1).Op(0x6a).I32Const(3).ReturnCallIndirect(t, 0))
	b.m.Elems = []wb.Elem{{Mode: 0, Offset: wb.CI32(2), Funcs: []uint32{ping, selfi}}}
	b.exp("tolib", tC[0], tC[1], nil, asm().LocalGet(0).LocalGet(1).ReturnCall(ilc))
	b.exp("tolibi", tC[0], tC[1], nil, asm().LocalGet(0).LocalGet(1).I32Const(0).ReturnCallIndirect(t, 0))
	// n own iterations, then over to lib
	ot := b.next()
	b.exp("ownthenlib", tC[0], tC[1], nil, dec(asm().LocalGet(0).Op(0x45).If(wb.Void).
		I32Const(4).LocalGet(1).ReturnCall(ilc).End(), 0).LocalGet(1).I32Const(1).Op(0x6a).ReturnCall(ot))
	b.exp("wrapl", []byte{i32}, []byte{i32}, []byte{i32}, asm().
		LocalGet(0).I32Const(5).Op(0x6c).LocalSet(1).
		LocalGet(0).I32Const(0).Call(ping).LocalGet(0).I32Const(0).Call(ilc).Op(0x6a).LocalGet(1).Op(0x6a))
	for _, d := range tailDepths(th) {
		b.call("selfi", d, 0)
	}
	for _, d := range tailDepths2(th) {
		b.call("tolib", d, 0)
		b.call("tolibi", d, 0)
		b.call("ownthenlib", d, 0)
	}
	for _, d := range []uint64{0, 1, 2, 5, 1500, 3000} { // every hop changes the module
		b.call("ping", d, 0)
	}
	for _, d := range []uint64{0, 5, 1500} {
		b.call("wrapl", d)
	}
	return b.done()
}

func tailHost(k int, th bool, hostOnly bool) *program {
	b := newP("tailcall", fmt.Sprintf("tail-host-%d", k), "log", "note", "add64", "pair", "reenter", "panic", "exit")
	b.p.Feat, b.p.Tag = "tail", "tail-call-host"
	if hostOnly {
		b.p.Name += "-hostlisteners"
		b.p.ListenHostOnly = true
	}
	t1 := b.m.Type([]byte{i32}, []byte{i32})
	b.exp("tnote", []byte{i32}, []byte{i32}, nil, asm().LocalGet(0).ReturnCall(b.env["note"]))
	b.exp("tadd", []byte{i64, i64}, []byte{i64}, nil, asm().LocalGet(0).LocalGet(1).ReturnCall(b.env["add64"]))
	b.exp("tpair", []byte{i32}, []byte{i32, i64}, nil, asm().LocalGet(0).ReturnCall(b.env["pair"]))
	// n own iterations, then the chain ends IN the host
	ch := b.next()
	b.exp("cnthost", tC[0], tC[1], nil, dec(asm().LocalGet(0).Op(0x45).If(wb.Void).
		LocalGet(1).ReturnCall(b.env["note"]).End(), 0).LocalGet(1).I32Const(int32(1+k)).Op(0x6a).ReturnCall(ch))
	// host function reached through a table
	wrapNote := b.fn([]byte{i32}, []byte{i32}, nil, asm().LocalGet(0).I32Const(1).Op(0x6a))
	b.m.Tables = []wb.Table{{Elem: wb.FuncRef, Lim: wb.Limits{Min: 3}}}
	b.m.Elems = []wb.Elem{{Mode: 0, Offset: wb.CI32(0), Funcs: []uint32{b.env["note"], wrapNote}}}
	b.exp("tinote", []byte{i32, i32}, []byte{i32}, nil, asm().LocalGet(0).LocalGet(1).ReturnCallIndirect(t1, 0))
	// callback for the host's re-entry: a chain of 10*n tail calls inside the nested activation
	cb := b.next()
	b.fn(tC[0], tC[1], nil, dec(ifZero(asm(), 0, func(a *wb.Asm) { a.LocalGet(1) }), 0).LocalGet(1).I32Const(1).Op(0x6a).ReturnCall(cb))
	b.exp("cb", []byte{i32}, []byte{i32}, nil, asm().LocalGet(0).I32Const(10).Op(0x6c).LocalGet(0).ReturnCall(cb))
	b.exp("tre", []byte{i32}, []byte{i32}, nil, asm().LocalGet(0).ReturnCall(b.env["reenter"]))
	// n own iterations, then host panic / exit
	tp := b.next()
	b.exp("tpanic", []byte{i32}, nil, nil, dec(asm().LocalGet(0).Op(0x45).If(wb.Void).ReturnCall(b.env["panic"]).End(), 0).ReturnCall(tp))
	te := b.next()
	b.exp("texit", []byte{i32}, nil, nil, dec(asm().LocalGet(0).Op(0x45).If(wb.Void).I32Const(int32(3+k)).ReturnCall(b.env["exit"]).End(), 0).ReturnCall(te))
	ll := b.next()
	b.exp("logloop", []byte{i32}, nil, nil, dec(ifZero(asm().LocalGet(0).Call(b.env["log"]), 0, func(a *wb.Asm) {}), 0).ReturnCall(ll))
	b.call("tnote", 9)
	b.call("tadd", 5, ^uint64(0))
	b.call("tpair", 41)
	b.call("tinote", 6, 0)
	b.call("tinote", 6, 1)
	b.call("tinote", 6, 2)
	b.call("tinote", 6, 3)
	b.call("logloop", 3)
	for _, d := range tailDepths(th) {
		b.call("cnthost", d, 0)
	}
	for _, d := range tailDepths2(th) {
		b.call("tpanic", d)
	}
	b.call("tre", 0)
	b.call("tre", 3)
	b.call("tre", 300)
	// last: the module is closed afterwards (calls into a closed module depend on close-on-context-done by design)
	b.call("texit", 2001)
	return b.done()
}

func famTailCall(th bool) []*program {
	ti := tailIndirect(0, th)
	ti.Order = true
	ps := []*program{tailDirect(0, th), ti, tailLinked(0, th), tailHost(0, th, false)}
	if th {
		ps = append(ps, tailHost(0, th, true))
		for k := 1; k < 3; k++ {
			ps = append(ps, tailDirect(k, th), tailIndirect(k, th), tailLinked(k, th), tailHost(k, th, k == 2))
		}
	}
	return ps
}
